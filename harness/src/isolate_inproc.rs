//! Fallback for builds without libc (Miri): no fork, the closure runs in-process.
#![allow(dead_code)]

use std::time::Duration;

#[derive(Debug, Clone, PartialEq, Eq)]
pub enum Exit {
    Ok(String),
    Signal(i32, String),
    Status(i32, String),
    Timeout(String),
}

pub struct Limits {
    pub wall: Duration,
    pub address_space: u64,
    pub stack: u64,
}

impl Default for Limits {
    fn default() -> Self {
        Limits { wall: Duration::from_secs(20), address_space: 0, stack: 0 }
    }
}

thread_local! {
    static EMITTED: std::cell::RefCell<String> = const { std::cell::RefCell::new(String::new()) };
}

pub fn run<F: FnOnce() -> String>(_limits: &Limits, f: F) -> Exit {
    EMITTED.with(|e| e.borrow_mut().clear());
    let tail = f();
    let mut text = EMITTED.with(|e| std::mem::take(&mut *e.borrow_mut()));
    text.push_str(&tail);
    Exit::Ok(text)
}

pub fn emit(text: &str) {
    EMITTED.with(|e| e.borrow_mut().push_str(text));
}

pub fn child_exit(code: i32) -> ! {
    std::process::exit(code)
}

pub fn signal_name(_sig: i32) -> &'static str {
    "SIG?"
}
