//! Crash isolation: run a closure in a forked child so that stack overflows, aborts and
//! impossible allocations kill the child only. The child's answer comes back over a pipe.
#![allow(dead_code)]

use std::io::Read;
use std::os::fd::FromRawFd;
use std::time::{Duration, Instant};

#[derive(Debug, Clone, PartialEq, Eq)]
pub enum Exit {
    /// child finished and sent this text
    Ok(String),
    /// child was killed by this signal (SIGSEGV = stack overflow, SIGABRT = abort/alloc failure)
    Signal(i32, String),
    /// child exited with a non-zero status without completing (e.g. panic=abort path, process::exit)
    Status(i32, String),
    /// wall-clock watchdog fired — inconclusive, never a verdict by itself
    Timeout(String),
}

pub struct Limits {
    pub wall: Duration,
    /// RLIMIT_AS in bytes (0 = unlimited)
    pub address_space: u64,
    /// RLIMIT_STACK in bytes (0 = inherit)
    pub stack: u64,
}

impl Default for Limits {
    fn default() -> Self {
        Limits {
            wall: Duration::from_secs(20),
            address_space: 4 << 30,
            stack: 0,
        }
    }
}

/// Run `f` in a forked child. `f` returns the text to send back. The part of the text
/// written before a crash is returned too (children may `emit` partial progress).
pub fn run<F: FnOnce() -> String>(limits: &Limits, f: F) -> Exit {
    unsafe {
        let mut fds = [0i32; 2];
        if libc::pipe(fds.as_mut_ptr()) != 0 {
            return Exit::Status(-1, "pipe failed".into());
        }
        // flush stdout so the child does not duplicate buffered output
        let _ = std::io::Write::flush(&mut std::io::stdout());
        let pid = libc::fork();
        if pid < 0 {
            return Exit::Status(-1, "fork failed".into());
        }
        if pid == 0 {
            // child
            libc::close(fds[0]);
            // never outlive the worker: if the orchestrator's watchdog kills the worker, a
            // spinning child would otherwise keep the worker's output pipe open forever
            libc::prctl(libc::PR_SET_PDEATHSIG, libc::SIGKILL);
            // and never run longer than a generous multiple of the parent's own watchdog
            let rl = libc::rlimit { rlim_cur: limits.wall.as_secs().saturating_mul(2).max(60), rlim_max: limits.wall.as_secs().saturating_mul(2).max(60) + 5 };
            libc::setrlimit(libc::RLIMIT_CPU, &rl);
            if limits.address_space > 0 {
                let rl = libc::rlimit {
                    rlim_cur: limits.address_space,
                    rlim_max: limits.address_space,
                };
                libc::setrlimit(libc::RLIMIT_AS, &rl);
            }
            if limits.stack > 0 {
                let rl = libc::rlimit {
                    rlim_cur: limits.stack,
                    rlim_max: limits.stack,
                };
                libc::setrlimit(libc::RLIMIT_STACK, &rl);
            }
            // no core dumps
            let rl = libc::rlimit {
                rlim_cur: 0,
                rlim_max: 0,
            };
            libc::setrlimit(libc::RLIMIT_CORE, &rl);
            CHILD_FD = fds[1];
            let res = std::panic::catch_unwind(std::panic::AssertUnwindSafe(f));
            let (code, text) = match res {
                Ok(s) => (0, s),
                Err(p) => {
                    let msg = if let Some(s) = p.downcast_ref::<&str>() {
                        s.to_string()
                    } else if let Some(s) = p.downcast_ref::<String>() {
                        s.clone()
                    } else {
                        "panic".to_string()
                    };
                    (101, format!("\u{1}PANIC {}", msg))
                }
            };
            write_all(fds[1], text.as_bytes());
            libc::close(fds[1]);
            libc::_exit(code);
        }
        // parent
        libc::close(fds[1]);
        let flags = libc::fcntl(fds[0], libc::F_GETFL);
        libc::fcntl(fds[0], libc::F_SETFL, flags | libc::O_NONBLOCK);
        let mut file = std::fs::File::from_raw_fd(fds[0]);
        let mut buf: Vec<u8> = Vec::new();
        let start = Instant::now();
        let mut status: i32 = 0;
        let mut timed_out = false;
        let mut sleep_us = 50u64;
        loop {
            drain(&mut file, &mut buf);
            let r = libc::waitpid(pid, &mut status, libc::WNOHANG);
            if r == pid {
                break;
            }
            if start.elapsed() > limits.wall {
                libc::kill(pid, libc::SIGKILL);
                libc::waitpid(pid, &mut status, 0);
                timed_out = true;
                break;
            }
            std::thread::sleep(Duration::from_micros(sleep_us));
            if sleep_us < 2000 {
                sleep_us *= 2;
            }
        }
        // final drain (blocking now that the writer is gone)
        let flags = libc::fcntl(fds[0], libc::F_GETFL);
        libc::fcntl(fds[0], libc::F_SETFL, flags & !libc::O_NONBLOCK);
        let _ = file.read_to_end(&mut buf);
        let text = String::from_utf8_lossy(&buf).to_string();
        if timed_out {
            return Exit::Timeout(text);
        }
        if libc::WIFSIGNALED(status) {
            return Exit::Signal(libc::WTERMSIG(status), text);
        }
        let code = libc::WEXITSTATUS(status);
        if code == 0 {
            Exit::Ok(text)
        } else {
            Exit::Status(code, text)
        }
    }
}

static mut CHILD_FD: i32 = -1;

/// From inside an isolated child: send partial output immediately (survives a later crash).
pub fn emit(text: &str) {
    unsafe {
        if CHILD_FD >= 0 {
            write_all(CHILD_FD, text.as_bytes());
        }
    }
}

/// From inside an isolated child: terminate now with this exit code (used by in-child
/// watchdog threads that decided on a deterministic counter).
pub fn child_exit(code: i32) -> ! {
    unsafe { libc::_exit(code) }
}

unsafe fn write_all(fd: i32, mut b: &[u8]) {
    while !b.is_empty() {
        let n = unsafe { libc::write(fd, b.as_ptr() as *const libc::c_void, b.len()) };
        if n <= 0 {
            return;
        }
        b = &b[n as usize..];
    }
}

fn drain(file: &mut std::fs::File, buf: &mut Vec<u8>) {
    let mut tmp = [0u8; 65536];
    loop {
        match file.read(&mut tmp) {
            Ok(0) => return,
            Ok(n) => buf.extend_from_slice(&tmp[..n]),
            Err(_) => return,
        }
    }
}

pub fn signal_name(sig: i32) -> &'static str {
    match sig {
        libc::SIGSEGV => "SIGSEGV",
        libc::SIGABRT => "SIGABRT",
        libc::SIGBUS => "SIGBUS",
        libc::SIGILL => "SIGILL",
        libc::SIGFPE => "SIGFPE",
        libc::SIGKILL => "SIGKILL",
        _ => "SIG?",
    }
}
