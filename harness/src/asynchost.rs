//! Scripted host for programs that use `order()` / await, with a built-in monitor of the
//! order protocol (C08) and a set of await-position programs (C07).
#![allow(dead_code)]

use crate::runner;
use std::cell::RefCell;
use std::collections::{BTreeMap, BTreeSet};
use std::rc::Rc;
use tsrun::{JsValue, OrderId, OrderResponse, RuntimeValue, StepResult, api};

#[derive(Clone, Debug)]
pub struct Policy {
    /// answer order number n (0-based, in issue order) with a host promise settled later
    pub deferred: Vec<bool>,
    /// default for orders beyond `deferred`
    pub deferred_default: bool,
    /// spurious step() calls after every suspension, before the host does anything
    pub extra_steps: usize,
    /// order in which unsettled host promises are settled when the program waits (seed of a shuffle; 0 = oldest first, 1 = newest first)
    pub settle: u64,
    /// settle all unsettled promises at once instead of one per round
    pub settle_batch: bool,
    pub gc_threshold: Option<usize>,
    /// host-forced collect() after every host action
    pub collect: bool,
    /// hostile extras: 0 none, 1 answer an unknown id too, 2 answer again (duplicate, different value), 3 answer the next id ahead of issue
    pub hostile: u8,
}

impl Default for Policy {
    fn default() -> Self {
        Policy { deferred: vec![], deferred_default: false, extra_steps: 0, settle: 0, settle_batch: false, gc_threshold: None, collect: false, hostile: 0 }
    }
}

#[derive(Debug, Default)]
pub struct HostRun {
    pub outcome: String,
    pub log: Vec<String>,
    pub problems: Vec<(String, String)>,
    pub suspensions: usize,
    pub orders_issued: usize,
    pub cancellations: usize,
    pub host_promises: usize,
    pub stale_events: Vec<String>,
    pub history: Vec<String>,
}

/// orders created as inputs of a Promise.race carry `r: 1` in their payload
fn payload_is_race_member(v: &JsValue) -> bool {
    api::get_property(v, "r").map(|x| !x.is_undefined()).unwrap_or(false)
}

fn payload_fields(v: &JsValue) -> (Option<f64>, Option<String>) {
    let k = api::get_property(v, "k").ok().and_then(|x| x.as_number());
    let err = api::get_property(v, "err").ok().and_then(|x| x.as_str().map(|s| s.to_string()));
    (k, err)
}

pub fn run(src: &str, policy: &Policy) -> HostRun {
    let mut out = HostRun::default();
    let log = Rc::new(RefCell::new(Vec::new()));
    let mut interp = runner::new_interp(&log);
    if let Some(t) = policy.gc_threshold {
        interp.set_gc_threshold(t);
    }
    tsrun::verif::take_gc_events();
    // ledger
    let mut issued: BTreeMap<u64, (Option<f64>, Option<String>)> = BTreeMap::new();
    let mut issue_order: Vec<u64> = Vec::new();
    let mut answered: BTreeSet<u64> = BTreeSet::new();
    let mut cancelled_seen: BTreeSet<u64> = BTreeSet::new();
    let mut max_id: u64 = 0;
    // Promise.race bookkeeping: tagged members, the member whose host promise was settled
    // first (the winner), the members settled in the same host action, and whether the
    // interpreter reported another Suspended after that (where cancellations become visible)
    let mut race_members: BTreeSet<u64> = BTreeSet::new();
    let mut race_immediate = false;
    let mut race_winner: Option<u64> = None;
    let mut settled_with_winner: BTreeSet<u64> = BTreeSet::new();
    let mut suspended_after_win = false;
    // host promises: (order id, promise, settled)
    let mut promises: Vec<(u64, RuntimeValue, bool)> = Vec::new();
    let mut st = interp.prepare(src, None);
    let mut steps_since_host: u64 = 0;
    let mut total_steps: u64 = 0;
    let mut rounds = 0usize;
    let mut rng = crate::util::Rng::new(policy.settle);
    loop {
        match st {
            Err(e) => {
                let (c, m) = runner::error_class(&e);
                out.outcome = format!("error:{}:{}", c, m);
                break;
            }
            Ok(StepResult::Continue) => {
                steps_since_host += 1;
                total_steps += 1;
                if steps_since_host > 300_000 {
                    out.problems.push(("no-progress".into(), "more than 300000 steps without reaching Complete/Suspended after the host answered".into()));
                    out.outcome = "limit".into();
                    break;
                }
                st = interp.step();
            }
            Ok(StepResult::Done) => {
                out.outcome = "done".into();
                break;
            }
            Ok(StepResult::NeedImports(r)) => {
                out.outcome = format!("need-imports:{}", r.len());
                break;
            }
            Ok(StepResult::Complete(v)) => {
                out.outcome = format!("value:{}", runner::show_value(v.value()));
                let q = interp.verif_quiescence();
                // (answers to ids the program never issued stay queued: host misuse, not judged)
                if q.suspended_for_order || q.wait_contexts > 0 || q.pending_orders > 0 || (q.order_responses > 0 && policy.hostile == 0) {
                    out.problems.push((
                        "complete-with-outstanding".into(),
                        format!("Complete reported while suspended_for_order={} wait_contexts={} pending_orders={} undelivered_responses={}", q.suspended_for_order, q.wait_contexts, q.pending_orders, q.order_responses),
                    ));
                }
                if let Some(w) = race_winner
                    && !race_immediate
                    && suspended_after_win
                {
                    let missing: Vec<&u64> = race_members.iter().filter(|id| **id != w && !settled_with_winner.contains(id) && !cancelled_seen.contains(id)).collect();
                    if !missing.is_empty() {
                        out.problems.push(("cancel-missing".into(), format!("the race was won by order {} but the losing orders {:?} were never reported as cancelled (cancelled: {:?})", w, missing, cancelled_seen)));
                    }
                }
                let unanswered: Vec<&u64> = issued.keys().filter(|id| !answered.contains(id) && !cancelled_seen.contains(id)).collect();
                if !unanswered.is_empty() {
                    out.problems.push(("complete-with-unanswered-order".into(), format!("Complete reported although orders {:?} were never answered", unanswered)));
                }
                break;
            }
            Ok(StepResult::Suspended { pending, cancelled }) => {
                rounds += 1;
                out.suspensions += 1;
                steps_since_host = 0;
                // a legitimate program suspends about twice per order (issue, settlement); the
                // budget grows with the orders issued so that only rounds without new orders count
                if rounds > 200 + 3 * issued.len() {
                    out.problems.push(("no-progress".into(), "more than 200 suspension rounds beyond three per issued order".into()));
                    out.outcome = "too-many-rounds".into();
                    break;
                }
                out.history.push(format!("suspended pending={:?} cancelled={:?}", pending.iter().map(|o| o.id.0).collect::<Vec<_>>(), cancelled.iter().map(|c| c.0).collect::<Vec<_>>()));
                // ── ledger: orders ──
                let mut new_orders: Vec<u64> = Vec::new();
                for o in &pending {
                    let id = o.id.0;
                    if issued.contains_key(&id) {
                        out.problems.push(("order-reported-twice".into(), format!("order {} handed to the host a second time", id)));
                        continue;
                    }
                    if id <= max_id {
                        out.problems.push(("order-id-not-fresh".into(), format!("order id {} is not greater than every earlier id (max {})", id, max_id)));
                    }
                    max_id = max_id.max(id);
                    let f = payload_fields(o.payload.value());
                    if f.0.is_none() && f.1.is_none() {
                        out.problems.push(("payload-damaged".into(), format!("order {} arrived without its k/err payload field", id)));
                    }
                    if payload_is_race_member(o.payload.value()) {
                        race_members.insert(id);
                    }
                    issued.insert(id, f);
                    issue_order.push(id);
                    new_orders.push(id);
                }
                if race_winner.is_some() {
                    suspended_after_win = true;
                }
                for c in &cancelled {
                    if !issued.contains_key(&c.0) {
                        out.problems.push(("cancel-unissued".into(), format!("cancellation names order {} which was never issued", c.0)));
                    }
                    if !cancelled_seen.insert(c.0) {
                        out.problems.push(("cancel-reported-twice".into(), format!("cancellation of order {} reported twice", c.0)));
                    }
                    if race_winner == Some(c.0) && !race_immediate {
                        out.problems.push(("cancel-of-winner".into(), format!("order {} won the race (its host promise was settled first) and is reported as cancelled", c.0)));
                    }
                }
                out.orders_issued = issued.len();
                out.cancellations = cancelled_seen.len();
                // ── spurious steps: nothing is ready, so nothing may happen ──
                for _ in 0..policy.extra_steps {
                    if !new_orders.is_empty() {
                        break; // (only meaningful while the host has not acted)
                    }
                    match interp.step() {
                        Ok(StepResult::Suspended { pending: p2, cancelled: c2 }) => {
                            if !p2.is_empty() || !c2.is_empty() {
                                out.problems.push(("spurious-step-reported-events".into(), format!("an extra step() while nothing was ready reported pending={} cancelled={}", p2.len(), c2.len())));
                            }
                        }
                        Ok(other) => {
                            let k = match other {
                                StepResult::Continue => "Continue",
                                StepResult::Complete(_) => "Complete",
                                StepResult::Done => "Done",
                                _ => "other",
                            };
                            out.problems.push(("spurious-step-made-progress".into(), format!("an extra step() while the host had answered nothing returned {}", k)));
                        }
                        Err(_) => out.problems.push(("spurious-step-error".into(), "an extra step() while nothing was ready returned an error".into())),
                    }
                }
                // ── something the host can still do? ──
                let unsettled: Vec<usize> = promises.iter().enumerate().filter(|(_, p)| !p.2).map(|(i, _)| i).collect();
                if new_orders.is_empty() && unsettled.is_empty() {
                    out.problems.push((
                        "suspended-with-nothing-to-do".into(),
                        format!("Suspended reported, but every order is answered and every host promise settled (issued {:?}, answered {:?})", issue_order, answered),
                    ));
                    out.outcome = "stuck".into();
                    break;
                }
                // ── host acts ──
                if !new_orders.is_empty() {
                    let mut responses: Vec<OrderResponse> = Vec::new();
                    for id in &new_orders {
                        let n = issue_order.iter().position(|x| x == id).unwrap_or(0);
                        let deferred = policy.deferred.get(n).copied().unwrap_or(policy.deferred_default);
                        let (k, err) = issued.get(id).cloned().unwrap_or((None, None));
                        if !deferred && race_members.contains(id) {
                            race_immediate = true; // a member answered with a plain value: no promise competes
                        }
                        if deferred {
                            let p = api::create_order_promise(&mut interp, OrderId(*id));
                            responses.push(OrderResponse { id: OrderId(*id), result: Ok(RuntimeValue::unguarded(p.value().clone())) });
                            promises.push((*id, p, false));
                            out.host_promises += 1;
                        } else {
                            match err {
                                Some(m) => responses.push(OrderResponse { id: OrderId(*id), result: Err(tsrun::JsError::type_error(m)) }),
                                None => responses.push(OrderResponse { id: OrderId(*id), result: Ok(RuntimeValue::unguarded(JsValue::from(k.unwrap_or(-1.0) * 2.0))) }),
                            }
                        }
                        answered.insert(*id);
                    }
                    match policy.hostile {
                        1 => responses.push(OrderResponse { id: OrderId(max_id + 1000), result: Ok(RuntimeValue::unguarded(JsValue::from(-777.0))) }),
                        3 => responses.push(OrderResponse { id: OrderId(max_id + 1), result: Ok(RuntimeValue::unguarded(JsValue::from(-888.0))) }),
                        _ => {}
                    }
                    interp.fulfill_orders(responses);
                    if policy.hostile == 2 {
                        // duplicate answers with a different value, after the real ones
                        let dup: Vec<OrderResponse> = new_orders.iter().map(|id| OrderResponse { id: OrderId(*id), result: Ok(RuntimeValue::unguarded(JsValue::from(-999.0))) }).collect();
                        let _ = dup; // delivered on the NEXT suspension (see below) so that it cannot simply overwrite
                    }
                } else {
                    // the program waits on host promises: settle per policy
                    let mut order: Vec<usize> = unsettled.clone();
                    match policy.settle {
                        0 => {}
                        1 => order.reverse(),
                        _ => rng.shuffle(&mut order),
                    }
                    let take = if policy.settle_batch { order.len() } else { 1 };
                    if race_winner.is_none()
                        && let Some(&first) = order.iter().take(take).find(|pi| race_members.contains(&promises[**pi].0))
                    {
                        race_winner = Some(promises[first].0);
                        settled_with_winner = order.iter().take(take).map(|pi| promises[*pi].0).collect();
                    }
                    for &pi in order.iter().take(take) {
                        let id = promises[pi].0;
                        let (k, err) = issued.get(&id).cloned().unwrap_or((None, None));
                        let r = match err {
                            Some(m) => api::reject_promise(&mut interp, &promises[pi].1, RuntimeValue::unguarded(JsValue::from(format!("TypeError: {}", m)))),
                            None => api::resolve_promise(&mut interp, &promises[pi].1, RuntimeValue::unguarded(JsValue::from(k.unwrap_or(-1.0) * 2.0))),
                        };
                        if r.is_err() {
                            out.problems.push(("settle-failed".into(), format!("settling the host promise of order {} failed", id)));
                        }
                        promises[pi].2 = true;
                    }
                    if policy.hostile == 2 && !answered.is_empty() {
                        // late duplicate answer for an order that was delivered long ago
                        let id = *answered.iter().next().unwrap();
                        interp.fulfill_orders(vec![OrderResponse { id: OrderId(id), result: Ok(RuntimeValue::unguarded(JsValue::from(-999.0))) }]);
                    }
                }
                if policy.collect {
                    interp.collect();
                }
                st = interp.step();
            }
        }
    }
    let _ = total_steps;
    out.log = log.borrow().clone();
    out.stale_events = tsrun::verif::take_gc_events()
        .into_iter()
        .filter(|e| e.kind != "clone" && e.kind != "drop_reused")
        .map(|e| format!("{}@{}", e.kind, if e.site.is_empty() { "<vm>" } else { e.site.as_str() }))
        .collect();
    out
}

// ───────────────────────────── programs ─────────────────────────────

pub const REAL_HEADER: &str = "import { order } from \"tsrun:host\";\n";
/// in-program synchronous stand-in for the host: same values, same error strings
pub const STUB_HEADER: &str = "function order(p) { if (p.err !== undefined) { throw 'TypeError: ' + p.err; } return p.k * 2; }\n";

const FOOTER: &str = "\nlet __res;\ntry { __res = await main(); } catch (e) { __res = 'uncaught:' + String(e && e.name ? e.name : e); }\nJSON.stringify([__res, __log])\n";

/// (name, body defining `async function main()`; may use __log)
pub const AWAIT_ATOMS: &[(&str, &str)] = &[
    ("caller-continues-while-callee-awaits", "async function main(){ async function w(){ const v = await order({k: 1}); __log.push('w' + v); return v; } const p = w(); __log.push('main'); const r = await p; return r; }"),
    ("caller-resolves-what-callee-awaits", "async function main(){ let res; const gate = new Promise(function(r){ res = r; }); async function w(){ const g = await gate; const v = await order({k: g}); __log.push('w' + v); return v; } const p = w(); __log.push('main'); res(3); const r = await p; return r; }"),
    ("toplevel-caller-continues-while-callee-awaits", "async function w(){ const v = await order({k: 1}); __log.push('w' + v); return v; }\nconst __p = w(); __log.push('top');\nasync function main(){ return await __p; }"),
    ("toplevel-caller-resolves-what-callee-awaits", "let __res; const __gate = new Promise(function(r){ __res = r; });\nasync function w(){ const g = await __gate; const v = await order({k: g}); __log.push('w' + v); return v; }\nconst __p = w(); __log.push('top'); __res(3);\nasync function main(){ return await __p; }"),
    ("toplevel-two-callees-one-gate", "let __res; const __gate = new Promise(function(r){ __res = r; });\nasync function w(t){ const g = await __gate; __log.push(t + g); return await order({k: g}); }\nconst __a = w('a'); const __b = w('b'); __log.push('top'); __res(2);\nasync function main(){ return [await __a, await __b]; }"),
    ("arguments-after-await", "async function main(){ async function f(a, b){ const r = await order({k: 1}); return [arguments.length, arguments[0], arguments[2], r, a + b]; } return await f(7, 8, 9); }"),
    ("arguments-in-caller-frame", "async function main(){ async function inner(k){ return await order({k: k}); } async function outer(){ const r = await inner(2); return [arguments.length, arguments[1], r]; } return await outer('x', 'y', 'z'); }"),
    ("arguments-in-sync-caller", "async function main(){ function deep(k){ return order({k: k}); } function mid(){ const p = deep(3); return [arguments.length, arguments[0], p]; } const t = mid('m', 'n'); t[2] = await t[2]; return t; }"),
    ("rest-and-default-params", "async function main(){ async function f(a, b = a + 1, ...rest){ const r = await order({k: a}); return [a, b, rest, r, rest.length]; } return [await f(1), await f(2, 5, 'x', 'y')]; }"),
    ("finally-busy-pending-throw-object", "async function main(){ function junk(){ var g = []; for (var i = 0; i < 40; i++) { g.push({i: i, s: 'x' + i}); } return g.length; } async function f(){ try { throw { code: 7, list: [1, 2, {deep: 'd'}] }; } finally { const t = [1, 2, 3].map(function(x){ return x * 2; }); const u = { a: t.length, b: junk() }; const r = await order({k: u.a}); junk(); __log.push('fin' + r + u.b); } } try { await f(); return 'not-thrown'; } catch (e) { return ['caught', e.code, e.list]; } }"),
    ("finally-busy-pending-throw-error", "async function main(){ function junk(){ var g = []; for (var i = 0; i < 40; i++) { g.push({i: i, s: 'x' + i}); } return g.length; } class MyErr extends Error { constructor(m, extra){ super(m); this.extra = extra; } } async function f(){ try { throw new MyErr('boom', {x: [9]}); } finally { let s = ''; for (let i = 0; i < 3; i++) { s += String(i); } const r = await order({k: s.length}); junk(); __log.push(s + r); } } try { await f(); return 'no'; } catch (e) { return [e instanceof MyErr, e.message, e.extra]; } }"),
    ("finally-busy-pending-return-object", "async function main(){ function junk(){ var g = []; for (var i = 0; i < 40; i++) { g.push({i: i, s: 'x' + i}); } return g.length; } async function f(){ try { return { ret: [1, {z: 2}], tag: 'r' }; } finally { const t = { k: [4, 5].concat([6]) }; const r = await order({k: t.k.length}); junk(); __log.push('fin' + r); } } return await f(); }"),
    ("finally-nested-pending-throw", "async function main(){ function junk(){ var g = []; for (var i = 0; i < 40; i++) { g.push({i: i, s: 'x' + i}); } return g.length; } async function f(){ try { try { throw { inner: [1] }; } finally { const a = [junk()]; await order({k: 1}); junk(); } } finally { const b = { n: junk() }; await order({k: 2}); junk(); __log.push('outer-fin'); } } try { await f(); return 'no'; } catch (e) { return ['caught', e.inner]; } }"),
    ("finally-sync-callee-suspends", "async function main(){ function junk(){ var g = []; for (var i = 0; i < 40; i++) { g.push({i: i, s: 'x' + i}); } return g.length; } function blocking(k){ return order({k: k}); } async function f(){ try { throw { payload: { p: [1, 2] } }; } finally { const t = [junk(), junk()]; const v = blocking(t.length); junk(); __log.push(String(await v)); } } try { await f(); return 'no'; } catch (e) { return ['caught', e.payload]; } }"),
    ("catch-binding-survives", "async function main(){ function junk(){ var g = []; for (var i = 0; i < 40; i++) { g.push({i: i, s: 'x' + i}); } return g.length; } try { throw { first: [1, 2] }; } catch (e) { const r = await order({k: 1}); junk(); const again = await order({k: 2}); return [e.first, r, again]; } }"),
    ("for-of-map-entries", "async function main(){ const m = new Map([['a', {v: 1}], ['b', {v: 2}], ['c', {v: 3}]]); const out = []; for (const [k, o] of m) { const r = await order({k: o.v}); out.push(k + r); } return out; }"),
    ("for-of-set-and-entries", "async function main(){ const out = []; for (const x of new Set([3, 1, 2])) { out.push(await order({k: x})); } for (const [i, v] of ['p', 'q'].entries()) { out.push(i + v + await order({k: i})); } return out; }"),
    ("for-in-keys", "async function main(){ const o = {a: 1, b: 2, c: 3}; const out = []; for (const k in o) { out.push(k + await order({k: o[k]})); } return out; }"),
    ("destructuring-in-progress", "async function main(){ const src = { a: 1, b: { c: [2, 3] } }; const { a, b: { c: [x, y = await order({k: 9})] }, z = await order({k: a}) } = src; const [p, q = await order({k: 4}), ...rest] = [1, undefined, 3, 4]; return [a, x, y, z, p, q, rest]; }"),
    ("spread-and-call-args", "async function main(){ function f(...xs){ return xs; } const a = [1, 2]; return f(...a, await order({k: 3}), ...[await order({k: 4})], 9); }"),
    ("switch-and-labels", "async function main(){ const out = []; outer: for (let i = 0; i < 3; i++) { switch (await order({k: i})) { case 0: out.push('zero'); break; case 2: out.push('two'); continue outer; default: out.push('other'); break outer; } out.push('after' + i); } return out; }"),
    ("closures-over-loop-variable", "async function main(){ const fs = []; for (let i = 0; i < 3; i++) { const r = await order({k: i}); fs.push(function(){ return i * 10 + r; }); } return fs.map(function(f){ return f(); }); }"),
    ("compound-and-update", "async function main(){ let x = 1; const o = { n: 5, arr: [1, 2] }; x += await order({k: 2}); o.n *= await order({k: 3}); o.arr[1] += await order({k: 1}); x++; return [x, o.n, o.arr]; }"),
    ("optional-chain-and-nullish", "async function main(){ const o = { f(v){ return [this === o, v]; }, n: null }; const a = o?.f(await order({k: 1})); const b = o.n ?? await order({k: 2}); const c = o.missing?.(await order({k: 3})); return [a, b, c]; }"),
    ("private-fields-and-statics", "async function main(){ class K { #p = 5; static #s = 7; static count = 0; async m(){ const r = await order({k: this.#p}); K.count++; return [this.#p, K.#s, r]; } static async sm(){ const r = await order({k: K.#s}); return [this === K, r]; } } return [await new K().m(), await K.sm(), K.count]; }"),
    ("getter-setter-frames", "async function main(){ let store = 0; const o = { get g(){ return store + 1; }, set s(v){ store = v; } }; o.s = await order({k: 2}); const a = o.g; o.s = o.g + await order({k: 1}); return [a, store, o.g]; }"),
    ("generator-consumed-across-awaits", "async function main(){ function* g(){ let acc = 0; while (true) { const v = yield acc; acc += v; } } const it = g(); it.next(); const a = it.next(await order({k: 1})).value; const b = it.next(await order({k: 2})).value; return [a, b, it.next(1).value]; }"),
    ("template-and-tagged", "async function main(){ function tag(s, ...v){ return s.raw.join('|') + v.join(','); } const t = `a${await order({k: 1})}b${[await order({k: 2})]}c`; return [t, tag`x${await order({k: 3})}y${1}`]; }"),
    ("new-target-and-construct", "async function main(){ function F(v){ this.v = v; this.nt = new.target === F; } async function mk(){ return new F(await order({k: 4})); } const o = await mk(); return [o.v, o.nt, o instanceof F]; }"),
    ("three-deep-with-try-each", "async function main(){ async function c(){ try { return await order({err: 'deep'}); } finally { __log.push('c-fin'); } } async function b(){ try { return await c(); } catch (e) { __log.push('b-caught'); throw new RangeError('rethrown:' + String(e)); } } async function a(){ try { return await b(); } catch (e) { return [e.name, e.message]; } finally { __log.push('a-fin'); } } return await a(); }"),
    ("caller-temp-array-literal", "async function main(){ async function inner(k){ return await order({k: k}); } function junk(){ var g = []; for (var i = 0; i < 40; i++) { g.push({i: i, s: 'x' + i}); } return g.length; } async function outer(){ const r = [ {tag: 'a'}, [1, 2], await inner(1), junk(), {tag: 'b'} ]; return r; } return await outer(); }"),
    ("caller-temp-object-literal", "async function main(){ async function inner(k){ return await order({k: k}); } function junk(){ var g = []; for (var i = 0; i < 40; i++) { g.push({i: i, s: 'x' + i}); } return g.length; } async function outer(){ const r = { first: {x: 1}, list: [3, [4]], got: await inner(2), n: junk(), last: {y: [5]} }; return r; } return await outer(); }"),
    ("caller-temp-call-arguments", "async function main(){ async function inner(k){ return await order({k: k}); } function junk(){ var g = []; for (var i = 0; i < 40; i++) { g.push({i: i, s: 'x' + i}); } return g.length; } function collect(a, b, c, d, e){ return [a, b, c, d, e]; } async function outer(){ return collect({x: 1}, [2], await inner(3), junk(), {y: 3}); } return await outer(); }"),
    ("caller-temp-method-receiver", "async function main(){ async function inner(k){ return await order({k: k}); } function junk(){ var g = []; for (var i = 0; i < 40; i++) { g.push({i: i, s: 'x' + i}); } return g.length; } async function outer(){ return ({ v: [5], m(a, b){ return [this.v, a, b]; } }).m(await inner(1), junk()); } return await outer(); }"),
    ("caller-temp-new-arguments", "async function main(){ async function inner(k){ return await order({k: k}); } function junk(){ var g = []; for (var i = 0; i < 40; i++) { g.push({i: i, s: 'x' + i}); } return g.length; } class K { constructor(a, b, c){ this.a = a; this.b = b; this.c = c; } } async function outer(){ const o = new K({x: [1]}, await inner(4), junk()); return [o.a, o.b, o.c]; } return await outer(); }"),
    ("caller-temp-three-levels", "async function main(){ async function l3(k){ return [ {l: 3}, await order({k: k}), junk() ]; } async function l2(k){ return [ {l: 2}, await l3(k), junk() ]; } async function l1(k){ return [ {l: 1}, await l2(k), junk(), {end: 1} ]; } function junk(){ var g = []; for (var i = 0; i < 40; i++) { g.push({i: i, s: 'x' + i}); } return g.length; } return await l1(6); }"),
    ("caller-temp-sync-frames", "async function main(){ function junk(){ var g = []; for (var i = 0; i < 40; i++) { g.push({i: i, s: 'x' + i}); } return g.length; } function deep(k){ return [ {d: 1}, order({k: k}), junk() ]; } function mid(k){ return { m: [1], v: deep(k), j: junk() }; } const t = mid(3); t.v[1] = await t.v[1]; return t; }"),
    ("caller-temp-template-and-concat", "async function main(){ async function inner(k){ return await order({k: k}); } function junk(){ var g = []; for (var i = 0; i < 40; i++) { g.push({i: i, s: 'x' + i}); } return g.length; } async function outer(){ return [ `${JSON.stringify({a: [1]})}:${await inner(2)}:${junk()}`, String([{b: 1}].length) + (await inner(3)) + junk() ]; } return await outer(); }"),
    ("caller-temp-promise-all", "async function main(){ async function inner(k){ return await order({k: k}); } function junk(){ var g = []; for (var i = 0; i < 40; i++) { g.push({i: i, s: 'x' + i}); } return g.length; } async function outer(){ return await Promise.all([ {plain: [1]}, inner(1), junk(), inner(2), {z: 2} ]); } return await outer(); }"),
    ("caller-temp-spread-and-destructure", "async function main(){ async function inner(k){ return await order({k: k}); } function junk(){ var g = []; for (var i = 0; i < 40; i++) { g.push({i: i, s: 'x' + i}); } return g.length; } async function outer(){ const [a, b, ...rest] = [ ...[{s: 1}], await inner(5), junk(), {t: [2]} ]; return { a: a, b: b, rest: rest }; } return await outer(); }"),
    ("caller-temp-closure-captures", "async function main(){ async function inner(k){ return await order({k: k}); } function junk(){ var g = []; for (var i = 0; i < 40; i++) { g.push({i: i, s: 'x' + i}); } return g.length; } function mk(o){ return function(){ return o; }; } async function outer(){ return [ mk({c: 1}), await inner(1), junk() ].map(function(x){ return typeof x === 'function' ? x() : x; }); } return await outer(); }"),
    ("caller-temp-generator-driver", "async function main(){ async function inner(k){ return await order({k: k}); } function junk(){ var g = []; for (var i = 0; i < 40; i++) { g.push({i: i, s: 'x' + i}); } return g.length; } function* g(){ yield {g: 1}; yield {g: 2}; } async function outer(){ const it = g(); return [ it.next().value, await inner(2), junk(), it.next().value ]; } return await outer(); }"),
    ("plain", "async function main(){ const a = await order({k: 1}); return a; }"),
    ("two-sequential", "async function main(){ const a = await order({k: 1}); const b = await order({k: a}); return [a, b]; }"),
    ("in-expression", "async function main(){ const x = 1 + (await order({k: 2})) * 3 - (await order({k: 1})); return x; }"),
    ("locals-survive", "async function main(){ let a = 1; const b = 'b'; var c = [3]; const r = await order({k: 5}); a += r; c.push(a); return [a, b, c]; }"),
    ("block-scopes-survive", "async function main(){ let x = 'outer'; { let x = 'inner'; { let y = x + '2'; const r = await order({k: 1}); __log.push(x + y + r); } __log.push(x); } return x; }"),
    ("try-await", "async function main(){ try { const r = await order({k: 1}); __log.push('t' + r); return 'from-try'; } finally { __log.push('fin'); } }"),
    ("catch-await", "async function main(){ try { throw new Error('e1'); } catch (e) { const r = await order({k: 2}); __log.push(e.message + r); } return 'after'; }"),
    ("finally-await-pending-return", "async function main(){ function log(x){ __log.push(x); } async function f(){ try { return 'pending-return'; } finally { const r = await order({k: 3}); log('fin' + r); } } return await f(); }"),
    ("finally-await-pending-throw", "async function main(){ async function f(){ try { throw new RangeError('pending-throw'); } finally { await order({k: 3}); __log.push('fin'); } } try { await f(); return 'not-thrown'; } catch (e) { return 'caught:' + (e && e.message); } }"),
    ("finally-await-pending-break", "async function main(){ for (let i = 0; i < 3; i++) { try { if (i === 1) break; __log.push('b' + i); } finally { const r = await order({k: i}); __log.push('f' + i + ':' + r); } } return 'done'; }"),
    ("finally-await-pending-continue", "async function main(){ for (let i = 0; i < 3; i++) { try { if (i === 1) continue; __log.push('b' + i); } finally { await order({k: i}); __log.push('f' + i); } } return 'done'; }"),
    ("error-response-caught", "async function main(){ try { await order({err: 'boom'}); return 'no'; } catch (e) { return 'caught:' + String(e); } }"),
    ("error-response-in-nested-fn", "async function main(){ async function inner(){ return await order({err: 'deep'}); } try { await inner(); return 'no'; } catch (e) { return 'caught:' + String(e); } }"),
    ("error-response-uncaught", "async function main(){ const r = await order({err: 'fatal'}); return r; }"),
    ("error-then-continue", "async function main(){ let r = []; for (const p of [{k: 1}, {err: 'x'}, {k: 3}]) { try { r.push(await order(p)); } catch (e) { r.push('E'); } } return r; }"),
    ("for-loop", "async function main(){ let s = 0; for (let i = 0; i < 4; i++) { s += await order({k: i}); } return s; }"),
    ("while-loop-condition", "async function main(){ let n = 0; while ((await order({k: n})) < 4) { n++; } return n; }"),
    ("do-while", "async function main(){ let n = 0; do { n += await order({k: 1}); } while (n < 5); return n; }"),
    ("for-of-array", "async function main(){ const out = []; for (const x of [1, 2, 3]) { out.push(x + await order({k: x})); } return out; }"),
    ("for-of-generator", "async function main(){ function* g(){ yield 1; yield 2; yield 3; } const out = []; for (const x of g()) { const r = await order({k: x}); out.push(r); if (x === 2) break; } return out; }"),
    ("generator-state-across-await", "async function main(){ function* g(){ let i = 0; while (true) yield i++; } const it = g(); const a = it.next().value; const r = await order({k: 7}); const b = it.next().value; const r2 = await order({k: b}); return [a, r, b, r2, it.next().value]; }"),
    ("break-continue-after-await", "async function main(){ const out = []; outer: for (let i = 0; i < 3; i++) { for (let j = 0; j < 3; j++) { const r = await order({k: i * 3 + j}); if (j === 1) continue outer; if (i === 2) break outer; out.push(r); } } return out; }"),
    ("method-this", "async function main(){ class Svc { constructor(){ this.base = 100; } async get(k){ const v = await order({k: k}); return this.base + v; } } const s = new Svc(); return await s.get(1); }"),
    ("method-this-twice", "async function main(){ const o = { tag: 't', async m(){ const a = await order({k: 1}); const t1 = this.tag; const b = await order({k: 2}); return [t1, this.tag, a, b]; } }; return await o.m(); }"),
    ("super-after-await", "async function main(){ class A { who(){ return 'A'; } } class B extends A { async who2(){ const r = await order({k: 1}); return super.who() + r; } } return await new B().who2(); }"),
    ("static-method", "async function main(){ class K { static base = 5; static async f(){ const r = await order({k: 2}); return K.base + r + this.base; } } return await K.f(); }"),
    ("arrow-this", "async function main(){ const o = { v: 7, run(){ return (async () => { const r = await order({k: 1}); return this.v + r; })(); } }; return await o.run(); }"),
    ("constructor-callee", "async function main(){ async function load(k){ return await order({k: k}); } class C { constructor(){ this.p = load(4); } } const c = new C(); return await c.p; }"),
    ("nested-async-2", "async function main(){ async function a(){ return (await b()) + 1; } async function b(){ return (await order({k: 10})) + 1; } return await a(); }"),
    ("nested-async-4", "async function main(){ async function l1(){ const x = await l2(); return 'l1(' + x + ')'; } async function l2(){ const x = await l3(); return 'l2(' + x + ')'; } async function l3(){ const x = await l4(); return 'l3(' + x + ')'; } async function l4(){ return 'l4(' + (await order({k: 1})) + ')'; } return await l1(); }"),
    ("destructuring-default", "async function main(){ const {a = await order({k: 1}), b = 2} = {}; const [c = await order({k: 3})] = []; return [a, b, c]; }"),
    ("template-literal", "async function main(){ return `a${await order({k: 1})}b${await order({k: 2})}c`; }"),
    ("call-arguments", "async function main(){ function f(a, b, c){ return [a, b, c]; } return f(await order({k: 1}), 'mid', await order({k: 2})); }"),
    ("conditional-operands", "async function main(){ const t = true ? await order({k: 1}) : await order({k: 2}); const f = false ? await order({k: 3}) : await order({k: 4}); return [t, f]; }"),
    ("logical-operands", "async function main(){ const a = 0 || await order({k: 1}); const b = 1 && await order({k: 2}); const c = null ?? await order({k: 3}); const d = 1 || await order({k: 99}); return [a, b, c, d]; }"),
    ("array-object-literals", "async function main(){ return {x: await order({k: 1}), y: [await order({k: 2}), await order({k: 3})]}; }"),
    ("compound-assignment", "async function main(){ let x = 10; x += await order({k: 1}); x *= await order({k: 1}); const o = {n: 1}; o.n += await order({k: 2}); return [x, o.n]; }"),
    ("switch-case", "async function main(){ const out = []; for (const v of [0, 1, 2]) { switch (v) { case 0: out.push('z' + await order({k: 1})); break; case 1: { const r = await order({k: 2}); out.push('o' + r); break; } default: out.push('d'); } } return out; }"),
    ("closure-captures-across-await", "async function main(){ const fs = []; for (let i = 0; i < 3; i++) { const r = await order({k: i}); fs.push(() => i + ':' + r); } return fs.map(f => f()); }"),
    ("return-await-in-try", "async function main(){ async function f(){ try { return await order({k: 6}); } catch (e) { return 'c'; } finally { __log.push('f'); } } return await f(); }"),
    ("throw-after-await", "async function main(){ async function f(){ await order({k: 1}); throw new TypeError('late'); } try { await f(); return 'no'; } catch (e) { return e.name + ':' + e.message; } }"),
    ("await-non-promise-mix", "async function main(){ const a = await 5; const b = await order({k: 1}); const c = await Promise.resolve(7); const d = await order({k: 2}); return [a, b, c, d]; }"),
    ("promise-then-chain", "async function main(){ const r = await order({k: 3}); const p = Promise.resolve(r).then(v => v + 1).then(v => v * 2); return await p; }"),
    ("async-iife-args", "async function main(){ const r = await (async (x, y) => x + y + await order({k: 1}))(await order({k: 2}), 100); return r; }"),
    ("map-of-awaits", "async function main(){ const m = new Map(); for (const key of ['a', 'b']) { m.set(key, await order({k: key.length})); } return [...m.entries()]; }"),
    ("try-in-loop-with-await-in-catch", "async function main(){ const out = []; for (let i = 0; i < 3; i++) { try { if (i % 2) throw new Error('odd'); out.push(await order({k: i})); } catch (e) { out.push('c' + await order({k: 10 + i})); } finally { out.push('f'); } } return out; }"),
    ("object-method-shorthand", "async function main(){ const api = { async get(k){ return await order({k}); }, async both(){ return [await this.get(1), await this.get(2)]; } }; return await api.both(); }"),
    ("getter-callee", "async function main(){ const o = { get lazy(){ return (async () => await order({k: 8}))(); } }; return await o.lazy; }"),
];

/// programs where several host promises are outstanding at once (order() itself blocks, so
/// the host must answer with promises to create concurrency)
pub const CONCURRENT_ATOMS: &[(&str, &str)] = &[
    ("all-2", "async function main(){ const p1 = order({k: 1}); const p2 = order({k: 2}); const r = await Promise.all([p1, p2]); return r; }"),
    ("all-4", "async function main(){ const ps = []; for (let i = 1; i <= 4; i++) { ps.push(order({k: i})); } return await Promise.all(ps); }"),
    ("all-with-error", "async function main(){ const p1 = order({k: 1}); const p2 = order({err: 'bad'}); const p3 = order({k: 3}); try { return await Promise.all([p1, p2, p3]); } catch (e) { return 'caught:' + String(e); } }"),
    ("chains-disjoint", "async function main(){ const out = {}; async function chain(name, p){ const v = await p; out[name] = v; __log.push(name); return v; } const a = chain('a', order({k: 1})); const b = chain('b', order({k: 2})); const c = chain('c', order({k: 3})); await Promise.all([a, b, c]); __log.sort(); return out; }"),
    ("await-in-order", "async function main(){ const p1 = order({k: 1}); const p2 = order({k: 2}); const p3 = order({k: 3}); const c = await p3; const a = await p1; const b = await p2; return [a, b, c]; }"),
    ("allSettled", "async function main(){ const p1 = order({k: 1}); const p2 = order({err: 'x'}); const r = await Promise.allSettled([p1, p2]); return r.map(x => x.status + ':' + (x.value !== undefined ? x.value : String(x.reason))); }"),
    ("race-winner-by-schedule", "async function main(){ const p1 = order({k: 1}); const p2 = order({k: 2}); const w = await Promise.race([p1, p2]); return typeof w; }"),
    ("any", "async function main(){ const p1 = order({err: 'first fails'}); const p2 = order({k: 2}); const w = await Promise.any([p1, p2]); return w; }"),
    ("then-callbacks", "async function main(){ const p = order({k: 5}); let seen = 'none'; const q = Promise.resolve(p).then(v => { seen = 'then:' + v; return v + 1; }); const r = await q; return [seen, r]; }"),
    ("mixed-immediate-and-pending", "async function main(){ const p1 = order({k: 1}); const v = await order({k: 10}); const r1 = await p1; const p2 = order({k: 2}); return [v, r1, await p2]; }"),
    ("indirect-orders-map", "async function main(){ const ps = [{k: 1}, {k: 2}, {k: 3}].map(order); const r = await Promise.all(ps); return r; }"),
    ("indirect-orders-foreach-then-await", "async function main(){ const got = []; [{k: 4}, {k: 5}].forEach(function(p){ got.push(order(p)); }); [{k: 6}].forEach(order); const r = await Promise.all(got); const after = await order({k: 7}); return [r, after]; }"),
    ("indirect-orders-foreach-push", "async function main(){ const got = []; [{k: 4}, {k: 5}].forEach(function(p){ got.push(order(p)); }); const r = await Promise.all(got); return r; }"),
    ("indirect-fire-and-forget", "async function main(){ [{k: 6}].forEach(order); const after = await order({k: 7}); return after; }"),
    ("indirect-fire-and-forget-last", "async function main(){ const first = await order({k: 7}); [{k: 6}].forEach(order); return first; }"),
    ("cancel-explicit", "import { __cancelOrder__ } from \"tsrun:host\";\nasync function main(){ const v = await order({k: 4}); return v; }"),
];

/// The reference program for a host policy: `order` is an in-program function that does
/// what the scripted host does for the n-th order - returns the value / throws the error
/// string directly when the policy answers that order immediately, returns a promise
/// resolved / rejected with it when the policy answers with a promise it settles later.
/// (An error that arrives through a promise surfaces where the promise is awaited, not at
/// the call: for orders that are not awaited directly the two are different programs.)
pub fn reference_program(body: &str, policy: &Policy) -> String {
    let mask: Vec<&str> = policy.deferred.iter().map(|d| if *d { "true" } else { "false" }).collect();
    let header = format!(
        "var __oi = 0; const __dm = [{}];\nfunction order(p) {{ const d = __oi < __dm.length ? __dm[__oi] : {}; __oi++; if (!d) {{ if (p.err !== undefined) {{ throw 'TypeError: ' + p.err; }} return p.k * 2; }} return p.err !== undefined ? Promise.reject('TypeError: ' + p.err) : Promise.resolve(p.k * 2); }}\n",
        mask.join(", "),
        policy.deferred_default
    );
    let rest = match body.split_once("\nasync function main") {
        Some((pre, post)) if pre.starts_with("import") => format!("async function main{}", post),
        _ => body.to_string(),
    };
    format!("{}const __log = [];\n{}{}", header, rest, FOOTER)
}

/// key of the reference a policy needs (policies that differ only in schedule share one)
pub fn reference_key(policy: &Policy) -> String {
    format!("{:?}/{}", policy.deferred, policy.deferred_default)
}

pub fn program(body: &str, real: bool) -> String {
    let (imports, rest) = match body.split_once("\nasync function main") {
        Some((pre, post)) if pre.starts_with("import") => (format!("{}\n", pre), format!("async function main{}", post)),
        _ => (String::new(), body.to_string()),
    };
    format!("{}{}const __log = [];\n{}{}", if real { REAL_HEADER } else { STUB_HEADER }, if real { imports.as_str() } else { "" }, rest, FOOTER)
}
