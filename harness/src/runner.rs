//! Program runner: executes one program on a fresh (or given) interpreter under a run
//! configuration and returns the *outcome tuple* all behavioural monitors compare.
#![allow(dead_code)]

use serde_json::{Value, json};
use std::cell::RefCell;
use std::collections::BTreeMap;
use std::rc::Rc;
use tsrun::platform::{ConsoleLevel, ConsoleProvider, RandomProvider, TimeProvider};
use tsrun::{Interpreter, JsError, JsValue, ModulePath, StepResult};

pub struct CaptureConsole(pub Rc<RefCell<Vec<String>>>);
impl ConsoleProvider for CaptureConsole {
    fn write(&self, level: ConsoleLevel, message: &str) {
        let tag = match level {
            ConsoleLevel::Log => "",
            ConsoleLevel::Info => "info:",
            ConsoleLevel::Debug => "debug:",
            ConsoleLevel::Warn => "warn:",
            ConsoleLevel::Error => "error:",
        };
        self.0.borrow_mut().push(format!("{}{}", tag, message));
    }
}

pub struct FixedTime;
impl TimeProvider for FixedTime {
    fn now_millis(&self) -> i64 {
        1_700_000_000_000
    }
    fn elapsed_millis(&self, _start: u64) -> u64 {
        7
    }
    fn start_timer(&self) -> u64 {
        1
    }
}

pub struct SeqRandom(pub u64);
impl RandomProvider for SeqRandom {
    fn random(&mut self) -> f64 {
        self.0 = self.0.wrapping_mul(6364136223846793005).wrapping_add(1442695040888963407);
        ((self.0 >> 11) as f64) / ((1u64 << 53) as f64)
    }
}

#[derive(Clone, Debug)]
pub enum Entry {
    /// prepare() + step() loop (what the repository's tests use)
    PrepareStep,
    /// eval() run-to-completion, then step() for resumptions
    Eval,
}

#[derive(Clone, Debug)]
pub struct RunConfig {
    /// None = leave the default (100)
    pub gc_threshold: Option<usize>,
    /// host-forced collect() before these step numbers (sorted)
    pub collect_before_steps: Vec<u64>,
    /// collect() before every step
    pub collect_every_step: bool,
    pub max_steps: u64,
    pub module_path: Option<String>,
    /// resolved path -> source, supplied when requested
    pub modules: BTreeMap<String, String>,
    pub entry: Entry,
    /// call read-only host API between steps (C19)
    pub interleave_reads: bool,
}

impl Default for RunConfig {
    fn default() -> Self {
        RunConfig {
            gc_threshold: None,
            collect_before_steps: vec![],
            collect_every_step: false,
            max_steps: 2_000_000,
            module_path: None,
            modules: BTreeMap::new(),
            entry: Entry::PrepareStep,
            interleave_reads: false,
        }
    }
}

#[derive(Clone, Debug, PartialEq)]
pub struct Outcome {
    /// "value" | "error" | "limit" | "suspended" | "need-imports" | "done"
    pub kind: String,
    /// canonical completion value (programs return strings built by the in-program printer)
    pub value: String,
    pub log: Vec<String>,
    /// error class (constructor name) for kind == "error"
    pub error_class: String,
    pub error_msg: String,
    pub steps: u64,
    pub instructions: u64,
    pub stale_events: Vec<String>,
    pub collections: u64,
    pub swept: u64,
}

impl Outcome {
    /// The part of the outcome that properties talk about (value, log, error class).
    pub fn observable(&self) -> String {
        format!(
            "{}|{}|{}|{}",
            self.kind,
            self.value,
            self.error_class,
            self.log.join("\u{1f}")
        )
    }
    pub fn to_json(&self) -> Value {
        json!({
            "kind": self.kind, "value": self.value, "log": self.log, "error_class": self.error_class,
            "error_msg": self.error_msg, "steps": self.steps, "instructions": self.instructions,
            "stale_events": self.stale_events, "collections": self.collections, "swept": self.swept,
        })
    }
}

pub fn show_value(v: &JsValue) -> String {
    match v {
        JsValue::Undefined => "undefined".into(),
        JsValue::Null => "null".into(),
        JsValue::Boolean(b) => format!("{}", b),
        JsValue::Number(n) => format!("num:{}", tsrun::value::number_to_string(*n)),
        JsValue::String(s) => s.as_str().to_string(),
        JsValue::Symbol(_) => "<symbol>".into(),
        JsValue::Object(_) => "<object>".into(),
    }
}

pub fn error_class(e: &JsError) -> (String, String) {
    match e {
        JsError::SyntaxError { message, .. } => ("SyntaxError".into(), message.clone()),
        JsError::TypeError { message, .. } => ("TypeError".into(), message.clone()),
        JsError::ReferenceError { name } => ("ReferenceError".into(), name.clone()),
        JsError::RangeError { message } => ("RangeError".into(), message.clone()),
        JsError::RuntimeError { kind, message, .. } => (kind.clone(), message.clone()),
        JsError::ModuleError { message } => ("ModuleError".into(), message.clone()),
        JsError::Internal(m) => ("InternalError".into(), m.clone()),
        other => ("Other".into(), format!("{}", other)),
    }
}

pub fn new_interp(log: &Rc<RefCell<Vec<String>>>) -> Interpreter {
    let mut interp = Interpreter::new();
    interp.set_console(Box::new(CaptureConsole(log.clone())));
    interp.set_time_provider(Box::new(FixedTime));
    interp.set_random_provider(Box::new(SeqRandom(42)));
    interp
}

/// Run `source` on a fresh interpreter.
pub fn run_fresh(source: &str, cfg: &RunConfig) -> Outcome {
    let log = Rc::new(RefCell::new(Vec::new()));
    let mut interp = new_interp(&log);
    run_on(&mut interp, &log, source, cfg)
}

/// Run `source` on an existing interpreter (its console must be the given capture log).
pub fn run_on(
    interp: &mut Interpreter,
    log: &Rc<RefCell<Vec<String>>>,
    source: &str,
    cfg: &RunConfig,
) -> Outcome {
    use std::sync::atomic::Ordering;
    tsrun::verif::take_gc_events();
    let c0 = tsrun::verif::gc_counters();
    let i0 = tsrun::verif::VM_INSTRUCTIONS.load(Ordering::Relaxed);
    if let Some(t) = cfg.gc_threshold {
        interp.set_gc_threshold(t);
    }
    log.borrow_mut().clear();
    let mut steps: u64 = 0;
    let path = cfg.module_path.as_ref().map(|p| ModulePath::new(p.clone()));
    let first = match cfg.entry {
        Entry::PrepareStep => interp.prepare(source, path),
        Entry::Eval => interp.eval(source, path),
    };
    let mut next_collect = 0usize;
    let mut result = first;
    let (kind, value, eclass, emsg) = loop {
        match result {
            Err(e) => {
                let (c, m) = error_class(&e);
                break ("error".to_string(), String::new(), c, m);
            }
            Ok(StepResult::Complete(v)) => {
                break ("value".to_string(), show_value(v.value()), String::new(), String::new());
            }
            Ok(StepResult::Done) => break ("done".into(), String::new(), String::new(), String::new()),
            Ok(StepResult::Suspended { pending, .. }) => {
                break (
                    "suspended".into(),
                    format!("{} pending", pending.len()),
                    String::new(),
                    String::new(),
                );
            }
            Ok(StepResult::NeedImports(reqs)) => {
                let mut missing = None;
                for r in &reqs {
                    match cfg.modules.get(r.resolved_path.as_str()) {
                        Some(src) => {
                            if let Err(e) = interp.provide_module(r.resolved_path.clone(), src) {
                                let (c, m) = error_class(&e);
                                missing = Some(("error".to_string(), String::new(), c, m));
                                break;
                            }
                        }
                        None => {
                            missing = Some((
                                "need-imports".to_string(),
                                r.resolved_path.as_str().to_string(),
                                String::new(),
                                String::new(),
                            ));
                            break;
                        }
                    }
                }
                if let Some(m) = missing {
                    break m;
                }
            }
            Ok(StepResult::Continue) => {}
        }
        if steps >= cfg.max_steps {
            break ("limit".into(), String::new(), String::new(), String::new());
        }
        if cfg.collect_every_step {
            interp.collect();
        } else if next_collect < cfg.collect_before_steps.len() && cfg.collect_before_steps[next_collect] == steps {
            interp.collect();
            next_collect += 1;
        }
        if cfg.interleave_reads && steps % 3 == 0 {
            let _ = interp.gc_stats();
            let _ = interp.call_depth();
            let _ = tsrun::api::get_export_names(interp);
            let _ = interp.verif_quiescence();
        }
        steps += 1;
        result = interp.step();
    };
    let c1 = tsrun::verif::gc_counters();
    let i1 = tsrun::verif::VM_INSTRUCTIONS.load(Ordering::Relaxed);
    let stale: Vec<String> = tsrun::verif::take_gc_events()
        .into_iter()
        .filter(|e| e.kind != "clone" && e.kind != "drop_reused")
        .map(|e| format!("{}@{}", e.kind, if e.site.is_empty() { "<vm>" } else { e.site.as_str() }))
        .collect();
    Outcome {
        kind,
        value,
        log: log.borrow().clone(),
        error_class: eclass,
        error_msg: emsg,
        steps,
        instructions: i1 - i0,
        stale_events: stale,
        collections: c1.collections - c0.collections,
        swept: c1.swept - c0.swept,
    }
}

/// Incremental driver for interleaving several interpreters in one thread.
pub struct Stepper {
    pub interp: Interpreter,
    pub log: Rc<RefCell<Vec<String>>>,
    pub steps: u64,
    pub done: Option<String>,
    /// sequence of terminal/non-Continue step results seen so far
    pub trace: Vec<String>,
    max_steps: u64,
    /// module sources supplied on request (programs with a `//!modules` header)
    modules: BTreeMap<String, String>,
    is_module: bool,
}

/// A program text may start with `//!modules <json>` where json is
/// {"main": "/app/main.ts", "mods": {"/app/a.ts": "source", ...}}: it is then run as the
/// module `main` and the listed modules are supplied when requested.
pub fn split_module_header(source: &str) -> (Option<String>, BTreeMap<String, String>, &str) {
    if let Some(rest) = source.strip_prefix("//!modules ")
        && let Some((head, body)) = rest.split_once('\n')
        && let Ok(v) = serde_json::from_str::<Value>(head)
    {
        let main = v["main"].as_str().map(|s| s.to_string());
        let mut mods = BTreeMap::new();
        if let Some(m) = v["mods"].as_object() {
            for (k, src) in m {
                mods.insert(k.clone(), src.as_str().unwrap_or("").to_string());
            }
        }
        return (main, mods, body);
    }
    (None, BTreeMap::new(), source)
}

impl Stepper {
    pub fn start(source: &str, gc_threshold: Option<usize>, max_steps: u64) -> Stepper {
        let log = Rc::new(RefCell::new(Vec::new()));
        let mut interp = new_interp(&log);
        if let Some(t) = gc_threshold {
            interp.set_gc_threshold(t);
        }
        let (main, modules, body) = split_module_header(source);
        let is_module = main.is_some();
        let first = interp.prepare(body, main.map(ModulePath::new));
        let mut s = Stepper { interp, log, steps: 0, done: None, trace: vec![], max_steps, modules, is_module };
        s.absorb(first);
        s
    }

    fn absorb(&mut self, r: Result<StepResult, JsError>) {
        match r {
            Ok(StepResult::Continue) => {}
            Ok(StepResult::Complete(v)) => {
                self.done = Some(format!("value|{}", show_value(v.value())));
            }
            Ok(StepResult::Done) => self.done = Some("done".into()),
            Ok(StepResult::Suspended { pending, cancelled }) => {
                self.done = Some(format!("suspended|{}|{}", pending.len(), cancelled.len()));
            }
            Ok(StepResult::NeedImports(reqs)) => {
                self.trace.push(format!("need:{}", reqs.iter().map(|r| r.resolved_path.as_str().to_string()).collect::<Vec<_>>().join(",")));
                for r in &reqs {
                    match self.modules.get(r.resolved_path.as_str()) {
                        Some(src) => {
                            if let Err(e) = self.interp.provide_module(r.resolved_path.clone(), src) {
                                let (c, _) = error_class(&e);
                                self.done = Some(format!("error|{}", c));
                                return;
                            }
                        }
                        None => {
                            self.done = Some(format!("need-imports|{}", reqs.len()));
                            return;
                        }
                    }
                }
            }
            Err(e) => {
                let (c, _) = error_class(&e);
                self.done = Some(format!("error|{}", c));
            }
        }
    }

    /// Execute one step; returns true while the program is still running.
    pub fn step(&mut self) -> bool {
        if self.done.is_some() {
            return false;
        }
        if self.steps >= self.max_steps {
            self.done = Some("limit".into());
            return false;
        }
        self.steps += 1;
        let r = self.interp.step();
        self.absorb(r);
        self.done.is_none()
    }

    /// Full trace string: terminal result, step count, console log.
    pub fn trace_string(&self) -> String {
        let exports = if self.is_module { format!("#exports={}#requests={}", tsrun::api::get_export_names(&self.interp).join(","), self.trace.join(";")) } else { String::new() };
        format!("{}#steps={}#log={}{}", self.done.clone().unwrap_or_default(), self.steps, self.log.borrow().join("\u{1f}"), exports)
    }
}
