//! Stratum B of the program corpus: seeded composed programs (gen.rs), a deterministic
//! function of (shard, index). C01 compares them with reference-engine goldens; the
//! invariance checks (C02, C03, C11, C12, C14, C19) reuse the same programs.
#![allow(dead_code)]

use crate::checks::c01;
use crate::compose;
use crate::isolate::{self, Exit, Limits};
use crate::runner::{self, RunConfig};
use crate::util::*;
use serde_json::json;

pub const B_SHARDS: u64 = 32;
pub const B_PER_SHARD: u64 = 480;
const SUB: u64 = 120; // programs per unit

pub struct BProg {
    pub id: String,
    pub marked: String,
    pub src: String,
    pub features: Vec<&'static str>,
}

pub fn b_program(shard: u64, index: u64) -> BProg {
    let p = compose::generate("corpus-b", shard, index);
    let src = compose::wrap(&compose::render_js(&p.marked));
    BProg { id: format!("B/{}/{}", shard, index), marked: p.marked, src, features: p.features }
}

fn shards_for(ctx: &Ctx) -> Vec<u64> {
    if ctx.thorough() {
        (0..B_SHARDS).collect()
    } else {
        // four shards chosen by the seed; all shards were vetted, so every seed is silent
        (0..4).map(|k| (ctx.seed * 4 + k) % B_SHARDS).collect()
    }
}

pub fn b_units(ctx: &Ctx) -> usize {
    shards_for(ctx).len() * (B_PER_SHARD / SUB) as usize
}

pub fn unit_programs(ctx: &Ctx, idx: usize) -> Vec<BProg> {
    let shards = shards_for(ctx);
    let per = (B_PER_SHARD / SUB) as usize;
    let shard = shards[idx / per];
    let lo = (idx % per) as u64 * SUB;
    (lo..lo + SUB).map(|i| b_program(shard, i)).collect()
}

/// Run a list of whole programs in one forked child (collector off), returning the
/// observable outcome string per program; programs the child did not deliver are re-run
/// one by one in their own child.
pub fn run_isolated(progs: &[(String, String)], cfg: &RunConfig) -> Vec<String> {
    let lim = Limits { wall: std::time::Duration::from_secs(240), address_space: 3 << 30, stack: 0 };
    let exit = isolate::run(&lim, || {
        for (i, (_, src)) in progs.iter().enumerate() {
            let o = runner::run_fresh(src, cfg);
            isolate::emit(&format!("{}\u{2}{}\u{3}", i, outcome_string(&o)));
        }
        String::new()
    });
    let text = match exit {
        Exit::Ok(t) | Exit::Signal(_, t) | Exit::Status(_, t) | Exit::Timeout(t) => t,
    };
    let mut outs: Vec<Option<String>> = vec![None; progs.len()];
    for rec in text.split('\u{3}') {
        if let Some((i, body)) = rec.split_once('\u{2}')
            && let Ok(i) = i.parse::<usize>()
            && i < outs.len()
        {
            outs[i] = Some(body.to_string());
        }
    }
    outs.into_iter()
        .enumerate()
        .map(|(i, o)| match o {
            Some(s) => s,
            None => {
                let src = progs[i].1.clone();
                let cfg = cfg.clone();
                let lim = Limits { wall: std::time::Duration::from_secs(30), address_space: 3 << 30, stack: 0 };
                match isolate::run(&lim, move || outcome_string(&runner::run_fresh(&src, &cfg))) {
                    Exit::Ok(t) => t,
                    Exit::Signal(s, _) => format!("!crash {}", isolate::signal_name(s)),
                    Exit::Status(c, t) => {
                        if let Some(k) = t.find("\u{1}PANIC") {
                            format!("!panic {}", truncate(&t[k + 7..], 80))
                        } else {
                            format!("!exit {}", c)
                        }
                    }
                    Exit::Timeout(_) => "!timeout".into(),
                }
            }
        })
        .collect()
}

/// What the reference engine driver would print for the same program.
pub fn outcome_string(o: &runner::Outcome) -> String {
    match o.kind.as_str() {
        "value" => o.value.clone(),
        "error" => format!("!{}", o.error_class),
        k => format!("!{}", k),
    }
}

pub fn run_b_unit(r: &mut UnitResult, ctx: &Ctx, idx: usize) {
    let progs = unit_programs(ctx, idx);
    let goldens = c01::load_goldens("C01B.tsv");
    let cfg = RunConfig { max_steps: 3_000_000, gc_threshold: Some(0), ..Default::default() };
    let pairs: Vec<(String, String)> = progs.iter().map(|p| (p.id.clone(), p.src.clone())).collect();
    let outs = run_isolated(&pairs, &cfg);
    for (p, got) in progs.iter().zip(outs.iter()) {
        judge_b(r, p, got, &goldens);
    }
    if let Some(p) = progs.first() {
        r.sample(json!({"program": p.id, "features": p.features, "source_js": truncate(&compose::render_js(&p.marked), 700)}));
    }
}

fn judge_b(r: &mut UnitResult, p: &BProg, got: &str, goldens: &std::collections::HashMap<String, (String, String)>) {
    r.evaluations += 1;
    let Some((h, want)) = goldens.get(&p.id) else {
        r.inconclusive += 1;
        r.note(format!("no golden for {}", p.id));
        return;
    };
    if *h != hash_hex(&p.src) {
        r.inconclusive += 1;
        r.note(format!("stale golden for {}", p.id));
        return;
    }
    // the reference driver prints "!<ErrorName>: message" for an uncaught error
    let want_norm = if let Some(rest) = want.strip_prefix('!') {
        format!("!{}", rest.split(':').next().unwrap_or(""))
    } else {
        want.clone()
    };
    if want_norm.starts_with("!Error") && want.contains("Script execution timed out") {
        r.inconclusive += 1;
        return;
    }
    r.nontrivial += 1;
    if got == "!timeout" {
        r.inconclusive += 1;
        return;
    }
    for f in &p.features {
        r.stat(&format!("feature_{}", f), 1);
    }
    if *got != want_norm {
        r.violate(
            format!("prog|{}|={}", p.id, hash_hex(got)),
            format!("{} => tsrun {:?}, reference {:?}", p.id, truncate(got, 300), truncate(&want_norm, 300)),
            json!({"id": p.id}),
        );
    }
}

pub fn replay_b(r: &mut UnitResult, id: &str) {
    let parts: Vec<&str> = id.split('/').collect();
    let (Some(s), Some(i)) = (parts.get(1).and_then(|x| x.parse().ok()), parts.get(2).and_then(|x| x.parse().ok())) else {
        return;
    };
    let p = b_program(s, i);
    let goldens = c01::load_goldens("C01B.tsv");
    let cfg = RunConfig { max_steps: 3_000_000, gc_threshold: Some(0), ..Default::default() };
    let outs = run_isolated(&[(p.id.clone(), p.src.clone())], &cfg);
    judge_b(r, &p, &outs[0], &goldens);
    eprintln!("--- {} ---\n{}", p.id, compose::render_js(&p.marked));
}

pub fn dump_b(_ctx: &Ctx) {
    for shard in 0..B_SHARDS {
        for i in 0..B_PER_SHARD {
            let p = b_program(shard, i);
            println!("{}", json!({"id": p.id, "src": p.src, "hash": hash_hex(&p.src), "golden": "C01B.tsv"}));
        }
    }
}
