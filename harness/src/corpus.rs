//! Stratum B of the program corpus (composed programs). Filled in by gen.rs.
#![allow(dead_code)]
use crate::util::*;

pub fn b_units(_ctx: &Ctx) -> usize {
    0
}
pub fn run_b_unit(_r: &mut UnitResult, _ctx: &Ctx, _idx: usize) {}
pub fn replay_b(_r: &mut UnitResult, _id: &str) {}
pub fn dump_b(_ctx: &Ctx) {}
