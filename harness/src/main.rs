//! tsverif — runtime-monitoring harness for tsrun.
//!
//! One binary, one sub-command per property check. The orchestrator (`/verif/check`)
//! builds this crate against the current /repo working tree and runs workers:
//!
//!   tsverif <ID> units  --tier T --seed S
//!   tsverif <ID> run    --tier T --seed S --offset K --stride N [--start I]
//!   tsverif <ID> replay <case.json> --tier T --seed S
//!
//! `run` prints `B <unit>` before and `R <json>` after every unit so that a worker
//! that dies (stack overflow, abort) names the unit that killed it.

mod asynchost;
mod atoms;
mod checks;
mod corpus;
#[cfg(feature = "native")]
mod engine;
#[cfg(feature = "capi")]
mod ffi;
mod holders;
mod transit;
mod compose;
#[cfg(feature = "native")]
mod isolate;
mod modgraphs;
#[cfg(not(feature = "native"))]
#[path = "isolate_inproc.rs"]
mod isolate;
mod runner;
mod util;

use std::io::Write;
use util::{Ctx, Tier};

fn arg_val(args: &[String], name: &str) -> Option<String> {
    args.iter()
        .position(|a| a == name)
        .and_then(|i| args.get(i + 1).cloned())
}

fn main() {
    let args: Vec<String> = std::env::args().collect();
    if args.len() < 3 {
        eprintln!("usage: tsverif <ID> units|run|replay ...");
        std::process::exit(2);
    }
    let id = args[1].clone();
    let cmd = args[2].clone();
    if id == "show-b" {
        // tsverif show-b <shard> <index> : print a composed program
        let sh: u64 = cmd.parse().unwrap_or(0);
        let ix: u64 = args.get(3).and_then(|x| x.parse().ok()).unwrap_or(0);
        let p = corpus::b_program(sh, ix);
        println!("{}", compose::render_js(&p.marked));
        return;
    }
    #[cfg(feature = "native")]
    if id == "show-transit" {
        // tsverif show-transit <dir>: write every transit program to <dir>/<id>.js (developer aid)
        let _ = std::fs::create_dir_all(&cmd);
        for it in transit::items() {
            let prog = checks::c01::batch_program(std::slice::from_ref(&it));
            let _ = std::fs::write(format!("{}/{}.js", cmd, it.id), prog);
        }
        return;
    }
    #[cfg(feature = "native")]
    if id == "show-c10" {
        // tsverif show-c10 <family> <context> <n>
        let c = args.get(3).cloned().unwrap_or_else(|| "top".into());
        let n: usize = args.get(4).and_then(|x| x.parse().ok()).unwrap_or(3);
        checks::c10::show(&cmd, &c, n);
        return;
    }
    if id == "errprobe" {
        // tsverif errprobe <file.js> [--path P] : print the error report of a failing run
        let src = std::fs::read_to_string(&cmd).expect("read");
        let path = arg_val(&args, "--path");
        println!("{}", checks::c20::report_json(&src, path.as_deref(), &Default::default()));
        return;
    }
    #[cfg(feature = "native")]
    if id == "host-probe" {
        // tsverif host-probe <file> [--path P] [--eval]: the conversation with the scripted host of C19
        let src = std::fs::read_to_string(&cmd).expect("read");
        let mode = if args.iter().any(|a| a == "--eval") { engine::Mode::Eval } else { engine::Mode::PrepareStep };
        let mut e = engine::make(mode, &[]);
        println!("{}", engine::drive(e.as_mut(), &src, arg_val(&args, "--path").as_deref(), &Default::default(), &[]));
        return;
    }
    if id == "seq-probe" {
        // tsverif seq-probe <a.js> <b.js> ... : run the programs one after the other on ONE interpreter
        let log = std::rc::Rc::new(std::cell::RefCell::new(Vec::new()));
        let mut interp = runner::new_interp(&log);
        let cfg = runner::RunConfig::default();
        for f in args.iter().skip(2) {
            let src = std::fs::read_to_string(f).expect("read");
            let o = runner::run_on(&mut interp, &log, &src, &cfg);
            println!("{}: {} {} {} {}", f, o.kind, o.value, o.error_class, o.error_msg);
        }
        return;
    }
    if id == "leak-probe" {
        // tsverif leak-probe <file.js> : live objects after collect over 8 runs on one interpreter
        let src = std::fs::read_to_string(&cmd).expect("read");
        let log = std::rc::Rc::new(std::cell::RefCell::new(Vec::new()));
        let mut interp = runner::new_interp(&log);
        let cfg = runner::RunConfig::default();
        let mut v = Vec::new();
        for _ in 0..8 {
            let o = runner::run_on(&mut interp, &log, &src, &cfg);
            interp.collect();
            v.push(format!("{}:{}", o.kind, interp.gc_stats().live_objects));
        }
        println!("{} {:?}", v.join(" "), interp.verif_quiescence());
        return;
    }
    if id == "probe" {
        // tsverif probe <file.js> [--gc N] [--path P] [--eval] : print the outcome tuple
        let src = std::fs::read_to_string(&cmd).expect("read");
        let mut cfg = runner::RunConfig::default();
        cfg.gc_threshold = arg_val(&args, "--gc").and_then(|s| s.parse().ok());
        cfg.module_path = arg_val(&args, "--path");
        if args.iter().any(|a| a == "--eval") {
            cfg.entry = runner::Entry::Eval;
        }
        if args.iter().any(|a| a == "--prelude") {
            let full = format!("{}\n{}", checks::PRELUDE, src);
            println!("{}", runner::run_fresh(&full, &cfg).to_json());
        } else {
            println!("{}", runner::run_fresh(&src, &cfg).to_json());
        }
        return;
    }
    let tier = match arg_val(&args, "--tier").as_deref() {
        Some("thorough") => Tier::Thorough,
        _ => Tier::Quick,
    };
    let seed: u64 = arg_val(&args, "--seed")
        .and_then(|s| s.parse().ok())
        .unwrap_or(0);
    let engine = arg_val(&args, "--engine").unwrap_or_else(|| "native".to_string());
    let ctx = Ctx { tier, seed, engine };
    let Some(check) = checks::lookup(&id) else {
        eprintln!("unknown check {}", id);
        std::process::exit(2);
    };
    let out = std::io::stdout();
    if id == "C03" && cmd == "certify" {
        checks::c03::print_certified();
        return;
    }
    if id == "C12" && cmd == "child" {
        let unit: usize = arg_val(&args, "--unit").and_then(|s| s.parse().ok()).unwrap_or(0);
        checks::c12::child_traces(&ctx, unit);
        return;
    }
    match cmd.as_str() {
        "units" => {
            println!("{}", check.units(&ctx));
        }
        "run" => {
            let offset: usize = arg_val(&args, "--offset")
                .and_then(|s| s.parse().ok())
                .unwrap_or(0);
            let stride: usize = arg_val(&args, "--stride")
                .and_then(|s| s.parse().ok())
                .unwrap_or(1);
            let start: usize = arg_val(&args, "--start")
                .and_then(|s| s.parse().ok())
                .unwrap_or(0);
            let n = check.units(&ctx);
            let mut i = offset;
            while i < n {
                if i >= start {
                    {
                        let mut o = out.lock();
                        let _ = writeln!(o, "B {}", i);
                        let _ = o.flush();
                    }
                    let r = check.run_unit(&ctx, i);
                    let mut o = out.lock();
                    let _ = writeln!(o, "R {}", r.to_json(i));
                    let _ = o.flush();
                }
                i += stride;
            }
        }
        "dump" => check.dump(&ctx, false),
        "dump-singles" => check.dump(&ctx, true),
        "replay" => {
            let path = args.get(3).cloned().unwrap_or_default();
            let text = std::fs::read_to_string(&path).unwrap_or_else(|e| {
                eprintln!("cannot read {}: {}", path, e);
                std::process::exit(2);
            });
            let v: serde_json::Value = serde_json::from_str(&text).unwrap_or_else(|e| {
                eprintln!("bad replay file: {}", e);
                std::process::exit(2);
            });
            let case = v.get("case").cloned().unwrap_or(v);
            let r = check.replay(&ctx, &case);
            println!("R {}", r.to_json(0));
        }
        _ => {
            eprintln!("unknown command {}", cmd);
            std::process::exit(2);
        }
    }
}
