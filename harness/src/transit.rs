//! "Transit" programs: fresh objects that are, for a while, referenced ONLY from inside a
//! built-in that is in the middle of its work — copied into its private list, taken out of
//! an iterator, popped off a promise's handler list — while script code that the built-in
//! itself calls (callbacks, iterator `next`, getters, `toString` / `valueOf` / `toJSON`
//! hooks) allocates and, where it can, removes the objects from every script-visible place.
//! Complements the holder programs (values at rest in a container): aimed at values held by
//! Rust locals across re-entrant script calls.
#![allow(dead_code)]

use crate::checks::c01::Item;

const HELPERS: &str = "function mk(i){ return {i: i, s: 'v' + i, a: [i, {d: i}]}; } function churn(){ var j = []; for (var q = 0; q < 25; q++) { j.push({q: q, w: [q, {z: q}]}); } return j.length; }";

/// consumers of an iterable `IT` (an expression creating a fresh iterable); result expression
const ITER_CONSUMERS: &[(&str, &str)] = &[
    ("spread-array", "[...IT]"),
    ("spread-array-mixed", "[mk(90), ...IT, mk(91), ...IT]"),
    ("spread-call", "(function(){ return Array.prototype.slice.call(arguments); })(...IT)"),
    ("spread-call-mixed", "(function(a, b, c){ return [c, b, a, arguments.length]; })(mk(80), ...IT)"),
    ("spread-new", "new (function F(){ this.args = Array.prototype.slice.call(arguments); })(...IT)"),
    ("spread-method", "({m: function(){ return [this.tag, Array.prototype.slice.call(arguments)]; }, tag: 't'}).m(...IT)"),
    ("spread-push", "(function(){ var out = [mk(70)]; out.push(...IT); return out; })()"),
    ("spread-concat", "[].concat(...IT)"),
    ("spread-array-of", "Array.of(...IT)"),
    ("spread-max", "(function(){ var seen = []; Math.max(...[...IT].map(function(o){ return {valueOf: function(){ churn(); seen.push(o); return o.i; }}; })); return seen; })()"),
    ("array-from", "Array.from(IT)"),
    ("array-from-map", "Array.from(IT, function(x, k){ churn(); return [k, x]; })"),
    ("destructure", "(function(){ var [a, b, ...r] = IT; churn(); return [a, b, r]; })()"),
    ("destructure-defaults", "(function(){ var [a = mk(60), , c = mk(61), ...r] = IT; return [a, c, r]; })()"),
    ("destructure-params", "(function([a, b, ...r]){ churn(); return [r, b, a]; })(IT)"),
    ("for-of", "(function(){ var out = []; for (var x of IT) { churn(); out.push(x); } return out; })()"),
    ("for-of-break", "(function(){ var out = []; for (var x of IT) { out.push(x); if (out.length === 3) break; } churn(); return out; })()"),
    ("new-set", "[...new Set(IT)]"),
    ("new-map", "[...new Map([...IT].map(function(x, k){ return [x, mk(k + 40)]; }))]"),
    ("new-map-iter", "(function(){ function* pairs(){ for (var x of IT) { churn(); yield [x, mk(x.i + 30)]; } } return [...new Map(pairs())]; })()"),
    ("from-entries", "(function(){ function* pairs(){ for (var x of IT) { churn(); yield ['k' + x.i, x]; } } return Object.fromEntries(pairs()); })()"),
    ("yield-star", "[...(function*(){ yield mk(50); yield* IT; yield mk(51); })()]"),
    ("apply", "(function(){ return Array.prototype.slice.call(arguments); }).apply(null, [...IT])"),
    ("reflect-apply", "Reflect.apply(function(){ return Array.prototype.slice.call(arguments); }, null, Array.from(IT))"),
    ("object-assign-spread", "Object.assign({}, ...[...IT].map(function(x){ return {['k' + x.i]: x}; }))"),
    ("string-raw-like", "(function(strs){ return [strs.length, Array.prototype.slice.call(arguments, 1)]; })`a${mk(1)}b${[...IT]}c`"),
];

/// iterable sources yielding fresh objects, with allocation between the items
const ITER_SOURCES: &[(&str, &str)] = &[
    ("generator", "(function*(){ for (var i = 0; i < 6; i++) { churn(); yield mk(i); } })()"),
    ("generator-locals", "(function*(){ var keep = mk(9); for (var i = 0; i < 5; i++) { var t = mk(i); churn(); yield t; } yield keep; })()"),
    ("custom-iterable", "({ [Symbol.iterator]: function(){ var i = 0; return { next: function(){ churn(); var t = i++; return t < 6 ? {value: mk(t), done: false} : {value: undefined, done: true}; } }; } })"),
    ("custom-iterator-with-return", "({ [Symbol.iterator]: function(){ var i = 0; return { next: function(){ churn(); var t = i++; return {value: mk(t), done: t >= 5}; }, return: function(){ churn(); return {done: true}; } }; } })"),
    ("map-values", "new Map([0, 1, 2, 3, 4].map(function(i){ return [i, mk(i)]; })).values()"),
    ("set-of-fresh", "new Set([0, 1, 2, 3, 4].map(mk))"),
    ("array-entries", "[0, 1, 2, 3].map(mk).entries()"),
];

/// array methods with a callback: `a` holds the only references; the callback detaches at
/// its K-th invocation (template uses CB for the callback body prefix)
const ARRAY_CALLBACK_METHODS: &[(&str, &str)] = &[
    ("map", "a.map(function(x, k){ CB return x; })"),
    ("map-wrap", "a.map(function(x, k){ CB return [x, mk(k + 20)]; })"),
    ("forEach", "(function(){ var out = []; a.forEach(function(x, k){ CB out.push(x); }); return out; })()"),
    ("filter", "a.filter(function(x, k){ CB return x.i % 2 === 0; })"),
    ("reduce", "a.reduce(function(acc, x, k){ CB acc.push(x); return acc; }, [])"),
    ("reduce-noinit", "a.reduce(function(acc, x, k){ CB return {prev: acc, cur: x}; })"),
    ("reduceRight", "a.reduceRight(function(acc, x, k){ CB acc.push(x); return acc; }, [])"),
    ("find", "a.find(function(x, k){ CB return x.i === 5; })"),
    ("findLast", "a.findLast(function(x, k){ CB return x.i === 1; })"),
    ("findIndex", "a.findIndex(function(x, k){ CB return x.i === 5; })"),
    ("some", "(function(){ var seen = []; a.some(function(x, k){ CB seen.push(x); return false; }); return seen; })()"),
    ("every", "(function(){ var seen = []; a.every(function(x, k){ CB seen.push(x); return true; }); return seen; })()"),
    ("flatMap", "a.flatMap(function(x, k){ CB return [x, [x]]; })"),
    ("sort", "a.sort(function(x, y){ var k = ++calls; CB return y.i - x.i; })"),
    ("sort-default", "(function(){ a.forEach(function(x, k){ x.toString = function(){ var k2 = ++calls; var k = k2; CB return 's' + (9 - x.i); }; }); return a.sort(); })()"),
    ("toSorted", "a.toSorted(function(x, y){ var k = ++calls; CB return y.i - x.i; })"),
    ("array-from-arraylike", "Array.from(a, function(x, k){ CB return x; })"),
    ("join", "(function(){ a.forEach(function(x, k){ x.toString = function(){ CB return 'e' + x.i; }; }); return a.join(); })()"),
    ("json", "(function(){ a.forEach(function(x, k){ x.toJSON = function(){ CB return {j: x.i, a: x.a}; }; }); return JSON.parse(JSON.stringify(a)); })()"),
    ("json-replacer", "JSON.parse(JSON.stringify(a, function(key, v){ var k = ++calls; CB return v; }))"),
    ("concat-spreadable", "(function(){ var b = a.map(function(x, k){ var o = [x]; Object.defineProperty(o, Symbol.isConcatSpreadable, {get: function(){ CB return true; }}); return o; }); a.length = 0; return [].concat.apply([], b); })()"),
    ("splice-insert", "(function(){ var removed = a.splice(1, 4, mk(31), mk(32)); churn(); return [removed, a]; })()"),
    ("splice-all", "(function(){ var removed = a.splice(0); churn(); var again = removed.splice(2, 3); churn(); return [removed, again, a]; })()"),
    ("shift-pop", "(function(){ var out = []; while (a.length) { out.push(a.shift()); churn(); if (a.length) { out.push(a.pop()); } } return out; })()"),
    ("slice-then-clear", "(function(){ var s = a.slice(2, 6); a.length = 0; churn(); return s; })()"),
    ("flat", "(function(){ var n = a.map(function(x){ return [x, [x.a]]; }); a.length = 0; var f = n.flat(2); n.length = 0; churn(); return f; })()"),
    ("copyWithin-fill", "(function(){ a.copyWithin(0, 4); churn(); a.fill(mk(77), 6); churn(); return a; })()"),
    ("with-toReversed", "(function(){ var r = a.toReversed(); a.length = 0; churn(); return r; })()"),
    ("entries-spread", "(function(){ var e = a.entries(); a.length = 3; churn(); return [...e]; })()"),
];

/// how the callback detaches the elements from the array at its K-th invocation
const DETACH: &[(&str, &str)] = &[
    ("truncate", "if (k === K) { a.length = 0; churn(); }"),
    ("truncate-late", "if (k === K) { a.length = 1; } churn();"),
    ("splice", "if (k === K) { a.splice(0, a.length); churn(); }"),
    ("overwrite", "if (k === K) { for (var w = 0; w < a.length; w++) { a[w] = w; } churn(); }"),
    ("none", "churn();"),
];

/// Map / Set / object walkers whose callback or hook detaches entries
const OTHER_WALKS: &[(&str, &str)] = &[
    ("flatmap-scratch-buffer", "(function(){ var buf = []; return [0, 1, 2, 3, 4].flatMap(function(i){ buf.length = 0; buf.push({i: i, s: 'v' + i}, {j: i, a: [i]}); churn(); return buf; }); })()"),
    ("flatmap-scratch-pop", "(function(){ var buf = []; return [0, 1, 2, 3, 4].flatMap(function(i){ while (buf.length) { buf.pop(); } churn(); buf.push({i: i, s: 'v' + i}); buf.push([{j: i}]); return buf; }); })()"),
    ("flatmap-nested-scratch", "(function(){ var inner = []; return [0, 1, 2, 3].flatMap(function(i){ inner.length = 0; inner.push({i: i}); churn(); return [inner.slice(), inner]; }); })()"),
    ("map-from-reused-pair", "(function(){ function* pairs(){ var pair = []; for (var i = 0; i < 5; i++) { pair[0] = {k: i}; pair[1] = {v: i, a: [i]}; churn(); yield pair; } } return [...new Map(pairs())]; })()"),
    ("fromentries-reused-pair", "(function(){ function* pairs(){ var pair = []; for (var i = 0; i < 5; i++) { pair[0] = 'k' + i; pair[1] = {v: i, a: [i]}; churn(); yield pair; } } return Object.fromEntries(pairs()); })()"),
    ("set-from-cleared-source", "(function(){ var src = []; function* vals(){ for (var i = 0; i < 5; i++) { src.length = 0; src.push({i: i, a: [i]}); churn(); yield src[0]; } src.length = 0; churn(); } return [...new Set(vals())]; })()"),
    ("concat-scratch-buffer", "(function(){ var buf = []; var out = []; for (var i = 0; i < 5; i++) { buf.length = 0; buf.push({i: i}, [{j: i}]); out = out.concat(buf); churn(); } buf.length = 0; churn(); return out; })()"),
    ("push-spread-scratch", "(function(){ var buf = []; var out = []; for (var i = 0; i < 5; i++) { buf.length = 0; buf.push({i: i}, [{j: i}]); out.push(...buf); churn(); } buf.length = 0; churn(); return out; })()"),
    ("reduce-accumulator-swap", "(function(){ return [0, 1, 2, 3, 4].reduce(function(acc, i){ churn(); return {prev: acc.cur, cur: {i: i, a: [i]}}; }, {cur: null}); })()"),
    ("promise-all-scratch", "(function(){ var seen = []; var buf = []; for (var i = 0; i < 3; i++) { buf.length = 0; buf.push(Promise.resolve({i: i})); Promise.all(buf).then(function(r){ seen.push(r); }); churn(); } return seen.length; })()"),
    ("apply-arraylike-getters", "(function(){ function lit(i){ return null; } var al = {length: 4}; [0, 1, 2, 3].forEach(function(i){ Object.defineProperty(al, i, {get: function(){ churn(); return {i: i, a: [i]}; }}); }); function f(){ churn(); return Array.prototype.slice.call(arguments); } return [f.apply(null, al), Reflect.apply(f, null, al), Reflect.construct(function(){ this.args = Array.prototype.slice.call(arguments); }, al)]; })()"),
    ("array-methods-on-arraylike-getters", "(function(){ var al = {length: 4}; [0, 1, 2, 3].forEach(function(i){ Object.defineProperty(al, i, {get: function(){ churn(); return {i: i, a: [i]}; }}); }); return [Array.from(al), Array.prototype.slice.call(al, 1), Array.prototype.map.call(al, function(x){ churn(); return [x]; }), Array.prototype.concat.call([], Array.from(al)), Array.prototype.filter.call(al, function(x){ return x.i % 2; })]; })()"),
    ("define-properties-getters", "(function(){ var descs = {}; [0, 1, 2].forEach(function(i){ Object.defineProperty(descs, 'p' + i, {enumerable: true, get: function(){ churn(); return {value: {i: i, a: [i]}, enumerable: true}; }}); }); var o = Object.defineProperties({}, descs); var c = Object.create({base: 1}, descs); churn(); return [o, c, Object.getOwnPropertyDescriptors(o)]; })()"),
    ("error-in-flight-through-native", "(function(){ var out = []; try { [1, 2, 3].map(function(x){ if (x === 2) { throw {code: x, data: [{deep: x}]}; } return x; }); } catch (e) { churn(); out.push(e); } try { try { throw {code: 7, a: [7]}; } finally { churn(); } } catch (e) { churn(); out.push(e); } try { JSON.stringify({toJSON: function(){ throw {code: 8, a: [{z: 8}]}; }}); } catch (e) { churn(); out.push(e); } try { [3, 1, 2].sort(function(){ throw {code: 9, b: [9]}; }); } catch (e) { churn(); out.push(e); } try { new Map([[1, 1]]).forEach(function(){ throw {code: 10, c: [10]}; }); } catch (e) { churn(); out.push(e); } return out; })()"),
    ("error-objects-in-flight", "(function(){ var out = []; function thrower(i){ var e = new Error('m' + i); e.data = {i: i, a: [i]}; throw e; } for (var i = 0; i < 3; i++) { try { try { thrower(i); } finally { churn(); } } catch (e) { churn(); out.push([e.message, e.data, e instanceof Error]); } } try { null.x; } catch (e) { churn(); out.push(e.name); } return out; })()"),
    ("regexp-callback-groups", "(function(){ var seen = []; 'a1-b2-c3'.replace(/(?<l>[a-c])(?<d>\\d)/g, function(){ var args = Array.prototype.slice.call(arguments); churn(); seen.push(args[args.length - 1], args.slice(0, 3)); return 'x'; }); var m = /(?<y>\\d{4})-(?<m>\\d\\d)/.exec('on 2024-05-06'); churn(); return [seen, m && m.groups, m && m.index, 'k=v;k2=v2'.split(';').map(function(p){ churn(); return p.split('='); })]; })()"),
    ("groupby-detach", "(function(){ var a = build(6); var r1 = (typeof Object.groupBy === 'function') ? Object.groupBy(a, function(x, k){ if (k === 2) { a.length = 0; churn(); } return x.i % 2 ? 'odd' : 'even'; }) : null; var b = build(6); var r2 = (typeof Map.groupBy === 'function') ? [...Map.groupBy(b, function(x, k){ if (k === 1) { b.length = 0; churn(); } return x.i % 3; })] : null; return [r1, r2]; })()"),
    ("yield-star-custom-iterator-return", "(function(){ var closed = []; var it = { [Symbol.iterator]: function(){ var i = 0; return { next: function(){ churn(); var t = i++; return {value: {i: t, a: [t]}, done: false}; }, return: function(v){ churn(); closed.push({closed: i}); return {value: {ret: 1}, done: true}; } }; } }; function* g(){ yield* it; } var out = []; for (var x of g()) { out.push(x); if (out.length === 3) break; } var [p, q] = it; churn(); return [out, closed, p, q]; })()"),
    ("setter-stores-fresh", "(function(){ var store = []; var o = { set v(x){ churn(); store.push(x); }, get v(){ churn(); return store[store.length - 1]; } }; o.v = {i: 1, a: [1]}; o.v = [{i: 2}]; o['v'] = {i: 3}; Object.assign(o, {v: {i: 4, a: [4]}}); Reflect.set(o, 'v', {i: 5}); churn(); return [store, o.v]; })()"),
    ("closures-per-iteration", "(function(){ var fns = []; for (let o = {i: 0, a: [0]}; o.i < 4; o = {i: o.i + 1, a: [o.i + 1]}) { fns.push(function(){ return o; }); churn(); } var gs = []; for (const x of [0, 1, 2].map(function(i){ return {i: i}; })) { gs.push(() => x); } churn(); return [fns.map(function(f){ return f(); }), gs.map(function(f){ return f(); })]; })()"),
    ("default-param-closures", "(function(){ function f(a = {i: 1, a: [1]}, b = function(){ return a; }, c = [a, b()]){ churn(); var a2 = a; a = {i: 2}; churn(); return [a2, b(), c, a]; } return [f(), f({i: 9})]; })()"),
    ("arguments-object-fresh", "(function(){ function f(){ churn(); var r = [arguments[1], arguments.length]; arguments[0] = {i: 99}; churn(); r.push(arguments[0], Array.prototype.slice.call(arguments, 2)); return r; } return [f({i: 1}, {i: 2, a: [2]}, [{i: 3}], {i: 4}), f.call({t: 1}, [1], [2])]; })()"),
    ("class-computed-and-static", "(function(){ function key(i){ churn(); return 'k' + i; } class K { static [key(1)] = {i: 1, a: [1]}; [key(2)] = [{i: 2}]; static { churn(); K.late = {i: 3}; } [key(3)](){ return {i: 4}; } static get [key(4)](){ churn(); return {i: 5}; } } churn(); var o = new K(); return [K.k1, o.k2, K.late, o.k3(), K.k4, Object.keys(o)]; })()"),
    ("object-iteration-fresh-values", "(function(){ var o = {}; for (var i = 0; i < 5; i++) { o['k' + i] = {i: i, a: [i]}; } var out = []; for (var k in o) { var v = o[k]; delete o[k]; churn(); out.push([k, v]); } var e = Object.entries({a: {i: 1}, b: [{i: 2}]}); churn(); var v2 = Object.values({a: {i: 3}, b: [{i: 4}]}); churn(); return [out, e, v2]; })()"),
    ("map-forEach-clear", "(function(){ var m = new Map(); for (var i = 0; i < 6; i++) m.set(mk(i), mk(i + 10)); var out = []; var n = 0; m.forEach(function(v, k){ if (++n === 2) { m.clear(); churn(); } out.push([k, v]); }); return out; })()"),
    ("map-forof-delete", "(function(){ var m = new Map(); var keys = []; for (var i = 0; i < 6; i++) { var k = mk(i); keys.push(k); m.set(k, mk(i + 10)); } var out = []; for (var e of m) { out.push(e); m.delete(keys[out.length]); churn(); } keys.length = 0; churn(); return out; })()"),
    ("set-forEach-clear", "(function(){ var s = new Set(); for (var i = 0; i < 6; i++) s.add(mk(i)); var out = []; s.forEach(function(v){ if (out.length === 1) { s.clear(); churn(); } out.push(v); }); return out; })()"),
    ("set-spread-after-delete", "(function(){ var s = new Set([0, 1, 2, 3].map(mk)); var it = s.values(); var first = it.next().value; s.clear(); churn(); return [first, [...it]]; })()"),
    ("new-map-from-map", "(function(){ var m = new Map([0, 1, 2].map(function(i){ return [mk(i), mk(i + 10)]; })); var c = new Map(m); m.clear(); churn(); return [...c]; })()"),
    ("object-assign-getters", "(function(){ var src = {}; [0, 1, 2, 3].forEach(function(i){ var v = mk(i); Object.defineProperty(src, 'k' + i, {enumerable: true, configurable: true, get: function(){ if (i === 1) { delete src.k2; delete src.k3; } churn(); return v; }}); }); var r = Object.assign({}, src); src = null; churn(); return r; })()"),
    ("object-spread-getters", "(function(){ var src = {}; [0, 1, 2].forEach(function(i){ Object.defineProperty(src, 'k' + i, {enumerable: true, get: function(){ churn(); return mk(i); }}); }); var r = {...src, tail: mk(9)}; churn(); return r; })()"),
    ("entries-values-getters", "(function(){ var src = {}; [0, 1, 2].forEach(function(i){ Object.defineProperty(src, 'k' + i, {enumerable: true, get: function(){ churn(); return mk(i); }}); }); var r = [Object.entries(src), Object.values(src)]; churn(); return r; })()"),
    ("json-stringify-getters", "(function(){ var src = {}; [0, 1, 2].forEach(function(i){ Object.defineProperty(src, 'k' + i, {enumerable: true, get: function(){ churn(); return mk(i); }}); }); return JSON.parse(JSON.stringify({deep: [src, src]})); })()"),
    ("json-parse-reviver", "JSON.parse('[{\"a\":[1,{\"b\":2}]},{\"c\":[3,4]},[5,[6]]]', function(k, v){ churn(); return (typeof v === 'object' && v !== null) ? {wrapped: v, m: mk(1)} : v; })"),
    ("string-replace-fn", "(function(){ var seen = []; 'a-b-c-d'.replace(/[a-d]/g, function(m){ var o = mk(m.charCodeAt(0)); churn(); seen.push(o); return o.s; }); return seen; })()"),
    ("string-split-join-objects", "[0, 1, 2, 3].map(mk).map(function(o){ return {toString: function(){ churn(); return o.s; }, o: o}; }).join('/')"),
    ("template-coercions", "(function(){ function t(i){ return {toString: function(){ churn(); return mk(i).s; }}; } return `${t(1)}-${t(2)}-${t(3)}` + t(4) + [t(5), t(6)]; })()"),
    ("arith-coercions", "(function(){ function n(i){ return {valueOf: function(){ churn(); return mk(i).i; }}; } return [n(1) + n(2), n(3) * n(4), Math.max(n(5), n(6), n(7)), Math.hypot(n(3), n(4)), [n(2), n(1)].sort(function(a, b){ return a - b; }).map(Number)]; })()"),
    ("bound-args", "(function(){ var f = function(){ churn(); return Array.prototype.slice.call(arguments); }.bind(null, mk(1), mk(2)); churn(); return [f(mk(3)), f.call(mk(4), mk(5))]; })()"),
    ("call-apply-fresh", "(function(){ function f(){ churn(); return [this, Array.prototype.slice.call(arguments)]; } return [f.call(mk(1), mk(2), mk(3)), f.apply(mk(4), [mk(5), mk(6)]), Reflect.apply(f, mk(7), [mk(8)])]; })()"),
    ("constructor-fresh-args", "(function(){ class A { constructor(x, y){ churn(); this.x = x; this.y = y; } } class B extends A { constructor(x){ super(x, mk(2)); churn(); this.z = mk(3); } } return [new B(mk(1)), Reflect.construct(A, [mk(4), mk(5)])]; })()"),
    ("proxy-traps-fresh", "(function(){ var p = new Proxy({}, { get: function(t, k){ churn(); return mk(String(k).length); }, ownKeys: function(){ churn(); return ['a', 'bb']; }, getOwnPropertyDescriptor: function(t, k){ churn(); return {value: mk(1), enumerable: true, configurable: true}; } }); return [p.x, p.yy, Object.keys(p), {...p}]; })()"),
    ("getter-chain", "(function(){ var o = { get a(){ churn(); return { get b(){ churn(); return { get c(){ churn(); return mk(3); } }; } }; } }; return [o.a.b.c, o.a.b, [o.a, o.a.b.c].length]; })()"),
    ("default-params-fresh", "(function(){ function f(a = mk(1), b = (churn(), mk(2)), c = [a, b, mk(3)]){ churn(); return [a, b, c]; } return [f(), f(mk(4)), f(mk(5), mk(6))]; })()"),
    ("tagged-template-fresh", "(function(){ function tag(s){ churn(); return [s.raw.length, Array.prototype.slice.call(arguments, 1)]; } return tag`a${mk(1)}b${(churn(), mk(2))}c${[mk(3)]}`; })()"),
    ("array-literal-with-calls", "(function(){ function g(i){ churn(); return mk(i); } return [g(1), [g(2), {k: g(3), [g(4).s]: g(5)}], ...[g(6)], g(7)]; })()"),
    ("object-literal-computed", "(function(){ function g(i){ churn(); return mk(i); } return {a: g(1), [g(2).s]: g(3), ...{b: g(4)}, get c(){ return g(5); }, d: [g(6)]}; })()"),
    ("comma-conditional-temps", "(function(){ function g(i){ churn(); return mk(i); } var r = [(g(1), g(2)), g(3) && g(4), g(5) || g(6), null ?? g(7), g(8) ? g(9) : g(10)]; churn(); return r; })()"),
    ("optional-chain-temps", "(function(){ function g(i){ churn(); return {v: mk(i), f: function(){ churn(); return mk(i + 1); }}; } return [g(1)?.v, g(2)?.f(), g(3)?.f?.(), (g(4)).v.a]; })()"),
    ("string-methods-fresh", "(function(){ var parts = []; 'k1=v1;k2=v2;k3=v3'.split(';').forEach(function(p){ var kv = p.split('='); churn(); parts.push({k: kv[0], v: kv[1], m: mk(kv[0].length)}); }); return parts; })()"),
    ("regexp-matchall", "(function(){ var out = []; for (var m of 'a1b2c3'.matchAll(/[a-c](\\d)/g)) { churn(); out.push([m[0], m[1], m.index, mk(Number(m[1]))]); } return out; })()"),
];

/// `mk(ARG)` written out as an object literal at the place of use. A value returned from a
/// call stays rooted in the calling frame for a while (the VM guards return values
/// generously), which would hide exactly the window these programs are after; a literal is
/// referenced by nothing but the place it is stored in.
fn expand_mk(src: &str) -> String {
    let b = src.as_bytes();
    let mut out = String::with_capacity(src.len() * 2);
    let mut i = 0;
    while i < b.len() {
        let at_mk = src[i..].starts_with("mk(") && (i == 0 || !(b[i - 1].is_ascii_alphanumeric() || b[i - 1] == b'_' || b[i - 1] == b'.')) && !src[..i].ends_with("function ");
        if at_mk {
            // balanced argument
            let mut depth = 0;
            let mut j = i + 2;
            let mut end = None;
            while j < b.len() {
                match b[j] {
                    b'(' => depth += 1,
                    b')' => {
                        depth -= 1;
                        if depth == 0 {
                            end = Some(j);
                            break;
                        }
                    }
                    _ => {}
                }
                j += 1;
            }
            if let Some(e) = end {
                let arg = &src[i + 3..e];
                if !arg.contains("++") && !arg.contains("--") && !arg.contains("mk(") {
                    out.push_str(&format!("({{i: ({a}), s: 'v' + ({a}), a: [({a}), {{d: ({a})}}]}})", a = arg));
                    i = e + 1;
                    continue;
                }
            }
        }
        let ch = src[i..].chars().next().unwrap();
        out.push(ch);
        i += ch.len_utf8();
    }
    out
}

const BUILD: &str = "function build(n){ var a = []; for (var i = 0; i < n; i++) { a.push({i: i, s: 'v' + i, a: [i, {d: i}]}); } return a; }";

pub fn items() -> Vec<Item> {
    let mut v = Vec::new();
    let mut push = |id: String, body: String| {
        let body = expand_mk(&body);
        v.push(Item { id, call: format!("__try(function(){{ {} }})", body), human: body });
    };
    for (sn, source) in ITER_SOURCES {
        for (cn, consumer) in ITER_CONSUMERS {
            let expr = consumer.replace("IT", &format!("({})", source));
            push(format!("transit.iter.{}.{}", cn, sn), format!("{} var r = {}; churn(); return __show(r);", HELPERS, expr));
        }
    }
    for (mn, method) in ARRAY_CALLBACK_METHODS {
        let uses_cb = method.contains("CB");
        for (dn, detach) in DETACH {
            if !uses_cb && *dn != "none" {
                continue;
            }
            for k in [0usize, 2, 5] {
                if *dn == "none" && k != 0 {
                    continue;
                }
                let cb = detach.replace('K', &k.to_string());
                let expr = method.replace("CB", &cb);
                push(
                    format!("transit.array.{}.{}.{}", mn, dn, k),
                    format!("{} {} var calls = -1; var a = build(8); var r = {}; churn(); return __show(r);", HELPERS, BUILD, expr),
                );
            }
        }
    }
    for (n, expr) in OTHER_WALKS {
        push(format!("transit.walk.{}", n), format!("{} {} var r = {}; churn(); return __show(r);", HELPERS, BUILD, expr));
    }
    v
}

/// Promise-side transit programs for the scripted async host (bodies defining
/// `async function main()`; they need no orders): handler lists, reaction chains and
/// combinators holding fresh values while earlier reactions run and allocate.
pub const ASYNC_TRANSIT: &[(&str, &str)] = &[
    ("then-fanout", "async function main(){ function churn(){ var j = []; for (var q = 0; q < 25; q++) j.push({q: q, w: [q]}); return j.length; } let res; const p = new Promise(function(r){ res = r; }); const log = []; p.then(function(v){ churn(); log.push('a' + v.n); }); p.then(function(v){ log.push('b' + v.n); return {w: 1}; }).then(function(x){ churn(); log.push('c' + x.w); }); p.then(function(v){ churn(); log.push('d' + v.n); }); p.finally(function(){ churn(); log.push('f'); }); res({n: 7}); await null; await null; await null; await null; return log; }"),
    ("then-fanout-rejected", "async function main(){ function churn(){ var j = []; for (var q = 0; q < 25; q++) j.push({q: q, w: [q]}); return j.length; } let rej; const p = new Promise(function(_, r){ rej = r; }); const log = []; p.catch(function(e){ churn(); log.push('a' + e.code); }); p.then(null, function(e){ log.push('b' + e.code); return {w: 2}; }).then(function(x){ churn(); log.push('c' + x.w); }); p.catch(function(e){ churn(); log.push('d' + e.code); throw {code: 9}; }).catch(function(e){ log.push('e' + e.code); }); rej({code: 5}); await null; await null; await null; await null; return log; }"),
    ("handlers-added-by-handlers", "async function main(){ function churn(){ var j = []; for (var q = 0; q < 25; q++) j.push({q: q}); return j.length; } let res; const p = new Promise(function(r){ res = r; }); const log = []; p.then(function(v){ churn(); p.then(function(w){ churn(); log.push('inner' + w.n); }); log.push('outer' + v.n); }); p.then(function(v){ churn(); log.push('second' + v.n); }); res({n: 3}); for (let i = 0; i < 6; i++) { await null; } return log; }"),
    ("many-awaiters-one-promise", "async function main(){ function churn(){ var j = []; for (var q = 0; q < 25; q++) j.push({q: q}); return j.length; } let res; const p = new Promise(function(r){ res = r; }); const log = []; async function waiter(tag){ const v = await p; churn(); log.push(tag + v.n); return {tag: tag}; } const ws = [waiter('a'), waiter('b'), waiter('c'), waiter('d')]; res({n: 1}); const rs = await Promise.all(ws); return [log, rs.map(function(r){ return r.tag; })]; }"),
    ("all-with-fresh-results", "async function main(){ function churn(){ var j = []; for (var q = 0; q < 25; q++) j.push({q: q}); return j.length; } function later(i){ return new Promise(function(r){ Promise.resolve().then(function(){ churn(); r({i: i, a: [i]}); }); }); } const r = await Promise.all([later(1), later(2), {plain: 3}, later(4)]); churn(); return r; }"),
    ("race-with-fresh-results", "async function main(){ function churn(){ var j = []; for (var q = 0; q < 25; q++) j.push({q: q}); return j.length; } function later(i, ticks){ return new Promise(function(r){ let p = Promise.resolve(); for (let t = 0; t < ticks; t++) p = p.then(function(){ churn(); }); p.then(function(){ r({i: i}); }); }); } const w = await Promise.race([later(1, 3), later(2, 1), later(3, 2)]); churn(); return w; }"),
    ("thenables", "async function main(){ function churn(){ var j = []; for (var q = 0; q < 25; q++) j.push({q: q}); return j.length; } const t = { then: function(ok){ churn(); ok({from: 'thenable', a: [1]}); } }; const a = await t; const b = await Promise.resolve({ then: function(ok){ churn(); ok({nested: {then: function(ok2){ churn(); ok2({deep: 1}); }}}); } }); churn(); return [a, b]; }"),
    ("async-generators", "async function main(){ function churn(){ var j = []; for (var q = 0; q < 25; q++) j.push({q: q}); return j.length; } async function* ag(){ for (let i = 0; i < 4; i++) { churn(); yield {i: i, a: [i]}; } } const out = []; for await (const x of ag()) { churn(); out.push(x); } return out; }"),
    ("reaction-chain-values", "async function main(){ function churn(){ var j = []; for (var q = 0; q < 25; q++) j.push({q: q}); return j.length; } let p = Promise.resolve({n: 0, trail: []}); for (let i = 1; i <= 6; i++) { p = p.then(function(v){ churn(); return {n: v.n + i, trail: v.trail.concat([{i: i}])}; }); } const r = await p; churn(); return r; }"),
    ("combinators-over-generators", "async function main(){ function churn(){ var j = []; for (var q = 0; q < 25; q++) j.push({q: q}); return j.length; } function* ps(n){ for (let i = 0; i < n; i++) { churn(); yield Promise.resolve({i: i, a: [i]}); } } function* mixed(){ churn(); yield {plain: 1}; churn(); yield Promise.resolve({i: 2}); churn(); yield new Promise(function(r){ Promise.resolve().then(function(){ churn(); r({late: 3}); }); }); } const a = await Promise.all(ps(4)); const b = await Promise.allSettled(ps(3)); const c = await Promise.race(ps(2)); const d = await Promise.all(mixed()); churn(); return [a, b.map(function(x){ return [x.status, x.value]; }), c, d]; }"),
    ("then-returns-thenable-chain", "async function main(){ function churn(){ var j = []; for (var q = 0; q < 25; q++) j.push({q: q}); return j.length; } const r = await Promise.resolve({n: 1}).then(function(v){ churn(); return { then: function(ok){ churn(); ok({n: v.n + 1, trail: [v]}); } }; }).then(function(v){ churn(); return Promise.resolve({n: v.n + 1, trail: v.trail.concat([{n: v.n}])}); }).finally(function(){ churn(); return {ignored: true}; }); churn(); return r; }"),
    ("rejections-in-flight", "async function main(){ function churn(){ var j = []; for (var q = 0; q < 25; q++) j.push({q: q}); return j.length; } const out = []; try { await Promise.reject({code: 1, a: [1]}); } catch (e) { churn(); out.push(e); } try { await Promise.all([Promise.resolve(1), Promise.reject({code: 2, a: [{z: 2}]})]); } catch (e) { churn(); out.push(e); } const p = Promise.reject({code: 3}); churn(); p.catch(function(e){ churn(); out.push(e); }); await null; await null; try { await (async function(){ churn(); throw {code: 4, a: [4]}; })(); } catch (e) { churn(); out.push(e); } return out; }"),
    ("orders-and-fanout", "async function main(){ function churn(){ var j = []; for (var q = 0; q < 25; q++) j.push({q: q}); return j.length; } const p = order({k: 3}); const log = []; const a = p.then(function(v){ churn(); log.push('a' + v); return {v: v}; }); const b = p.then(function(v){ churn(); log.push('b' + v); return {w: v}; }); const c = p.then(function(v){ log.push('c' + v); return [v]; }); const rs = await Promise.all([a, b, c]); return [log, rs]; }"),
];
