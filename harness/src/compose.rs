//! Program composer (Stratum B): seeded, typed, terminating programs built from the
//! language core — expressions of tracked static type, block-scoped declarations, loops,
//! switch, try/catch/finally, closures, classes, generators, destructuring, early exits.
//! A program is a deterministic function of (family, shard, index).
//!
//! The text carries *type slots* (private-use markers) at every position where
//! TypeScript allows static syntax; `render_js` drops them, `render_ts` fills a chosen
//! subset with type syntax (C03).
#![allow(dead_code)]

use crate::util::Rng;

pub const SLOT_OPEN: char = '\u{E000}';
pub const SLOT_CLOSE: char = '\u{E001}';
/// brackets around a numeric literal that sits where `await` would be legal if the program
/// body were an async function (not inside a nested function, method or generator): C07
/// replaces a chosen subset by `(await order({k: lit / 2}))`, which the scripted host answers
/// with `lit`
pub const AWAIT_OPEN: char = '\u{E002}';
pub const AWAIT_CLOSE: char = '\u{E003}';

#[derive(Clone, Copy, PartialEq, Eq, Debug)]
pub enum Ty {
    Num,
    Str,
    Bool,
    ArrNum,
    ArrStr,
    Obj,
}

#[derive(Clone, Debug)]
struct Var {
    name: String,
    ty: Ty,
    mutable: bool,
}

#[derive(Clone, Debug)]
struct Func {
    name: String,
    params: Vec<Ty>,
    ret: Ty,
}

pub struct Gen {
    pub rng: Rng,
    scopes: Vec<Vec<Var>>,
    funcs: Vec<Func>,
    classes: Vec<String>,
    counter: usize,
    depth: usize,
    in_function: bool,
    loop_depth: usize,
    /// budget of statements left
    budget: i32,
    pub features: Vec<&'static str>,
    /// allow `await order(...)`-style hooks (used by other generators)
    pub hostile_numbers: bool,
}

pub struct Program {
    /// body with slot markers, to be wrapped by `wrap`
    pub marked: String,
    pub features: Vec<&'static str>,
}

fn slot(kind: char) -> String {
    format!("{}{}{}", SLOT_OPEN, kind, SLOT_CLOSE)
}

impl Gen {
    pub fn new(rng: Rng) -> Self {
        Gen {
            rng,
            scopes: vec![vec![]],
            funcs: vec![],
            classes: vec![],
            counter: 0,
            depth: 0,
            in_function: false,
            loop_depth: 0,
            budget: 30,
            features: vec![],
            hostile_numbers: true,
        }
    }

    fn feat(&mut self, f: &'static str) {
        if !self.features.contains(&f) {
            self.features.push(f);
        }
    }

    fn fresh(&mut self, p: &str) -> String {
        self.counter += 1;
        format!("{}{}", p, self.counter)
    }

    fn vars_of(&self, ty: Ty) -> Vec<&Var> {
        self.scopes.iter().flatten().filter(|v| v.ty == ty).collect()
    }
    fn mutable_vars_of(&self, ty: Ty) -> Vec<&Var> {
        self.scopes.iter().flatten().filter(|v| v.ty == ty && v.mutable).collect()
    }

    fn declare(&mut self, name: &str, ty: Ty, mutable: bool) {
        self.scopes.last_mut().unwrap().push(Var { name: name.to_string(), ty, mutable });
    }

    fn pick_ty(&mut self) -> Ty {
        *self.rng.pick(&[Ty::Num, Ty::Num, Ty::Str, Ty::Str, Ty::Bool, Ty::ArrNum, Ty::ArrStr, Ty::Obj])
    }

    // ───────────── expressions ─────────────

    fn num_lit(&mut self) -> String {
        let lit = if self.hostile_numbers && self.rng.chance(1, 6) {
            (*self.rng.pick(&["0", "-1", "0.5", "2.5", "-0", "255", "65536", "2147483647", "1e3", "7", "100", "-7.25", "3"])).to_string()
        } else {
            format!("{}", self.rng.range(0, 20))
        };
        if self.in_function { lit } else { format!("{}{}{}", AWAIT_OPEN, lit, AWAIT_CLOSE) }
    }

    fn str_lit(&mut self) -> String {
        (*self.rng.pick(&["'a'", "'b'", "'abc'", "'x,y'", "''", "'Hello'", "' pad '", "'42'", "'\\u00e9'", "'z-z'", "'k'", "'qq'"])).to_string()
    }

    pub fn expr(&mut self, ty: Ty, d: usize) -> String {
        let leaf = d == 0 || self.rng.chance(1, 4);
        match ty {
            Ty::Num => self.num_expr(d, leaf),
            Ty::Str => self.str_expr(d, leaf),
            Ty::Bool => self.bool_expr(d, leaf),
            Ty::ArrNum => self.arrnum_expr(d, leaf),
            Ty::ArrStr => self.arrstr_expr(d, leaf),
            Ty::Obj => self.obj_expr(d, leaf),
        }
    }

    fn var_or(&mut self, ty: Ty, fallback: impl FnOnce(&mut Self) -> String) -> String {
        let names: Vec<String> = self.vars_of(ty).iter().map(|v| v.name.clone()).collect();
        if !names.is_empty() && self.rng.chance(3, 4) {
            let n = names[self.rng.below(names.len())].clone();
            if self.rng.chance(1, 12) {
                // non-null assertion slot after an identifier
                return format!("{}{}", n, slot('n'));
            }
            n
        } else {
            fallback(self)
        }
    }

    fn num_expr(&mut self, d: usize, leaf: bool) -> String {
        if leaf {
            return self.var_or(Ty::Num, |g| g.num_lit());
        }
        let k = self.rng.below(18);
        let d1 = d - 1;
        match k {
            0..=3 => {
                let op = *self.rng.pick(&["+", "-", "*", "%", "+", "-"]);
                format!("({} {} {})", self.expr(Ty::Num, d1), op, self.expr(Ty::Num, d1))
            }
            4 => {
                let f = *self.rng.pick(&["Math.floor", "Math.abs", "Math.round", "Math.trunc", "Math.ceil", "Math.sign"]);
                format!("{}({})", f, self.expr(Ty::Num, d1))
            }
            5 => format!("Math.max({}, {})", self.expr(Ty::Num, d1), self.expr(Ty::Num, d1)),
            6 => format!("{}.length", self.expr(Ty::ArrNum, d1)),
            7 => format!("{}.length", self.expr(Ty::Str, d1)),
            8 => format!("({} ? {} : {})", self.expr(Ty::Bool, d1), self.expr(Ty::Num, d1), self.expr(Ty::Num, d1)),
            9 => {
                self.feat("reduce");
                format!("{}.reduce(function(a{p}, b{p}){r} {{ return a + b; }}, 0)", self.expr(Ty::ArrNum, d1), p = slot('p'), r = slot('r'))
            }
            10 => format!("{}.indexOf({})", self.expr(Ty::Str, d1), self.str_lit()),
            11 => {
                let op = *self.rng.pick(&["|", "&", "^", "<<", ">>", ">>>"]);
                format!("({} {} {})", self.expr(Ty::Num, d1), op, self.rng.range(0, 5))
            }
            12 => {
                // call a known function returning Num
                let cands: Vec<Func> = self.funcs.iter().filter(|f| f.ret == Ty::Num).cloned().collect();
                if let Some(f) = cands.get(self.rng.below(cands.len().max(1))).cloned() {
                    self.feat("call");
                    let args: Vec<String> = f.params.iter().map(|t| self.expr(*t, d1.min(1))).collect();
                    let targs = if self.rng.chance(1, 8) { slot('c') } else { String::new() };
                    format!("{}{}({})", f.name, targs, args.join(", "))
                } else {
                    self.num_lit()
                }
            }
            13 => format!("({}{}).n", self.expr(Ty::Obj, d1), if self.rng.chance(1, 6) { slot('a') } else { String::new() }),
            14 => format!("({}[{}] || 0)", self.expr(Ty::ArrNum, d1), self.rng.range(0, 3)),
            15 => format!("(parseInt({}, 10) || 0)", self.expr(Ty::Str, d1)),
            16 => format!("(-({}))", self.expr(Ty::Num, d1)),
            _ => format!("({} ?? {})", self.expr(Ty::Num, d1), self.num_lit()),
        }
    }

    fn str_expr(&mut self, d: usize, leaf: bool) -> String {
        if leaf {
            return self.var_or(Ty::Str, |g| g.str_lit());
        }
        let d1 = d - 1;
        match self.rng.below(16) {
            0..=2 => format!("({} + {})", self.expr(Ty::Str, d1), self.expr(Ty::Str, d1)),
            3 => {
                self.feat("template");
                format!("`${{{}}}:${{{}}}`", self.expr(Ty::Str, d1), self.expr(Ty::Num, d1))
            }
            4 => format!("{}.slice({}, {})", self.expr(Ty::Str, d1), self.rng.range(0, 2), self.rng.range(1, 4)),
            5 => format!("{}.{}()", self.expr(Ty::Str, d1), *self.rng.pick(&["toUpperCase", "toLowerCase", "trim"])),
            6 => format!("{}.repeat({})", self.expr(Ty::Str, d1), self.rng.range(0, 3)),
            7 => format!("{}.padStart({}, '*')", self.expr(Ty::Str, d1), self.rng.range(0, 6)),
            8 => format!("String({})", self.expr(Ty::Num, d1)),
            9 => format!("{}.join({})", self.expr(Ty::ArrStr, d1), *self.rng.pick(&["','", "'-'", "''", "'|'"])),
            10 => format!("{}.join('+')", self.expr(Ty::ArrNum, d1)),
            11 => format!("JSON.stringify({})", self.expr(Ty::Obj, d1)),
            12 => format!("(typeof {})", self.expr(Ty::Num, d1)),
            13 => format!("({} ? {} : {})", self.expr(Ty::Bool, d1), self.expr(Ty::Str, d1), self.expr(Ty::Str, d1)),
            14 => format!("({}{}).s", self.expr(Ty::Obj, d1), if self.rng.chance(1, 6) { slot('a') } else { String::new() }),
            _ => format!("{}.replace({}, {})", self.expr(Ty::Str, d1), self.str_lit(), self.str_lit()),
        }
    }

    fn bool_expr(&mut self, d: usize, leaf: bool) -> String {
        if leaf {
            return self.var_or(Ty::Bool, |g| (*g.rng.pick(&["true", "false"])).to_string());
        }
        let d1 = d - 1;
        match self.rng.below(10) {
            0..=2 => {
                let op = *self.rng.pick(&["<", "<=", ">", ">=", "===", "!=="]);
                format!("({} {} {})", self.expr(Ty::Num, d1), op, self.expr(Ty::Num, d1))
            }
            3 => format!("({} === {})", self.expr(Ty::Str, d1), self.expr(Ty::Str, d1)),
            4 => format!("({} < {})", self.expr(Ty::Str, d1), self.expr(Ty::Str, d1)),
            5 => format!("({} && {})", self.expr(Ty::Bool, d1), self.expr(Ty::Bool, d1)),
            6 => format!("({} || {})", self.expr(Ty::Bool, d1), self.expr(Ty::Bool, d1)),
            7 => format!("!{}", self.expr(Ty::Bool, d1)),
            8 => format!("{}.includes({})", self.expr(Ty::ArrNum, d1), self.num_lit()),
            _ => format!("{}.startsWith({})", self.expr(Ty::Str, d1), self.str_lit()),
        }
    }

    fn arrnum_expr(&mut self, d: usize, leaf: bool) -> String {
        if leaf {
            return self.var_or(Ty::ArrNum, |g| {
                let n = g.rng.below(5);
                let xs: Vec<String> = (0..n).map(|_| g.num_lit()).collect();
                format!("[{}]", xs.join(", "))
            });
        }
        let d1 = d - 1;
        match self.rng.below(10) {
            0 => {
                self.feat("map");
                format!("{}.map(function(x{p}){r} {{ return x * 2 + 1; }})", self.expr(Ty::ArrNum, d1), p = slot('p'), r = slot('r'))
            }
            1 => {
                self.feat("arrow");
                format!("{}.map((x{p}, i{p}){r} => x + i)", self.expr(Ty::ArrNum, d1), p = slot('p'), r = slot('r'))
            }
            2 => format!("{}.filter((x{p}) => x % 2 === 0)", self.expr(Ty::ArrNum, d1), p = slot('p')),
            3 => format!("{}.slice({})", self.expr(Ty::ArrNum, d1), self.rng.range(0, 2)),
            4 => format!("{}.concat({})", self.expr(Ty::ArrNum, d1), self.expr(Ty::ArrNum, d1)),
            5 => format!("[...{}, {}]", self.expr(Ty::ArrNum, d1), self.expr(Ty::Num, d1)),
            6 => format!("{}.slice().sort(function(a{p}, b{p}) {{ return a - b; }})", self.expr(Ty::ArrNum, d1), p = slot('p')),
            7 => format!("{}.slice().reverse()", self.expr(Ty::ArrNum, d1)),
            8 => format!("Array.from({}, (x{p}) => x + 1)", self.expr(Ty::ArrNum, d1), p = slot('p')),
            _ => format!("[{}, {}]", self.expr(Ty::Num, d1), self.expr(Ty::Num, d1)),
        }
    }

    fn arrstr_expr(&mut self, d: usize, leaf: bool) -> String {
        if leaf {
            return self.var_or(Ty::ArrStr, |g| {
                let n = g.rng.below(4);
                let xs: Vec<String> = (0..n).map(|_| g.str_lit()).collect();
                format!("[{}]", xs.join(", "))
            });
        }
        let d1 = d - 1;
        match self.rng.below(7) {
            0 => format!("{}.split({})", self.expr(Ty::Str, d1), *self.rng.pick(&["','", "''", "'-'", "'b'"])),
            1 => format!("{}.map((s{p}) => s + '!')", self.expr(Ty::ArrStr, d1), p = slot('p')),
            2 => format!("Object.keys({})", self.expr(Ty::Obj, d1)),
            3 => format!("{}.map(String)", self.expr(Ty::ArrNum, d1)),
            4 => format!("{}.concat([{}])", self.expr(Ty::ArrStr, d1), self.expr(Ty::Str, d1)),
            5 => format!("{}.slice().sort()", self.expr(Ty::ArrStr, d1)),
            _ => format!("[{}, {}]", self.expr(Ty::Str, d1), self.expr(Ty::Str, d1)),
        }
    }

    fn obj_expr(&mut self, d: usize, leaf: bool) -> String {
        if leaf {
            return self.var_or(Ty::Obj, |g| format!("{{ n: {}, s: {} }}", g.num_lit(), g.str_lit()));
        }
        let d1 = d - 1;
        match self.rng.below(5) {
            0 => format!("{{ n: {}, s: {} }}", self.expr(Ty::Num, d1), self.expr(Ty::Str, d1)),
            1 => {
                self.feat("spread-obj");
                format!("{{ ...{}, n: {} }}", self.expr(Ty::Obj, d1), self.expr(Ty::Num, d1))
            }
            2 => format!("Object.assign({{}}, {}, {{ s: {} }})", self.expr(Ty::Obj, d1), self.expr(Ty::Str, d1)),
            3 => format!("{{ s: {}, n: {}, extra: {} }}", self.expr(Ty::Str, d1), self.expr(Ty::Num, d1), self.expr(Ty::ArrNum, d1)),
            _ => {
                // class instance if one exists
                if let Some(c) = self.classes.first().cloned() {
                    self.feat("new");
                    format!("new {}({}, {})", c, self.expr(Ty::Num, d1), self.expr(Ty::Str, d1))
                } else {
                    format!("{{ n: {}, s: {} }}", self.num_lit(), self.str_lit())
                }
            }
        }
    }

    // ───────────── statements ─────────────

    fn indent(&self) -> String {
        "  ".repeat(self.depth + 1)
    }

    fn ts_name(ty: Ty) -> char {
        match ty {
            Ty::Num => 'N',
            Ty::Str => 'S',
            Ty::Bool => 'B',
            Ty::ArrNum => 'A',
            Ty::ArrStr => 'R',
            Ty::Obj => 'O',
        }
    }

    fn block(&mut self, out: &mut String, n: usize) {
        self.scopes.push(vec![]);
        self.depth += 1;
        for _ in 0..n {
            self.stmt(out);
        }
        self.depth -= 1;
        self.scopes.pop();
    }

    fn log_stmt(&mut self, out: &mut String) {
        let ty = self.pick_ty();
        let e = self.expr(ty, 2);
        let ind = self.indent();
        match ty {
            Ty::Str => out.push_str(&format!("{}__log.push({});\n", ind, e)),
            _ => out.push_str(&format!("{}__log.push(__show({}));\n", ind, e)),
        }
    }

    pub fn stmt(&mut self, out: &mut String) {
        self.budget -= 1;
        if self.budget < 0 {
            return;
        }
        let ind = self.indent();
        let deep = self.depth >= 3;
        let k = self.rng.below(if deep { 9 } else { 23 });
        match k {
            0..=2 => {
                // declaration
                let ty = self.pick_ty();
                let name = self.fresh("v");
                let kw = *self.rng.pick(&["let", "const", "let", "var"]);
                let e = self.expr(ty, 3);
                out.push_str(&format!("{}{} {}{} = {};\n", ind, kw, name, slot(Self::ts_name(ty)), e));
                // `var` declared inside a block is function-scoped: register it in the function scope
                if kw == "var" && self.scopes.len() > 1 {
                    let fs = if self.in_function { self.scopes.len().min(2) - 1 } else { 0 };
                    let _ = fs;
                    self.declare(&name, ty, true);
                } else {
                    self.declare(&name, ty, kw != "const");
                }
            }
            3..=4 => {
                // assignment to a mutable variable
                let ty = self.pick_ty();
                let cands: Vec<String> = self.mutable_vars_of(ty).iter().map(|v| v.name.clone()).collect();
                if cands.is_empty() {
                    self.log_stmt(out);
                    return;
                }
                let n = cands[self.rng.below(cands.len())].clone();
                let e = self.expr(ty, 2);
                match ty {
                    Ty::Num => {
                        let op = *self.rng.pick(&["=", "+=", "-=", "*=", "="]);
                        out.push_str(&format!("{}{} {} {};\n", ind, n, op, e));
                    }
                    Ty::Str => {
                        // bounded growth: repeated self-concatenation in nested loops would
                        // otherwise double the string on every iteration
                        if self.rng.chance(1, 2) {
                            out.push_str(&format!("{}{} = ({}).slice(0, 40);\n", ind, n, e));
                        } else {
                            let lit = self.str_lit();
                            out.push_str(&format!("{}{} = ({} + {}).slice(-40);\n", ind, n, n, lit));
                        }
                    }
                    Ty::ArrNum | Ty::ArrStr if self.rng.chance(1, 2) => {
                        let elem = self.expr(if ty == Ty::ArrNum { Ty::Num } else { Ty::Str }, 1);
                        out.push_str(&format!("{}{}.push({});\n", ind, n, elem));
                    }
                    Ty::Obj if self.rng.chance(1, 2) => {
                        let e2 = self.expr(Ty::Num, 1);
                        out.push_str(&format!("{}{}.n = {};\n", ind, n, e2));
                    }
                    Ty::ArrNum | Ty::ArrStr => out.push_str(&format!("{}{} = ({}).slice(0, 12);\n", ind, n, e)),
                    _ => out.push_str(&format!("{}{} = {};\n", ind, n, e)),
                }
            }
            5..=7 => self.log_stmt(out),
            8 => {
                // update expression
                let cands: Vec<String> = self.mutable_vars_of(Ty::Num).iter().map(|v| v.name.clone()).collect();
                if let Some(n) = cands.get(self.rng.below(cands.len().max(1))) {
                    let form = *self.rng.pick(&["{}++", "++{}", "{}--", "--{}"]);
                    out.push_str(&format!("{}__log.push(__show({}));\n", ind, form.replace("{}", n)));
                } else {
                    self.log_stmt(out);
                }
            }
            9..=10 => {
                self.feat("if");
                let c = self.expr(Ty::Bool, 2);
                out.push_str(&format!("{}if ({}) {{\n", ind, c));
                let n = 1 + self.rng.below(3);
                self.block(out, n);
                if self.rng.chance(1, 2) {
                    out.push_str(&format!("{}}} else {{\n", ind));
                    let n = 1 + self.rng.below(2);
                    self.block(out, n);
                }
                out.push_str(&format!("{}}}\n", ind));
            }
            11 => {
                self.feat("for");
                let i = self.fresh("i");
                let n = 1 + self.rng.below(4);
                out.push_str(&format!("{}for (let {}{} = 0; {} < {}; {}++) {{\n", ind, i, slot('N'), i, n, i));
                self.scopes.push(vec![Var { name: i.clone(), ty: Ty::Num, mutable: false }]);
                self.loop_depth += 1;
                let m = 1 + self.rng.below(3);
                self.block(out, m);
                if self.rng.chance(1, 3) {
                    let ind2 = "  ".repeat(self.depth + 2);
                    let kw = *self.rng.pick(&["break", "continue"]);
                    out.push_str(&format!("{}if ({} === {}) {{ {}; }}\n", ind2, i, self.rng.below(n as usize + 1), kw));
                    let ty = self.pick_ty();
                    let e = self.expr(ty, 1);
                    out.push_str(&format!("{}__log.push(__show({}));\n", ind2, e));
                }
                self.loop_depth -= 1;
                self.scopes.pop();
                out.push_str(&format!("{}}}\n", ind));
            }
            12 => {
                self.feat("for-of");
                let x = self.fresh("x");
                let numeric = self.rng.chance(1, 2);
                let arr = self.expr(if numeric { Ty::ArrNum } else { Ty::ArrStr }, 2);
                let kw = *self.rng.pick(&["const", "let"]);
                // iterate over a copy: the body may push to the very array it iterates
                out.push_str(&format!("{}for ({} {} of {}.slice()) {{\n", ind, kw, x, arr));
                self.scopes.push(vec![Var { name: x, ty: if numeric { Ty::Num } else { Ty::Str }, mutable: false }]);
                self.loop_depth += 1;
                let m = 1 + self.rng.below(3);
                self.block(out, m);
                self.loop_depth -= 1;
                self.scopes.pop();
                out.push_str(&format!("{}}}\n", ind));
            }
            13 => {
                self.feat("while");
                let c = self.fresh("w");
                let n = 1 + self.rng.below(4);
                out.push_str(&format!("{}let {} = 0;\n{}while ({} < {}) {{\n", ind, c, ind, c, n));
                let ind2 = "  ".repeat(self.depth + 2);
                out.push_str(&format!("{}{}++;\n", ind2, c));
                self.scopes.push(vec![Var { name: c.clone(), ty: Ty::Num, mutable: false }]);
                self.loop_depth += 1;
                let m = 1 + self.rng.below(2);
                self.block(out, m);
                self.loop_depth -= 1;
                self.scopes.pop();
                out.push_str(&format!("{}}}\n", ind));
            }
            14 => {
                self.feat("switch");
                let e = self.expr(Ty::Num, 2);
                out.push_str(&format!("{}switch (Math.abs({}) % 3) {{\n", ind, e));
                for c in 0..3 {
                    if self.rng.chance(1, 5) {
                        continue;
                    }
                    out.push_str(&format!("{}  case {}: {{\n", ind, c));
                    self.depth += 1;
                    let m = 1 + self.rng.below(2);
                    self.block(out, m);
                    self.depth -= 1;
                    if self.rng.chance(4, 5) {
                        out.push_str(&format!("{}    break;\n", ind));
                    }
                    out.push_str(&format!("{}  }}\n", ind));
                }
                out.push_str(&format!("{}  default:\n{}    __log.push('dflt');\n{}}}\n", ind, ind, ind));
            }
            15 => {
                self.feat("try");
                out.push_str(&format!("{}try {{\n", ind));
                let m = 1 + self.rng.below(2);
                self.block(out, m);
                let ind2 = "  ".repeat(self.depth + 2);
                let c = self.expr(Ty::Bool, 2);
                let ek = *self.rng.pick(&["Error", "TypeError", "RangeError"]);
                out.push_str(&format!("{}if ({}) {{ throw new {}({}); }}\n", ind2, c, ek, self.str_lit()));
                let m2 = self.rng.below(2);
                self.block(out, m2);
                let e = self.fresh("e");
                out.push_str(&format!("{}}} catch ({}{}) {{\n", ind, e, slot('u')));
                out.push_str(&format!("{}__log.push({}.name + ':' + {}.message);\n", ind2, e, e));
                if self.rng.chance(1, 2) {
                    out.push_str(&format!("{}}} finally {{\n", ind));
                    out.push_str(&format!("{}__log.push('fin');\n", ind2));
                }
                out.push_str(&format!("{}}}\n", ind));
            }
            16 if !self.in_function && self.depth == 0 => self.func_decl(out),
            17 if !self.in_function && self.depth == 0 && self.classes.len() < 2 => self.class_decl(out),
            18 if !self.in_function && self.depth == 0 => self.generator_decl(out),
            19 => {
                self.feat("destructure");
                let o = self.expr(Ty::Obj, 2);
                let a = self.fresh("d");
                let b = self.fresh("d");
                out.push_str(&format!("{}const {{ n: {}, s: {} = 'dflt' }}{} = {};\n", ind, a, b, slot('D'), o));
                self.declare(&a, Ty::Num, false);
                self.declare(&b, Ty::Str, false);
            }
            20 => {
                self.feat("destructure-arr");
                let arr = self.expr(Ty::ArrNum, 2);
                let a = self.fresh("h");
                let r = self.fresh("t");
                out.push_str(&format!("{}const [{} = 0, ...{}]{} = {};\n", ind, a, r, slot('T'), arr));
                self.declare(&a, Ty::Num, false);
                self.declare(&r, Ty::ArrNum, false);
            }
            21 if self.in_function && self.rng.chance(1, 2) => {
                // early return from inside whatever nesting we are in
                self.feat("early-return");
                let c = self.expr(Ty::Bool, 1);
                out.push_str(&format!("{}if ({}) {{ return {}; }}\n", ind, c, self.ret_expr()));
            }
            _ => {
                // type-only declaration slot + a log
                out.push_str(&format!("{}{}\n", ind, slot('d')));
                self.log_stmt(out);
            }
        }
    }

    fn ret_expr(&mut self) -> String {
        // functions return Num in this generator
        self.expr(Ty::Num, 2)
    }

    fn func_decl(&mut self, out: &mut String) {
        self.feat("function");
        let ind = self.indent();
        let name = self.fresh("f");
        let np = self.rng.below(3);
        let params: Vec<(String, Ty)> = (0..np)
            .map(|_| {
                let t = *self.rng.pick(&[Ty::Num, Ty::Str, Ty::ArrNum, Ty::Num]);
                (self.fresh("p"), t)
            })
            .collect();
        let mut plist: Vec<String> = params.iter().map(|(n, t)| format!("{}{}", n, slot(Self::ts_name(*t)))).collect();
        // default value on the last parameter sometimes
        if let Some(last) = plist.last_mut()
            && self.rng.chance(1, 3)
        {
            let (_, t) = params.last().unwrap();
            let dv = match t {
                Ty::Num => "1".to_string(),
                Ty::Str => "'dv'".to_string(),
                _ => "[1]".to_string(),
            };
            last.push_str(&format!(" = {}", dv));
        }
        out.push_str(&format!("{}function {}{}({}){} {{\n", ind, name, slot('g'), plist.join(", "), slot('r')));
        let saved_in = self.in_function;
        self.in_function = true;
        self.scopes.push(params.iter().map(|(n, t)| Var { name: n.clone(), ty: *t, mutable: true }).collect());
        self.depth += 1;
        let n = 1 + self.rng.below(4);
        for _ in 0..n {
            self.stmt(out);
        }
        let r = self.ret_expr();
        out.push_str(&format!("{}return {};\n", self.indent(), r));
        self.depth -= 1;
        self.scopes.pop();
        self.in_function = saved_in;
        out.push_str(&format!("{}}}\n", ind));
        self.funcs.push(Func { name: name.clone(), params: params.iter().map(|(_, t)| *t).collect(), ret: Ty::Num });
        // use it right away once
        let args: Vec<String> = params.iter().map(|(_, t)| self.expr(*t, 1)).collect();
        out.push_str(&format!("{}__log.push(__show({}({})));\n", ind, name, args.join(", ")));
        // closure capturing a mutable outer variable
        if self.rng.chance(1, 2) {
            self.feat("closure");
            let c = self.fresh("mk");
            out.push_str(&format!(
                "{ind}function {c}(start{N}){r} {{ let count{N} = start; return {{ inc: (by{N} = 1){r2} => {{ count += by; return count; }}, get() {{ return count; }} }}; }}\n{ind}const {c}a = {c}(2); {c}a.inc(); {c}a.inc(3); __log.push(__show({c}a.get()));\n",
                ind = ind,
                c = c,
                N = slot('N'),
                r = slot('r'),
                r2 = slot('r')
            ));
        }
    }

    fn class_decl(&mut self, out: &mut String) {
        self.feat("class");
        let ind = self.indent();
        let name = self.fresh("C");
        let base = self.classes.first().cloned();
        let extends = match &base {
            Some(b) if self.rng.chance(1, 2) => {
                self.feat("extends");
                format!(" extends {}", b)
            }
            _ => String::new(),
        };
        let is_derived = !extends.is_empty();
        out.push_str(&format!("{}class {}{}{}{} {{\n", ind, name, slot('g'), extends, slot('I')));
        let i2 = format!("{}  ", ind);
        out.push_str(&format!("{}{}n{};\n{}{}s{};\n", i2, slot('m'), slot('N'), i2, slot('m'), slot('S')));
        if is_derived {
            out.push_str(&format!("{}constructor(n{}, s{}) {{ super(n + 1, s); this.tag = '{}'; }}\n", i2, slot('N'), slot('S'), name));
        } else {
            out.push_str(&format!("{}constructor(n{}, s{}) {{ this.n = n; this.s = s; }}\n", i2, slot('N'), slot('S')));
        }
        out.push_str(&format!("{}describe(){} {{ return this.s + '#' + this.n{}; }}\n", i2, slot('r'), if is_derived { " + super.describe()" } else { "" }));
        out.push_str(&format!("{}get double(){} {{ return this.n * 2; }}\n", i2, slot('r')));
        out.push_str(&format!("{}static make(k{}){} {{ return new {}(k, 'made'); }}\n", i2, slot('N'), slot('r'), name));
        out.push_str(&format!("{}}}\n", ind));
        self.classes.insert(0, name.clone());
        let v = self.fresh("o");
        out.push_str(&format!("{}const {}{} = new {}({}, {});\n", ind, v, slot('O'), name, self.num_lit(), self.str_lit()));
        out.push_str(&format!("{}__log.push({}.describe() + '/' + {}.double + '/' + {}.make(3).describe() + '/' + ({} instanceof {}));\n", ind, v, v, name, v, name));
        self.declare(&v, Ty::Obj, false);
    }

    fn generator_decl(&mut self, out: &mut String) {
        self.feat("generator");
        let ind = self.indent();
        let name = self.fresh("g");
        let n = 1 + self.rng.below(4);
        out.push_str(&format!("{}function* {}(lim{}){} {{\n{}  for (let k = 0; k < lim; k++) {{ yield k * {}; }}\n{}  return 'done';\n{}}}\n", ind, name, slot('N'), slot('r'), ind, 1 + self.rng.below(3), ind, ind));
        match self.rng.below(3) {
            0 => out.push_str(&format!("{}__log.push(__show([...{}({})]));\n", ind, name, n)),
            1 => out.push_str(&format!("{}for (const y of {}({})) {{ __log.push('y' + y); }}\n", ind, name, n)),
            _ => {
                let it = self.fresh("it");
                out.push_str(&format!("{}const {} = {}({});\n{}__log.push(__show([{}.next(), {}.next(), {}.next()]));\n", ind, it, name, n, ind, it, it, it));
            }
        }
    }
}

/// Generate one program body (with slot markers).
pub fn generate(family: &str, shard: u64, index: u64) -> Program {
    let rng = Rng::derive(family, shard, index);
    let mut g = Gen::new(rng);
    g.budget = 8 + g.rng.below(28) as i32;
    let mut out = String::new();
    // a few seed variables so expressions have something to chew on
    for ty in [Ty::Num, Ty::Str, Ty::ArrNum, Ty::Obj] {
        let name = g.fresh("v");
        let e = g.expr(ty, 1);
        out.push_str(&format!("  let {}{} = {};\n", name, slot(Gen::ts_name(ty)), e));
        g.declare(&name, ty, true);
    }
    while g.budget > 0 {
        g.stmt(&mut out);
    }
    // final value: every top-level variable, then the log
    let names: Vec<String> = g.scopes[0].iter().map(|v| v.name.clone()).collect();
    // (block-scoped names declared at top level only; `var`s inside blocks are excluded)
    out.push_str(&format!("  return __show([{}]) + '|' + __log.join(';');\n", names.join(", ")));
    // occasionally end with an uncaught error instead
    Program { marked: out, features: g.features }
}

pub fn wrap(body: &str) -> String {
    format!("'use strict';\n{}\n(function(){{\n  const __log = [];\n{}}})()", crate::checks::PRELUDE, body)
}

/// Drop all slot markers: the plain JavaScript program.
pub fn render_js(marked: &str) -> String {
    let mut out = String::with_capacity(marked.len());
    let mut it = marked.chars();
    while let Some(c) = it.next() {
        if c == SLOT_OPEN {
            for c2 in it.by_ref() {
                if c2 == SLOT_CLOSE {
                    break;
                }
            }
        } else if c != AWAIT_OPEN && c != AWAIT_CLOSE {
            out.push(c);
        }
    }
    out
}

/// number of await-capable literal sites
pub fn await_sites(marked: &str) -> usize {
    marked.chars().filter(|c| *c == AWAIT_OPEN).count()
}

/// Plain JavaScript in which the await-capable literal sites chosen by `choose(ordinal)`
/// read their value from the host: `(await order({k: (lit) / 2}))`.
pub fn render_await(marked: &str, mut choose: impl FnMut(usize) -> bool) -> String {
    let mut out = String::with_capacity(marked.len() + 256);
    let mut it = marked.chars();
    let mut ord = 0;
    while let Some(c) = it.next() {
        if c == SLOT_OPEN {
            for c2 in it.by_ref() {
                if c2 == SLOT_CLOSE {
                    break;
                }
            }
        } else if c == AWAIT_OPEN {
            let mut lit = String::new();
            for c2 in it.by_ref() {
                if c2 == AWAIT_CLOSE {
                    break;
                }
                lit.push(c2);
            }
            if choose(ord) {
                out.push_str(&format!("(await order({{k: ({}) / 2}}))", lit));
            } else {
                out.push_str(&lit);
            }
            ord += 1;
        } else {
            out.push(c);
        }
    }
    out
}

/// Positions (ordinal, kind) of all slots.
pub fn slots(marked: &str) -> Vec<char> {
    let mut v = Vec::new();
    let mut it = marked.chars();
    while let Some(c) = it.next() {
        if c == SLOT_OPEN
            && let Some(k) = it.next()
        {
            v.push(k);
        }
    }
    v
}

/// Fill the slots for which `fill(ordinal, kind)` returns Some(text); drop the rest.
pub fn render_with(marked: &str, mut fill: impl FnMut(usize, char) -> Option<String>) -> String {
    let mut out = String::with_capacity(marked.len() + 64);
    let mut it = marked.chars();
    let mut ord = 0;
    while let Some(c) = it.next() {
        if c == SLOT_OPEN {
            let k = it.next().unwrap_or('?');
            let _ = it.next(); // SLOT_CLOSE
            if let Some(t) = fill(ord, k) {
                out.push_str(&t);
            }
            ord += 1;
        } else if c != AWAIT_OPEN && c != AWAIT_CLOSE {
            out.push(c);
        }
    }
    out
}
