//! C10 — meaning does not depend on size: big constructs work or are refused.
//!
//! Every program is a *self-checking* member of a construct family at size n: the
//! generator knows the closed-form value the program must produce. The construct is
//! evaluated "sandwiched" between live temporaries (`id(11) + '|' + (<construct>) + '|' + id(22)`)
//! and between live variables declared before and after it, at the script top level and
//! inside function / method / generator bodies, so a wrapped register window or a
//! truncated constant index or jump shows as a wrong value, a clobbered neighbour, a
//! run-time internal error or a crash.
//!
//! Verdict per (family, context, n), decided on the outcome tuple only:
//!   * value == closed form                         -> held
//!   * Err from prepare() (0 steps executed) naming a limit:
//!       - single-construct family                  -> refused (acceptable)
//!       - sequence family (parts accepted alone)   -> violation: cumulative limit
//!   * anything else (wrong value, error raised while running, refusal without a limit
//!     message, panic, signal, logical step budget exhausted) -> violation
//!   * wall-clock watchdog                          -> inconclusive
//!
//! Programs run in forked children (a wrapped window may panic or overflow the stack).

use crate::isolate::{self, Exit, Limits};
use crate::runner::{self, RunConfig};
use crate::util::*;
use serde_json::{Value, json};

pub struct C10;

const M: u64 = 1_000_003;

const HELPERS: &str = r#"
var M = 1000003;
function H(a){ var s = 7; for (var i = 0; i < a.length; i++) { s = (s * 31 + a[i]) % M; } return a.length + ':' + s; }
function HS(str){ var s = 7; for (var i = 0; i < str.length; i++) { s = (s * 31 + str.charCodeAt(i)) % M; } return str.length + ':' + s; }
function id(x){ return x; }
function cnt(...r){ return H(r); }
function mkArr(n){ var a = []; for (var i = 0; i < n; i++) { a.push((i * 7 + 3) % 1000); } return a; }
"#;

fn val(i: usize) -> u64 {
    ((i * 7 + 3) % 1000) as u64
}

fn h_of(xs: impl Iterator<Item = u64>) -> String {
    let mut s: u64 = 7;
    let mut n = 0usize;
    for x in xs {
        s = (s * 31 + x) % M;
        n += 1;
    }
    format!("{}:{}", n, s)
}

fn hs_of(text: &str) -> String {
    h_of(text.chars().map(|c| c as u64))
}

/// One member of a family.
struct Case {
    /// statements placed before the sandwich (may declare helpers / data)
    pre: String,
    /// expression whose String() must equal `expect`
    expr: String,
    expect: String,
}

#[derive(Clone, Copy, PartialEq, Eq)]
enum Kind {
    /// one construct of size n: may be refused with an explicit limit error
    Single,
    /// a sequence of n parts each accepted alone: must be accepted
    Sequence,
}

struct Family {
    name: &'static str,
    kind: Kind,
    /// largest n explored in (quick, thorough)
    max: (usize, usize),
    build: fn(usize) -> Case,
    /// only valid as a module / only at top level (uses import/export or top-level-only syntax)
    top_only: bool,
}

fn list(n: usize, f: impl Fn(usize) -> String) -> String {
    let mut s = String::with_capacity(n * 6);
    for i in 0..n {
        if i > 0 {
            s.push(',');
        }
        s.push_str(&f(i));
    }
    s
}

fn seq(n: usize, f: impl Fn(usize) -> String) -> String {
    let mut s = String::with_capacity(n * 24);
    for i in 0..n {
        s.push_str(&f(i));
        s.push('\n');
    }
    s
}

/// s = fold (s*31 + x_i) % M from 7, as the in-program statement sequences compute it
fn fold(n: usize, f: impl Fn(usize) -> u64) -> u64 {
    let mut s: u64 = 7;
    for i in 0..n {
        s = (s * 31 + f(i)) % M;
    }
    s
}

const STEP: &str = "s = (s * 31 + {}) % M;";

fn step_stmt(x: impl std::fmt::Display) -> String {
    STEP.replace("{}", &x.to_string())
}

// ───────────────────────────── families ─────────────────────────────

fn families() -> Vec<Family> {
    use Kind::*;
    let big = (1100, 70_000);
    let reg = (1100, 70_000);
    let mid = (1100, 20_000);
    let small = (600, 5_000);
    vec![
        Family { name: "array-literal", kind: Single, max: reg, top_only: false, build: |n| Case {
            pre: String::new(),
            expr: format!("H([{}])", list(n, |i| val(i).to_string())),
            expect: h_of((0..n).map(val)),
        }},
        Family { name: "array-literal-distinct-consts", kind: Single, max: reg, top_only: false, build: |n| Case {
            pre: String::new(),
            expr: format!("H([{}])", list(n, |i| (i + 100_000).to_string())),
            expect: h_of((0..n).map(|i| (i + 100_000) as u64)),
        }},
        Family { name: "array-literal-exprs", kind: Single, max: mid, top_only: false, build: |n| Case {
            pre: "var one = 1;".into(),
            expr: format!("H([{}])", list(n, |i| format!("id({})+one", val(i)))),
            expect: h_of((0..n).map(|i| val(i) + 1)),
        }},
        Family { name: "array-literal-strings", kind: Single, max: mid, top_only: false, build: |n| Case {
            pre: String::new(),
            expr: format!("HS([{}].join(''))", list(n, |i| format!("'s{}'", i))),
            expect: hs_of(&(0..n).map(|i| format!("s{}", i)).collect::<String>()),
        }},
        Family { name: "array-literal-nested", kind: Single, max: mid, top_only: false, build: |n| Case {
            pre: String::new(),
            expr: format!("H([{}].map(function(p){{ return p[0] + p[1][0]; }}))", list(n, |i| format!("[{},[{}]]", val(i), i % 5))),
            expect: h_of((0..n).map(|i| val(i) + (i % 5) as u64)),
        }},
        Family { name: "array-literal-holes", kind: Single, max: mid, top_only: false, build: |n| Case {
            pre: String::new(),
            expr: format!("(function(a){{ return a.length + ':' + a[a.length - 1] + ':' + a[0]; }})([{}5])", ",".repeat(n)),
            expect: format!("{}:5:{}", n + 1, if n == 0 { "5" } else { "undefined" }),
        }},
        Family { name: "array-literal-objects", kind: Single, max: mid, top_only: false, build: |n| Case {
            pre: String::new(),
            expr: format!("H([{}].map(function(o){{ return o.a; }}))", list(n, |i| format!("{{a:{}}}", val(i)))),
            expect: h_of((0..n).map(val)),
        }},
        Family { name: "array-spreads", kind: Single, max: mid, top_only: false, build: |n| Case {
            pre: "var two = [4, 9];".into(),
            expr: format!("H([{}])", list(n, |_| "...two".to_string())),
            expect: h_of((0..2 * n).map(|i| if i % 2 == 0 { 4 } else { 9 })),
        }},
        Family { name: "object-literal", kind: Single, max: reg, top_only: false, build: |n| Case {
            pre: "function HO(o){ var ks = Object.keys(o); var s = 7; for (var i = 0; i < ks.length; i++) { s = (s * 31 + o[ks[i]] + ks[i].length) % M; } return ks.length + ':' + s; }".into(),
            expr: format!("HO({{{}}})", list(n, |i| format!("k{}:{}", i, val(i)))),
            expect: h_of((0..n).map(|i| val(i) + format!("k{}", i).len() as u64)),
        }},
        Family { name: "object-literal-computed", kind: Single, max: mid, top_only: false, build: |n| Case {
            pre: "var pk = 'q'; function HO(o){ var ks = Object.keys(o); var s = 7; for (var i = 0; i < ks.length; i++) { s = (s * 31 + o[ks[i]] + ks[i].length) % M; } return ks.length + ':' + s; }".into(),
            expr: format!("HO({{{}}})", list(n, |i| format!("[pk+{}]:{}", i, val(i)))),
            expect: h_of((0..n).map(|i| val(i) + format!("q{}", i).len() as u64)),
        }},
        Family { name: "object-literal-methods", kind: Single, max: small, top_only: false, build: |n| Case {
            pre: String::new(),
            expr: format!("(function(o){{ var s = 7; for (var k in o) {{ s = (s * 31 + o[k](1)) % M; }} return s; }})({{{}}})", list(n, |i| format!("m{}(a){{ return a + {}; }}", i, val(i)))),
            expect: fold(n, |i| val(i) + 1).to_string(),
        }},
        Family { name: "object-literal-getters", kind: Single, max: small, top_only: false, build: |n| Case {
            pre: String::new(),
            expr: format!("(function(o){{ var s = 7; for (var k in o) {{ s = (s * 31 + o[k]) % M; }} return s; }})({{{}}})", list(n, |i| format!("get g{}(){{ return {}; }}", i, val(i)))),
            expect: fold(n, val).to_string(),
        }},
        Family { name: "object-literal-spreads", kind: Single, max: mid, top_only: false, build: |n| Case {
            pre: "var src = {a: 1, b: 2};".into(),
            expr: format!("(function(o){{ return Object.keys(o).join() + o.a + o.b; }})({{{}}})", list(n, |_| "...src".to_string())),
            expect: if n == 0 { "undefinedundefined".into() } else { "a,b12".into() },
        }},
        Family { name: "call-args", kind: Single, max: reg, top_only: false, build: |n| Case {
            pre: String::new(),
            expr: format!("cnt({})", list(n, |i| val(i).to_string())),
            expect: h_of((0..n).map(val)),
        }},
        Family { name: "call-args-exprs", kind: Single, max: mid, top_only: false, build: |n| Case {
            pre: "var one = 1;".into(),
            expr: format!("cnt({})", list(n, |i| format!("id({})+one", val(i)))),
            expect: h_of((0..n).map(|i| val(i) + 1)),
        }},
        Family { name: "method-call-args", kind: Single, max: mid, top_only: false, build: |n| Case {
            pre: "var obj = { base: 5, m(...r){ return this.base + ':' + H(r); } };".into(),
            expr: format!("obj.m({})", list(n, |i| val(i).to_string())),
            expect: format!("5:{}", h_of((0..n).map(val))),
        }},
        Family { name: "new-args", kind: Single, max: mid, top_only: false, build: |n| Case {
            pre: "class NK { constructor(...r){ this.h = H(r); } }".into(),
            expr: format!("new NK({}).h", list(n, |i| val(i).to_string())),
            expect: h_of((0..n).map(val)),
        }},
        Family { name: "optional-call-args", kind: Single, max: mid, top_only: false, build: |n| Case {
            pre: String::new(),
            expr: format!("cnt?.({})", list(n, |i| val(i).to_string())),
            expect: h_of((0..n).map(val)),
        }},
        Family { name: "call-spread-args", kind: Single, max: mid, top_only: false, build: |n| Case {
            pre: "var two = [4, 9];".into(),
            expr: format!("cnt({})", list(n, |_| "...two".to_string())),
            expect: h_of((0..2 * n).map(|i| if i % 2 == 0 { 4 } else { 9 })),
        }},
        Family { name: "params", kind: Single, max: reg, top_only: false, build: |n| Case {
            pre: format!("function P({}){{ var s = 7;\n{} return arguments.length + ':' + s; }}", list(n, |i| format!("a{}", i)), seq(n, |i| step_stmt(format!("a{}", i)))),
            expr: format!("P.apply(null, mkArr({}))", n),
            expect: h_of((0..n).map(val)),
        }},
        Family { name: "params-defaults", kind: Single, max: mid, top_only: false, build: |n| Case {
            pre: format!("function PD({}){{ var s = 7;\n{} return s; }}", list(n, |i| format!("a{}={}", i, val(i))), seq(n, |i| step_stmt(format!("a{}", i)))),
            expr: "PD()".into(),
            expect: fold(n, val).to_string(),
        }},
        Family { name: "params-arrow", kind: Single, max: mid, top_only: false, build: |n| Case {
            pre: format!("var PA = ({}) => a0 + ':' + a{};", list(n.max(1), |i| format!("a{}", i)), n.max(1) - 1),
            expr: format!("PA.apply(null, mkArr({}))", n.max(1)),
            expect: format!("{}:{}", val(0), val(n.max(1) - 1)),
        }},
        Family { name: "params-rest-after-many", kind: Single, max: mid, top_only: false, build: |n| Case {
            pre: format!("function PR({}...rest){{ return rest.length + ':' + rest[0]; }}", (0..n).map(|i| format!("a{},", i)).collect::<String>()),
            expr: format!("PR.apply(null, mkArr({}))", n + 2),
            expect: format!("2:{}", val(n)),
        }},
        Family { name: "params-destructured", kind: Single, max: small, top_only: false, build: |n| Case {
            pre: format!("function PX([{}]){{ return a0 + ':' + a{}; }}", list(n.max(1), |i| format!("a{}", i)), n.max(1) - 1),
            expr: format!("PX(mkArr({}))", n.max(1)),
            expect: format!("{}:{}", val(0), val(n.max(1) - 1)),
        }},
        Family { name: "template-literal", kind: Single, max: reg, top_only: false, build: |n| Case {
            pre: "var tv = 5;".into(),
            expr: format!("HS(`{}`)", (0..n).map(|i| format!("${{tv}}{}", (b'a' + (i % 26) as u8) as char)).collect::<String>()),
            expect: hs_of(&(0..n).map(|i| format!("5{}", (b'a' + (i % 26) as u8) as char)).collect::<String>()),
        }},
        Family { name: "tagged-template", kind: Single, max: mid, top_only: false, build: |n| Case {
            pre: "var tv = 5; function tg(s, ...v){ return s.length + ':' + H(v) + ':' + s[s.length - 1]; }".into(),
            expr: format!("tg`{}z`", (0..n).map(|i| format!("x${{tv+{}}}", i % 7)).collect::<String>()),
            expect: format!("{}:{}:z", n + 1, h_of((0..n).map(|i| 5 + (i % 7) as u64))),
        }},
        Family { name: "switch-cases", kind: Single, max: big, top_only: false, build: |n| Case {
            pre: format!("function SW(x){{ switch (x) {{\n{} default: return -1; }} }}", seq(n, |i| format!("case {}: return {};", i, val(i) + 1))),
            expr: format!("SW(0) + ':' + SW({}) + ':' + SW({}) + ':' + SW({})", n / 2, n.saturating_sub(1), n),
            expect: {
                let f = |x: usize| if x < n { (val(x) + 1).to_string() } else { "-1".to_string() };
                format!("{}:{}:{}:-1", f(0), f(n / 2), f(n.saturating_sub(1)))
            },
        }},
        Family { name: "switch-fallthrough", kind: Single, max: big, top_only: false, build: |n| Case {
            pre: format!("function SF(x){{ var c = 0; switch (x) {{\n{} default: c += 1000000; }} return c; }}", seq(n, |i| format!("case {}: c += 1;", i))),
            expr: format!("SF(0) + ':' + SF({}) + ':' + SF({})", n / 2, n),
            expect: format!("{}:{}:{}", if n > 0 { 1_000_000 + n } else { 1_000_000 }, if n / 2 < n { 1_000_000 + n - n / 2 } else { 1_000_000 }, 1_000_000),
        }},
        Family { name: "switch-string-cases", kind: Single, max: mid, top_only: false, build: |n| Case {
            pre: format!("function SS(x){{ switch (x) {{\n{} }} return 'none'; }}", seq(n, |i| format!("case 'c{}': return 'v{}';", i, i))),
            expr: format!("SS('c0') + SS('c{}') + SS('zz')", n.saturating_sub(1)),
            expect: if n == 0 { "nonenonenone".into() } else { format!("v0v{}none", n - 1) },
        }},
        Family { name: "statement-sequence", kind: Sequence, max: big, top_only: false, build: |n| Case {
            pre: format!("var s = 7;\n{}", seq(n, |i| step_stmt(val(i)))),
            expr: "s".into(),
            expect: fold(n, val).to_string(),
        }},
        Family { name: "call-statement-sequence", kind: Sequence, max: big, top_only: false, build: |n| Case {
            pre: format!("var s = 7; var t = function(a, b){{ s = (s * 31 + a + b) % M; }};\n{}", seq(n, |i| format!("t({}, 1);", val(i)))),
            expr: "s".into(),
            expect: fold(n, |i| val(i) + 1).to_string(),
        }},
        Family { name: "call3-statement-sequence", kind: Sequence, max: mid, top_only: false, build: |n| Case {
            pre: format!("var s = 7; var t = function(a, b, c){{ s = (s * 31 + a + b + c) % M; }};\n{}", seq(n, |i| format!("t({}, id(1), [2][0]);", val(i)))),
            expr: "s".into(),
            expect: fold(n, |i| val(i) + 3).to_string(),
        }},
        Family { name: "method-call-statement-sequence", kind: Sequence, max: big, top_only: false, build: |n| Case {
            pre: format!("var acc = {{ s: 7, add(a, b){{ this.s = (this.s * 31 + a + b) % M; }} }};\n{}", seq(n, |i| format!("acc.add({}, 2);", val(i)))),
            expr: "acc.s".into(),
            expect: fold(n, |i| val(i) + 2).to_string(),
        }},
        Family { name: "new-statement-sequence", kind: Sequence, max: mid, top_only: false, build: |n| Case {
            pre: format!("var s = 7; class NS {{ constructor(a, b){{ s = (s * 31 + a + b) % M; }} }}\n{}", seq(n, |i| format!("new NS({}, 3);", val(i)))),
            expr: "s".into(),
            expect: fold(n, |i| val(i) + 3).to_string(),
        }},
        Family { name: "var-declaration-sequence", kind: Sequence, max: big, top_only: false, build: |n| Case {
            pre: seq(n.max(1), |i| format!("var v{} = {};", i, val(i))),
            expr: format!("v0 + ':' + v{} + ':' + v{}", n.max(1) / 2, n.max(1) - 1),
            expect: format!("{}:{}:{}", val(0), val(n.max(1) / 2), val(n.max(1) - 1)),
        }},
        Family { name: "let-declaration-sequence", kind: Sequence, max: big, top_only: false, build: |n| Case {
            pre: seq(n.max(1), |i| format!("let w{} = {};", i, val(i))),
            expr: format!("w0 + ':' + w{} + ':' + w{}", n.max(1) / 2, n.max(1) - 1),
            expect: format!("{}:{}:{}", val(0), val(n.max(1) / 2), val(n.max(1) - 1)),
        }},
        Family { name: "var-declaration-list", kind: Single, max: mid, top_only: false, build: |n| Case {
            pre: format!("var {};", list(n.max(1), |i| format!("u{}={}", i, val(i)))),
            expr: format!("u0 + ':' + u{}", n.max(1) - 1),
            expect: format!("{}:{}", val(0), val(n.max(1) - 1)),
        }},
        Family { name: "closure-sequence", kind: Sequence, max: mid, top_only: false, build: |n| Case {
            pre: format!("var fs = [];\n{}", seq(n, |i| format!("fs.push(function(){{ return {}; }});", val(i)))),
            expr: "H(fs.map(function(f){ return f(); }))".into(),
            expect: h_of((0..n).map(val)),
        }},
        Family { name: "arrow-sequence", kind: Sequence, max: mid, top_only: false, build: |n| Case {
            pre: format!("var fs = []; var cap = 1;\n{}", seq(n, |i| format!("fs.push(x => x + cap + {});", val(i)))),
            expr: "H(fs.map(function(f){ return f(1); }))".into(),
            expect: h_of((0..n).map(|i| val(i) + 2)),
        }},
        Family { name: "function-declaration-sequence", kind: Sequence, max: mid, top_only: false, build: |n| Case {
            pre: seq(n.max(1), |i| format!("function fd{}(a){{ return a + {}; }}", i, val(i))),
            expr: format!("fd0(1) + ':' + fd{}(1) + ':' + fd{}(1)", n.max(1) / 2, n.max(1) - 1),
            expect: format!("{}:{}:{}", val(0) + 1, val(n.max(1) / 2) + 1, val(n.max(1) - 1) + 1),
        }},
        Family { name: "class-declaration-sequence", kind: Sequence, max: small, top_only: false, build: |n| Case {
            pre: seq(n.max(1), |i| format!("class CK{} {{ constructor(){{ this.v = {}; }} m(){{ return this.v + 1; }} }}", i, val(i))),
            expr: format!("new CK0().m() + ':' + new CK{}().m()", n.max(1) - 1),
            expect: format!("{}:{}", val(0) + 1, val(n.max(1) - 1) + 1),
        }},
        Family { name: "string-constant-sequence", kind: Sequence, max: big, top_only: false, build: |n| Case {
            pre: format!("var s = 7;\n{}", seq(n, |i| format!("s = (s * 31 + 'k{}'.length) % M;", i))),
            expr: "s".into(),
            expect: fold(n, |i| format!("k{}", i).len() as u64).to_string(),
        }},
        Family { name: "number-constant-sequence", kind: Sequence, max: big, top_only: false, build: |n| Case {
            pre: format!("var s = 7;\n{}", seq(n, |i| step_stmt(i + 200_000))),
            expr: "s".into(),
            expect: fold(n, |i| (i + 200_000) as u64).to_string(),
        }},
        Family { name: "property-name-sequence", kind: Sequence, max: big, top_only: false, build: |n| Case {
            pre: format!("var po = {{}};\n{}", seq(n.max(1), |i| format!("po.p{} = {};", i, val(i)))),
            expr: format!("Object.keys(po).length + ':' + po.p0 + ':' + po.p{}", n.max(1) - 1),
            expect: format!("{}:{}:{}", n.max(1), val(0), val(n.max(1) - 1)),
        }},
        Family { name: "nested-blocks", kind: Single, max: (600, 2000), top_only: false, build: |n| Case {
            pre: format!("var nb = 0;\n{} nb = b0 + b{}; {}", (0..n.max(1)).map(|i| format!("{{ let b{} = {};", i, val(i))).collect::<String>(), n.max(1) - 1, "}".repeat(n.max(1))),
            expr: "nb".into(),
            expect: (val(0) + val(n.max(1) - 1)).to_string(),
        }},
        Family { name: "nested-functions", kind: Single, max: (600, 2000), top_only: false, build: |n| Case {
            pre: format!("var nf = {} 1 {};", (0..n).map(|i| format!("(function(){{ var d{} = {}; return d{} +", i, i % 3, i)).collect::<String>(), "})()".repeat(n)),
            expr: "nf".into(),
            expect: (1 + (0..n).map(|i| i % 3).sum::<usize>()).to_string(),
        }},
        Family { name: "string-literal-length", kind: Single, max: big, top_only: false, build: |n| Case {
            pre: String::new(),
            expr: format!("HS('{}')", (0..n).map(|i| (b'a' + (i % 26) as u8) as char).collect::<String>()),
            expect: hs_of(&(0..n).map(|i| (b'a' + (i % 26) as u8) as char).collect::<String>()),
        }},
        Family { name: "runtime-string-length", kind: Single, max: big, top_only: false, build: |n| Case {
            pre: String::new(),
            expr: format!("(function(t){{ return t.length + ':' + t.charAt(t.length - 1) + ':' + t.slice(-3) + ':' + t.indexOf('b', t.length - 2); }})('ab'.repeat({}) + 'c')", n),
            expect: format!("{}:c:{}:{}", 2 * n + 1, if n == 0 { "c".to_string() } else { "abc".to_string() }, if n == 0 { -1 } else { 2 * n as i64 - 1 }),
        }},
        Family { name: "runtime-array-length", kind: Single, max: big, top_only: false, build: |n| Case {
            pre: String::new(),
            expr: format!("(function(a){{ a.push(4); var b = a.concat([5]).slice(1); return a.length + ':' + b.length + ':' + b[b.length - 1] + ':' + a.indexOf(4) + ':' + a.join('').length; }})(new Array({}).fill(1))", n),
            expect: format!("{}:{}:5:{}:{}", n + 1, n + 1, n, n + 1),
        }},
        Family { name: "loop-body-length", kind: Sequence, max: big, top_only: false, build: |n| Case {
            pre: format!("var s = 7;\nfor (var k = 0; k < 2; k++) {{\n{}}}", seq(n, |i| step_stmt(val(i)))),
            expr: "s + ':' + k".into(),
            expect: format!("{}:2", { let mut s = 7u64; for _ in 0..2 { for i in 0..n { s = (s * 31 + val(i)) % M; } } s }),
        }},
        Family { name: "while-break-body-length", kind: Sequence, max: big, top_only: false, build: |n| Case {
            pre: format!("var s = 7; var g = 0;\nwhile (true) {{\nif (g === 2) {{ break; }}\ng++;\n{}\nif (g === 1) {{ continue; }}\ns = s + 1;\n}}", seq(n, |i| step_stmt(val(i)))),
            expr: "s + ':' + g".into(),
            expect: format!("{}:2", { let mut s = 7u64; for r in 0..2 { for i in 0..n { s = (s * 31 + val(i)) % M; } if r == 1 { s += 1; } } s }),
        }},
        Family { name: "if-else-body-length", kind: Sequence, max: big, top_only: false, build: |n| Case {
            pre: format!("var s = 7;\nif (id(0)) {{\n{}}} else {{ s = s + 1000; }}\nif (id(1)) {{\n{}}} else {{ s = -5; }}", seq(n, |i| step_stmt(val(i))), seq(n, |i| step_stmt(val(i) + 1))),
            expr: "s".into(),
            expect: { let mut s = 1007u64; for i in 0..n { s = (s * 31 + val(i) + 1) % M; } s.to_string() },
        }},
        Family { name: "try-body-length-throw", kind: Sequence, max: big, top_only: false, build: |n| Case {
            pre: format!("var s = 7; var fin = 0;\ntry {{\n{} throw 5; }} catch (e) {{ s = s + e; }} finally {{ fin = 1; }}", seq(n, |i| step_stmt(val(i)))),
            expr: "s + ':' + fin".into(),
            expect: format!("{}:1", fold(n, val) + 5),
        }},
        Family { name: "try-after-long-prefix", kind: Sequence, max: big, top_only: false, build: |n| Case {
            pre: format!("var s = 7; var once = 0;\n{}\ntry {{ if (once === 0) {{ once = 1; throw 9; }} s = -1; }} catch (e) {{ s = s + e; }}\ntry {{ s = s + 1; }} finally {{ s = s + 2; }}", seq(n, |i| step_stmt(val(i)))),
            expr: "s + ':' + once".into(),
            expect: format!("{}:1", fold(n, val) + 12),
        }},
        Family { name: "try-statement-sequence", kind: Sequence, max: mid, top_only: false, build: |n| Case {
            pre: format!("var s = 7;\n{}", seq(n, |i| format!("try {{ throw {}; }} catch (e) {{ s = (s * 31 + e) % M; }}", val(i)))),
            expr: "s".into(),
            expect: fold(n, val).to_string(),
        }},
        Family { name: "function-body-length-return", kind: Sequence, max: big, top_only: false, build: |n| Case {
            pre: format!("function FB(q){{ var s = 7; if (q) {{ return -1; }}\n{} return s; }}", seq(n, |i| step_stmt(val(i)))),
            expr: "FB(0) + ':' + FB(1)".into(),
            expect: format!("{}:-1", fold(n, val)),
        }},
        Family { name: "labeled-continue-body-length", kind: Sequence, max: mid, top_only: false, build: |n| Case {
            pre: format!("var s = 7;\nouter: for (var a = 0; a < 2; a++) {{ for (var b = 0; b < 2; b++) {{\n{} if (b === 0) {{ continue outer; }} s = -1; }} }}", seq(n, |i| step_stmt(val(i)))),
            expr: "s".into(),
            expect: { let mut s = 7u64; for _ in 0..2 { for i in 0..n { s = (s * 31 + val(i)) % M; } } s.to_string() },
        }},
        Family { name: "conditional-arm-length", kind: Single, max: mid, top_only: false, build: |n| Case {
            pre: String::new(),
            expr: format!("(id(0) ? H([{}]) : 'else') + (id(1) ? 'then' : H([{}]))", list(n, |i| val(i).to_string()), list(n, |i| val(i).to_string())),
            expect: "elsethen".into(),
        }},
        Family { name: "binary-chain", kind: Single, max: mid, top_only: false, build: |n| Case {
            pre: String::new(),
            expr: format!("(id(1){})", " + 1".repeat(n)),
            expect: (n + 1).to_string(),
        }},
        Family { name: "binary-chain-mixed", kind: Single, max: mid, top_only: false, build: |n| Case {
            pre: String::new(),
            expr: format!("(id(1){})", " * 1 + 2 - 1".repeat(n)),
            expect: (n + 1).to_string(),
        }},
        Family { name: "string-concat-chain", kind: Single, max: mid, top_only: false, build: |n| Case {
            pre: String::new(),
            expr: format!("HS(''{})", (0..n).map(|i| format!(" + '{}'", (b'a' + (i % 26) as u8) as char)).collect::<String>()),
            expect: hs_of(&(0..n).map(|i| (b'a' + (i % 26) as u8) as char).collect::<String>()),
        }},
        Family { name: "logical-chain", kind: Single, max: mid, top_only: false, build: |n| Case {
            pre: String::new(),
            expr: format!("(id(0){} || 'end') + (id(1){} && 'and')", " || 0".repeat(n), " && 1".repeat(n)),
            expect: "endand".into(),
        }},
        Family { name: "comma-sequence", kind: Single, max: mid, top_only: false, build: |n| Case {
            pre: "var cs = 0;".into(),
            expr: format!("({}cs)", "cs = cs + 1, ".repeat(n)),
            expect: n.to_string(),
        }},
        Family { name: "conditional-chain", kind: Single, max: (600, 2000), top_only: false, build: |n| Case {
            pre: format!("function CC(x){{ return {}-1; }}", (0..n).map(|i| format!("x === {} ? {} : ", i, val(i))).collect::<String>()),
            expr: format!("CC(0) + ':' + CC({}) + ':' + CC({})", n.saturating_sub(1), n),
            expect: { let f = |x: usize| if x < n { val(x).to_string() } else { "-1".to_string() }; format!("{}:{}:-1", f(0), f(n.saturating_sub(1))) },
        }},
        Family { name: "else-if-chain", kind: Single, max: (600, 2000), top_only: false, build: |n| Case {
            pre: format!("function EI(x){{ var r; {} {{ r = -1; }} return r; }}", (0..n).map(|i| format!("if (x === {}) {{ r = {}; }} else ", i, val(i))).collect::<String>()),
            expr: format!("EI(0) + ':' + EI({}) + ':' + EI({})", n.saturating_sub(1), n),
            expect: { let f = |x: usize| if x < n { val(x).to_string() } else { "-1".to_string() }; format!("{}:{}:-1", f(0), f(n.saturating_sub(1))) },
        }},
        Family { name: "member-chain", kind: Single, max: mid, top_only: false, build: |n| Case {
            pre: "var mo = { v: 42 }; mo.a = mo;".into(),
            expr: format!("mo{}.v", ".a".repeat(n)),
            expect: "42".into(),
        }},
        Family { name: "optional-member-chain", kind: Single, max: mid, top_only: false, build: |n| Case {
            pre: "var mo = { v: 42 }; mo.a = mo;".into(),
            expr: format!("mo{}?.v", "?.a".repeat(n)),
            expect: "42".into(),
        }},
        Family { name: "index-chain", kind: Single, max: mid, top_only: false, build: |n| Case {
            pre: "var ia = [7]; ia[1] = ia;".into(),
            expr: format!("ia{}[0]", "[1]".repeat(n)),
            expect: "7".into(),
        }},
        Family { name: "call-chain", kind: Single, max: mid, top_only: false, build: |n| Case {
            pre: "var calls = 0; var cf = function(){ calls++; return cf; };".into(),
            expr: format!("(cf{} === cf) + ':' + calls", "()".repeat(n)),
            expect: format!("true:{}", n),
        }},
        Family { name: "array-pattern", kind: Single, max: reg, top_only: false, build: |n| Case {
            pre: format!("var [{}] = mkArr({});", list(n.max(1), |i| format!("e{}", i)), n.max(1)),
            expr: format!("e0 + ':' + e{} + ':' + e{}", n.max(1) / 2, n.max(1) - 1),
            expect: format!("{}:{}:{}", val(0), val(n.max(1) / 2), val(n.max(1) - 1)),
        }},
        Family { name: "object-pattern", kind: Single, max: mid, top_only: false, build: |n| Case {
            pre: format!("var opSrc = {{}}; for (var oi = 0; oi < {}; oi++) {{ opSrc['f' + oi] = oi * 2; }}\nvar {{{}}} = opSrc;", n.max(1), list(n.max(1), |i| format!("f{}", i))),
            expr: format!("f0 + ':' + f{}", n.max(1) - 1),
            expect: format!("0:{}", (n.max(1) - 1) * 2),
        }},
        Family { name: "class-methods", kind: Single, max: small, top_only: false, build: |n| Case {
            pre: format!("class CM {{ {} }}", (0..n.max(1)).map(|i| format!("m{}(){{ return {}; }} ", i, val(i))).collect::<String>()),
            expr: format!("(function(o){{ return o.m0() + ':' + o.m{}() + ':' + Object.getOwnPropertyNames(CM.prototype).length; }})(new CM())", n.max(1) - 1),
            expect: format!("{}:{}:{}", val(0), val(n.max(1) - 1), n.max(1) + 1),
        }},
        Family { name: "class-fields", kind: Single, max: small, top_only: false, build: |n| Case {
            pre: format!("class CF {{ {} }}", (0..n.max(1)).map(|i| format!("f{} = {}; ", i, val(i))).collect::<String>()),
            expr: format!("(function(o){{ return o.f0 + ':' + o.f{} + ':' + Object.keys(o).length; }})(new CF())", n.max(1) - 1),
            expect: format!("{}:{}:{}", val(0), val(n.max(1) - 1), n.max(1)),
        }},
        Family { name: "class-static-members", kind: Single, max: small, top_only: false, build: |n| Case {
            pre: format!("class CS {{ {} }}", (0..n.max(1)).map(|i| format!("static s{} = {}; ", i, val(i))).collect::<String>()),
            expr: format!("CS.s0 + ':' + CS.s{}", n.max(1) - 1),
            expect: format!("{}:{}", val(0), val(n.max(1) - 1)),
        }},
        Family { name: "generator-yields", kind: Sequence, max: mid, top_only: false, build: |n| Case {
            pre: format!("function* GY(){{\n{}}}", seq(n, |i| format!("yield {};", val(i)))),
            expr: "H([...GY()])".into(),
            expect: h_of((0..n).map(val)),
        }},
        Family { name: "locals-captured", kind: Sequence, max: mid, top_only: false, build: |n| Case {
            pre: format!("function LC(){{\n{} return function(){{ return c0 + ':' + c{}; }}; }}", seq(n.max(1), |i| format!("let c{} = {};", i, val(i))), n.max(1) - 1),
            expr: "LC()()".into(),
            expect: format!("{}:{}", val(0), val(n.max(1) - 1)),
        }},
        Family { name: "enum-members", kind: Single, max: small, top_only: false, build: |n| Case {
            pre: format!("enum EN {{ {} }}", list(n.max(1), |i| format!("A{}", i))),
            expr: format!("EN.A0 + ':' + EN.A{} + ':' + EN[{}]", n.max(1) - 1, n.max(1) - 1),
            expect: format!("0:{}:A{}", n.max(1) - 1, n.max(1) - 1),
        }},
        Family { name: "regex-literal-length", kind: Single, max: (1100, 5000), top_only: false, build: |n| Case {
            pre: String::new(),
            expr: format!("/^{}$/.test('{}') + ':' + /^{}$/.test('{}b')", "a".repeat(n), "a".repeat(n), "a".repeat(n), "a".repeat(n)),
            expect: "true:false".into(),
        }},
        Family { name: "export-list", kind: Single, max: small, top_only: true, build: |n| Case {
            pre: format!("{}\nexport {{{}}};", seq(n.max(1), |i| format!("const x{} = {};", i, val(i))), list(n.max(1), |i| format!("x{}", i))),
            expr: format!("x0 + ':' + x{}", n.max(1) - 1),
            expect: format!("{}:{}", val(0), val(n.max(1) - 1)),
        }},
    ]
}

// ───────────────────────────── contexts ─────────────────────────────

const CONTEXTS: &[&str] = &["top", "fn", "method", "gen"];

/// Wrap a case into a full program whose completion value must be "11|<expect>|22|3|4".
fn program(case: &Case, ctx_name: &str) -> String {
    let body = format!(
        "var before = 3;\n{}\nvar res = id(11) + '|' + ({}) + '|' + id(22);\nvar after = 4;\n",
        case.pre, case.expr
    );
    match ctx_name {
        "top" => format!("{}\n{}\nres + '|' + before + '|' + after", HELPERS, body),
        "fn" => format!(
            "{}\nfunction wrap(p, q){{\nvar l1 = p + 1;\n{}\nvar l2 = q + 1;\nreturn res + '|' + before + '|' + after + '|' + l1 + '|' + l2 + '|' + p + '|' + q;\n}}\nwrap(5, 6)",
            HELPERS, body
        ),
        "method" => format!(
            "{}\nclass Wrap {{ constructor(){{ this.t = 8; }} run(p){{\nvar l1 = p + 1;\n{}\nreturn res + '|' + before + '|' + after + '|' + l1 + '|' + this.t;\n}} }}\nnew Wrap().run(5)",
            HELPERS, body
        ),
        "gen" => format!(
            "{}\nfunction* wrapg(p){{\nvar l1 = p + 1;\nyield 1;\n{}\nyield res + '|' + before + '|' + after + '|' + l1;\n}}\nvar it = wrapg(5); it.next(); it.next().value",
            HELPERS, body
        ),
        _ => unreachable!(),
    }
}

fn expected(case: &Case, ctx_name: &str) -> String {
    let core = format!("11|{}|22|3|4", case.expect);
    match ctx_name {
        "top" => core,
        "fn" => format!("{}|6|7|5|6", core),
        "method" => format!("{}|6|8", core),
        "gen" => format!("{}|6", core),
        _ => unreachable!(),
    }
}

// ───────────────────────────── sizes ─────────────────────────────

fn sizes(ctx: &Ctx, fam: &Family, ctx_name: &str) -> Vec<usize> {
    let max = if ctx.thorough() { fam.max.1 } else { fam.max.0 };
    // nested contexts explore the register-relevant range only (cost)
    let max = if ctx_name == "top" || ctx_name == "fn" { max } else { max.min(if ctx.thorough() { 1100 } else { 300 }) };
    let mut v: Vec<usize> = (0..=40).collect();
    for k in 6..=17u32 {
        let p = 1usize << k;
        for d in [-2i64, -1, 0, 1, 2] {
            v.push((p as i64 + d) as usize);
        }
    }
    v.extend([100, 120, 125, 126, 130, 131, 135, 140, 150, 170, 200, 250, 251, 252, 253, 254, 255, 256, 257, 258, 259, 260, 300, 400, 509, 510, 511, 512, 513, 514, 600, 800, 1000, 1100]);
    v.extend([1500, 2000, 3000, 5000, 8000, 10_000, 16_000, 20_000, 30_000, 40_000, 50_000, 60_000, 65_530, 65_531, 65_532, 65_533, 65_534, 65_535, 65_536, 65_537, 65_538, 65_539, 65_540, 70_000]);
    if !ctx.thorough() {
        // quick: dense below 300, boundaries only above
        v.retain(|n| *n <= 300 || [511, 512, 513, 1000, 1023, 1024, 1025, 1100].contains(n));
    }
    v.retain(|n| *n <= max);
    v.sort();
    v.dedup();
    v
}

/// quick tier: a few families are followed to the 16-bit widths as well
fn quick_big_sizes(fam: &Family, ctx_name: &str) -> Vec<usize> {
    if ctx_name != "top" && ctx_name != "fn" {
        return vec![];
    }
    match fam.name {
        "statement-sequence" | "try-after-long-prefix" | "string-constant-sequence" | "number-constant-sequence" | "switch-cases" | "loop-body-length" | "try-body-length-throw"
        | "if-else-body-length" | "function-body-length-return" | "property-name-sequence" | "call-statement-sequence" | "while-break-body-length" => {
            if ctx_name == "top" { vec![16_384, 17_000, 32_769, 65_535, 65_536, 65_537, 70_000] } else { vec![16_385, 65_536, 70_000] }
        }
        "array-literal" | "string-literal-length" | "runtime-array-length" | "runtime-string-length" | "try-statement-sequence" | "var-declaration-sequence" => {
            if ctx_name == "top" { vec![6000, 65_536, 70_000] } else { vec![] }
        }
        _ => vec![],
    }
}

// ───────────────────────────── running ─────────────────────────────

fn is_limit_message(class: &str, msg: &str) -> bool {
    let m = msg.to_lowercase();
    let _ = class;
    m.contains("too many") || m.contains("too deep") || m.contains("too large") || m.contains("limit") || m.contains("exceed") || m.contains("nesting") || m.contains("maximum")
}

fn budget_for(n: usize) -> u64 {
    3_000_000 + 600 * n as u64
}

/// Classify one child answer (kind, value, class, msg, steps) against the expectation.
fn classify(f: &[&str], expect: &str, n: usize) -> (String, String) {
    let (kind, value, class, msg, steps) = (f[0], f[1], f[2], f[3], f[4].parse::<u64>().unwrap_or(1));
    match kind {
        "value" => {
            if value == expect {
                ("ok".into(), String::new())
            } else {
                ("wrong-value".into(), format!("got {} expected {}", truncate(value, 120), truncate(expect, 120)))
            }
        }
        "error" if steps == 0 => {
            if is_limit_message(class, msg) {
                ("refused".into(), format!("{}: {}", class, msg))
            } else {
                ("refused-without-limit".into(), format!("{}: {}", class, msg))
            }
        }
        "error" => ("runtime-error".into(), format!("{}: {} after {} steps", class, truncate(msg, 100), steps)),
        "limit" => ("step-budget".into(), format!("no completion within {} steps", budget_for(n))),
        other => ("bad-outcome".into(), format!("{} {}", other, truncate(value, 80))),
    }
}

/// Run the members `ns` of one (family, context) in ONE forked child (a fresh interpreter per
/// member); when the child dies, the member it died in gets the crash verdict and the rest
/// continues in a new child. Returns (n, verdict, detail) per member.
fn run_members(fam: &Family, ctx_name: &'static str, ns: &[usize]) -> Vec<(usize, String, String)> {
    let mut out = Vec::new();
    let mut rest: Vec<usize> = ns.to_vec();
    while !rest.is_empty() {
        let module = fam.top_only;
        let build = fam.build;
        let todo = rest.clone();
        let lim = Limits { wall: std::time::Duration::from_secs(240), address_space: 6 << 30, stack: 0 };
        let exit = isolate::run(&lim, move || {
            for n in &todo {
                let case = build(*n);
                let src = program(&case, ctx_name);
                let cfg = RunConfig { max_steps: budget_for(*n), module_path: if module { Some("/app/main.ts".into()) } else { None }, ..Default::default() };
                isolate::emit(&format!("S{}\u{3}", n));
                let o = runner::run_fresh(&src, &cfg);
                isolate::emit(&format!("R{}\u{2}{}\u{2}{}\u{2}{}\u{2}{}\u{2}{}\u{3}", n, o.kind, o.value, o.error_class, o.error_msg, o.steps));
            }
            String::new()
        });
        let (text, death): (String, Option<(String, String)>) = match exit {
            Exit::Ok(t) => (t, None),
            Exit::Status(c, t) => {
                let d = if t.contains("\u{1}PANIC") {
                    ("panic".to_string(), truncate(t.split("\u{1}PANIC ").nth(1).unwrap_or(""), 160))
                } else {
                    ("crash".to_string(), format!("exit status {}", c))
                };
                (t, Some(d))
            }
            Exit::Signal(sg, t) => (t, Some(("crash".to_string(), isolate::signal_name(sg).to_string()))),
            Exit::Timeout(t) => (t, Some(("inconclusive".to_string(), "wall-clock watchdog".to_string()))),
        };
        let mut started: Option<usize> = None;
        let mut done = 0usize;
        for rec in text.split('\u{3}') {
            if let Some(x) = rec.strip_prefix('S') {
                started = x.parse().ok();
            } else if let Some(x) = rec.strip_prefix('R') {
                let f: Vec<&str> = x.split('\u{2}').collect();
                if f.len() >= 6
                    && let Ok(n) = f[0].parse::<usize>()
                {
                    let case = (fam.build)(n);
                    let (v, d) = classify(&f[1..], &expected(&case, ctx_name), n);
                    out.push((n, v, d));
                    done += 1;
                    started = None;
                }
            }
        }
        match death {
            None => break,
            Some((v, d)) => {
                // the member that was running when the child died
                let culprit = started.unwrap_or_else(|| rest[done.min(rest.len() - 1)]);
                out.push((culprit, v, d));
                let pos = rest.iter().position(|x| *x == culprit).unwrap_or(done);
                rest = rest[(pos + 1).min(rest.len())..].to_vec();
            }
        }
    }
    out
}

fn judge_all(r: &mut UnitResult, fam: &Family, ctx_name: &'static str, ns: &[usize]) {
    for (n, verdict, detail) in run_members(fam, ctx_name, ns) {
        r.evaluations += 1;
        let case_json = json!({"family": fam.name, "context": ctx_name, "n": n});
        match verdict.as_str() {
            "ok" => {
                r.nontrivial += 1;
                r.stat("accepted_and_correct", 1);
                r.stat("max_size_accepted_and_correct", n as i64);
            }
            "refused" => {
                r.nontrivial += 1;
                if fam.kind == Kind::Sequence {
                    r.violate(
                        format!("cumulative-refusal|{}|{}|{}", fam.name, ctx_name, n),
                        format!("{} in context {} at n={}: a sequence of parts that are each accepted alone is refused ({}) — a cumulative limit", fam.name, ctx_name, n, detail),
                        case_json,
                    );
                } else {
                    r.stat("refused_with_explicit_limit", 1);
                    r.stat(&format!("min_refused.{}.{}", fam.name, ctx_name), n as i64);
                }
            }
            "inconclusive" => {
                r.inconclusive += 1;
                r.note(format!("{} {} n={}: {}", fam.name, ctx_name, n, detail));
            }
            other => {
                r.nontrivial += 1;
                r.violate(
                    format!("{}|{}|{}|{}", other, fam.name, ctx_name, n),
                    format!("{} in context {} at n={}: {}: {}", fam.name, ctx_name, n, other, detail),
                    case_json,
                );
            }
        }
    }
}

fn unit_list(ctx: &Ctx) -> Vec<(usize, &'static str, Vec<usize>)> {
    // (family index, context, sizes); big sizes are split off into their own units so that
    // the expensive members spread over the workers
    let fams = families();
    let mut v = Vec::new();
    for (fi, fam) in fams.iter().enumerate() {
        for c in CONTEXTS {
            if fam.top_only && *c != "top" {
                continue;
            }
            let mut ss = sizes(ctx, fam, c);
            if !ctx.thorough() {
                ss.extend(quick_big_sizes(fam, c).into_iter().filter(|n| *n <= fam.max.1));
                ss.sort();
                ss.dedup();
            }
            let (small, large): (Vec<usize>, Vec<usize>) = ss.into_iter().partition(|n| *n <= 1100);
            if !small.is_empty() {
                v.push((fi, *c, small));
            }
            for chunk in large.chunks(4) {
                v.push((fi, *c, chunk.to_vec()));
            }
        }
    }
    v
}

impl Check for C10 {
    fn units(&self, ctx: &Ctx) -> usize {
        unit_list(ctx).len()
    }

    fn run_unit(&self, ctx: &Ctx, idx: usize) -> UnitResult {
        let mut r = UnitResult::default();
        let fams = families();
        let units = unit_list(ctx);
        let (fi, c, ss) = &units[idx];
        let fam = &fams[*fi];
        judge_all(&mut r, fam, c, ss);
        r.stat("families_x_contexts", if ss.first().is_some_and(|n| *n <= 1100) { 1 } else { 0 });
        if idx % 37 == 0 {
            let case = (fam.build)(3);
            r.sample(json!({"family": fam.name, "context": c, "sizes_run": ss, "member_n3_source": program(&case, c).replace(HELPERS, "/* helpers H, HS, id, cnt, mkArr */"), "member_n3_expected": expected(&case, c)}));
        }
        r
    }

    fn replay(&self, _ctx: &Ctx, case: &Value) -> UnitResult {
        let mut r = UnitResult::default();
        let fams = families();
        let name = case["family"].as_str().unwrap_or("");
        let c = case["context"].as_str().unwrap_or("top");
        let n = case["n"].as_u64().unwrap_or(0) as usize;
        let Some(fam) = fams.iter().find(|f| f.name == name) else { return r };
        let c: &'static str = CONTEXTS.iter().find(|x| **x == c).copied().unwrap_or("top");
        judge_all(&mut r, fam, c, &[n]);
        r
    }
}

/// developer tool: print one member
pub fn show(name: &str, c: &str, n: usize) {
    let fams = families();
    if let Some(fam) = fams.iter().find(|f| f.name == name) {
        let case = (fam.build)(n);
        println!("{}\n// expect: {}", program(&case, c), expected(&case, c));
    }
}
