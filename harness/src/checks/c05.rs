//! C05 — every source text is accepted or rejected cleanly, in bounded time.
//!
//! Inputs run through Parser::parse_program + Compiler::compile_program in forked children
//! (8 MiB stack like a host's main thread). Oracles: child exit status (panic, stack
//! overflow, abort = violation; Ok or Err are both fine) and the H2 work counters
//! (tokens lexed incl. re-lexing, parser advances): for every nesting family the work at
//! depths 2,4,8,... must not grow faster than ~cubically (ratio work(2d)/work(d) > 9 at two
//! consecutive doublings = super-polynomial). Wall-clock never decides.

use super::c01;
use crate::corpus;
use crate::isolate::{self, Exit, Limits};
use crate::util::*;
use serde_json::{Value, json};
use tsrun::compiler::Compiler;
use tsrun::parser::Parser;
use tsrun::string_dict::StringDict;

pub struct C05;

/// front-end only: parse and compile; returns (accepted, tokens, advances)
fn front_end(src: &str) -> (bool, u64, u64) {
    tsrun::verif::reset_thread();
    let mut dict = StringDict::new();
    let ok = {
        let mut p = Parser::new(src, &mut dict);
        match p.parse_program() {
            Ok(prog) => Compiler::compile_program(&prog).is_ok(),
            Err(_) => false,
        }
    };
    let (t, a, _) = tsrun::verif::frontend_work();
    (ok, t, a)
}

// ───────────────────────────── nesting families ─────────────────────────────

/// (name, builder(depth) -> source)
fn nest(name: &str, d: usize) -> String {
    let rep = |s: &str, n: usize| s.repeat(n);
    match name {
        "parens" => format!("{}1{}", rep("(", d), rep(")", d)),
        "brackets" => format!("{}1{}", rep("[", d), rep("]", d)),
        "braces-blocks" => format!("{}{}", rep("{", d), rep("}", d)),
        "object-literals" => format!("x = {}1{}", rep("{a:", d), rep("}", d)),
        "unary-minus" => format!("{}1", rep("- ", d)),
        "unary-not" => format!("{}1", rep("!", d)),
        "typeof-chain" => format!("{}1", rep("typeof ", d)),
        "binary-plus" => format!("1{}", rep(" + 1", d)),
        "binary-mixed" => format!("1{}", rep(" * 2 + 3 - 4 / 5", d / 4 + 1)),
        "exponent-chain" => format!("1{}", rep(" ** 1", d)),
        "conditional-chain" => format!("{}1{}", rep("1 ? ", d), rep(" : 1", d)),
        "conditional-nested-else" => format!("{}1", rep("1 ? 1 : ", d)),
        "logical-chain" => format!("1{}", rep(" && 1 || 1 ?? 1", d / 3 + 1)),
        "arrows" => format!("{}1", rep("x => ", d)),
        "arrows-parens" => format!("{}1", rep("(x) => ", d)),
        "templates" => format!("{}1{}", rep("`${", d), rep("}`", d)),
        "generic-types" => format!("let v: {}number{} = 1;", rep("Array<", d), rep(">", d)),
        "type-unions" => format!("let v: number{} = 1;", rep(" | string", d)),
        "type-arrays" => format!("let v: number{} = 1;", rep("[]", d)),
        "type-parens" => format!("let v: {}number{} = 1;", rep("(", d), rep(")", d)),
        "assign-in-parens" => format!("{}1{}", rep("(a = ", d), rep(")", d)),
        "arrow-or-paren-ambiguity" => format!("{}1{}", rep("(a, ", d), rep(")", d)),
        "call-chain" => format!("f{}", rep("(1)", d)),
        "call-nested" => format!("{}1{}", rep("f(", d), rep(")", d)),
        "member-chain" => format!("a{}", rep(".b", d)),
        "index-chain" => format!("a{}", rep("[0]", d)),
        "optional-chain" => format!("a{}", rep("?.b", d)),
        "new-chain" => format!("{}X", rep("new ", d)),
        "functions" => format!("{}{}", rep("function f(){", d), rep("}", d)),
        "classes" => format!("{}{}", rep("class A { m(){", d), rep("}}", d)),
        "if-nesting" => format!("{}1;", rep("if (1) ", d)),
        "while-nesting" => format!("{}1;", rep("while (0) ", d)),
        "try-nesting" => format!("{}{}", rep("try {", d), rep("} finally {}", d)),
        "labels" => format!("{}1;", (0..d).map(|i| format!("l{}: ", i)).collect::<String>()),
        "array-patterns" => format!("let {}a{} = x;", rep("[", d), rep("]", d)),
        "object-patterns" => format!("let {}a{} = x;", rep("{a: ", d), rep("}", d)),
        "spread-chain" => format!("[{}x]", rep("...", 1).repeat(1) + &rep("...[", d) + &rep("]", d)),
        "comma-sequence" => format!("1{}", rep(", 1", d)),
        "string-concat-literals" => format!("'a'{}", rep(" + 'b'", d)),
        "await-chain" => format!("async function f(){{ {}1; }}", rep("await ", d)),
        "yield-chain" => format!("function* f(){{ {}1; }}", rep("yield ", d)),
        "as-chain" => format!("1{}", rep(" as any", d)),
        "nonnull-chain" => format!("a{}", rep("!", d)),
        "angle-assertions" => format!("{}x", rep("<any>", d)),
        "jsx-like-lt" => format!("a{}", rep(" < b", d)),
        "regex-vs-division" => format!("a{}", rep(" / b / c", d)),
        "long-identifier" => format!("{} = 1", "a".repeat(d)),
        "long-string" => format!("'{}'", "s".repeat(d)),
        "long-number" => format!("{}", "9".repeat(d)),
        "long-comment" => format!("/*{}*/ 1", "c".repeat(d)),
        "many-statements" => rep("a = 1;\n", d),
        "switch-cases" => format!("switch (x) {{ {} }}", (0..d).map(|i| format!("case {}: ", i)).collect::<String>()),
        "wide-array" => format!("x = [{}]", vec!["1"; d].join(",")),
        "wide-array-strings" => format!("x = [{}]", (0..d).map(|i| format!("'s{}'", i)).collect::<Vec<_>>().join(",")),
        "wide-array-holes" => format!("x = [{}]", ",".repeat(d)),
        "wide-call-args" => format!("f({})", vec!["1"; d].join(",")),
        "wide-new-args" => format!("new F({})", vec!["a"; d].join(",")),
        "wide-spread-args" => format!("f({})", vec!["...a"; d].join(",")),
        "wide-object" => format!("x = {{{}}}", (0..d).map(|i| format!("a{}:{}", i, i)).collect::<Vec<_>>().join(",")),
        "wide-object-computed" => format!("x = {{{}}}", (0..d).map(|i| format!("[k+{}]:{}", i, i)).collect::<Vec<_>>().join(",")),
        "wide-params" => format!("function f({}){{}}", (0..d).map(|i| format!("a{}", i)).collect::<Vec<_>>().join(",")),
        "wide-params-defaults" => format!("function f({}){{}}", (0..d).map(|i| format!("a{}={}", i, i)).collect::<Vec<_>>().join(",")),
        "wide-locals" => format!("function f(){{ {} return a0; }}", (0..d).map(|i| format!("let a{}={};", i, i)).collect::<String>()),
        "wide-locals-captured" => format!("function f(){{ {} return () => a0 + a{}; }}", (0..d).map(|i| format!("let a{}={};", i, i)).collect::<String>(), d - 1),
        "wide-template" => format!("x = `{}`", "${a}".repeat(d)),
        "wide-array-pattern" => format!("let [{}] = x;", (0..d).map(|i| format!("a{}", i)).collect::<Vec<_>>().join(",")),
        "wide-object-pattern" => format!("let {{{}}} = x;", (0..d).map(|i| format!("a{}", i)).collect::<Vec<_>>().join(",")),
        "wide-class-members" => format!("class A {{ {} }}", (0..d).map(|i| format!("m{}(){{}} ", i)).collect::<String>()),
        "wide-class-fields" => format!("class A {{ {} }}", (0..d).map(|i| format!("f{} = {}; ", i, i)).collect::<String>()),
        "wide-imports" => format!("import {{{}}} from './m';", (0..d).map(|i| format!("a{}", i)).collect::<Vec<_>>().join(",")),
        "wide-exports" => format!("{} export {{{}}};", (0..d).map(|i| format!("const a{}={};", i, i)).collect::<String>(), (0..d).map(|i| format!("a{}", i)).collect::<Vec<_>>().join(",")),
        "wide-enum" => format!("enum E {{{}}}", (0..d).map(|i| format!("A{}", i)).collect::<Vec<_>>().join(",")),
        "wide-call-of-sums" => format!("f({})", (0..d).map(|i| format!("a{} + b{} * c", i, i)).collect::<Vec<_>>().join(",")),
        "wide-nested-arrays" => format!("x = [{}]", vec!["[1,[2,[3]]]"; d].join(",")),
        "wide-functions" => (0..d).map(|i| format!("function f{}(a){{ return a + {}; }}\n", i, i)).collect::<String>(),
        "wide-var-decl-list" => format!("var {};", (0..d).map(|i| format!("a{}={}", i, i)).collect::<Vec<_>>().join(",")),
        "wide-type-params" => format!("function f<{}>(){{}}", (0..d).map(|i| format!("T{}", i)).collect::<Vec<_>>().join(",")),
        "wide-interface" => format!("interface I {{ {} }}", (0..d).map(|i| format!("a{}: number; ", i)).collect::<String>()),
        "wide-union-literals" => format!("type U = {};", (0..d).map(|i| format!("'{}'", i)).collect::<Vec<_>>().join(" | ")),
        "wide-regex-class" => format!("x = /[{}]/", "a-z".repeat(d)),
        "wide-optional-call-args" => format!("a?.({})", vec!["1"; d].join(",")),
        "wide-tagged-template" => format!("tag`{}`", "${a}x".repeat(d)),
        _ => match name.strip_prefix("wrap:") {
            // "wrap:<prefix>\u{1}<core>\u{1}<suffix>": prefix^d core suffix^d
            Some(spec) => {
                let f: Vec<&str> = spec.split('\u{1}').collect();
                if f.len() == 3 { format!("{}{}{}", rep(f[0], d), f[1], rep(f[2], d)) } else { String::new() }
            }
            None => String::new(),
        },
    }
}

/// speculation points of the grammar (parenthesis that may open arrow parameters, `<` that
/// may open type arguments, `{` that may open a pattern): every opener x every way the
/// construct can end after the nested part
const WRAP_PREFIXES: &[&str] = &["(a = ", "(a, b = ", "({a} = ", "([a] = ", "(a = 1, b = ", "async (a = ", "f((a = ", "x ? (a = ", "(a: number = ", "<T>(a = ", "[a = ", "{ let v = (a = ", "(a = [", "(a = {k: ", "(a = `${"];
const WRAP_SUFFIXES: &[&str] = &[")", ", 0)", ", b.c)", ") + 1", " + 1)", ", ...r)", ", c = 2)", ") => 0", ")!"];

fn wrap_families() -> Vec<String> {
    let mut v = Vec::new();
    for p in WRAP_PREFIXES {
        for s in WRAP_SUFFIXES {
            // close what the prefix opened besides its parenthesis
            let extra_open = match *p {
                "f((a = " => ")",
                "x ? (a = " => " : 0",
                "[a = " => "]",
                "{ let v = (a = " => "; }",
                "(a = [" => "]",
                "(a = {k: " => "}",
                "(a = `${" => "}`",
                _ => "",
            };
            let suffix = match *p {
                "[a = " => extra_open.to_string(),
                "(a = [" | "(a = {k: " | "(a = `${" => format!("{}{}", extra_open, s),
                _ => format!("{}{}", s, extra_open),
            };
            v.push(format!("wrap:{}\u{1}1\u{1}{}", p, suffix));
        }
    }
    v.sort();
    v.dedup();
    v
}

fn all_families() -> Vec<String> {
    let mut v: Vec<String> = FAMILIES.iter().map(|s| s.to_string()).collect();
    v.extend(wrap_families());
    v
}

/// printable family name (the wrap separator is a control character)
fn fam_label(f: &str) -> String {
    f.replace('\u{1}', " \u{2026} ")
}

const FAMILIES: &[&str] = &[
    "parens", "brackets", "braces-blocks", "object-literals", "unary-minus", "unary-not", "typeof-chain", "binary-plus", "binary-mixed",
    "exponent-chain", "conditional-chain", "conditional-nested-else", "logical-chain", "arrows", "arrows-parens", "templates", "generic-types",
    "type-unions", "type-arrays", "type-parens", "assign-in-parens", "arrow-or-paren-ambiguity", "call-chain", "call-nested", "member-chain",
    "index-chain", "optional-chain", "new-chain", "functions", "classes", "if-nesting", "while-nesting", "try-nesting", "labels",
    "array-patterns", "object-patterns", "spread-chain", "comma-sequence", "string-concat-literals", "await-chain", "yield-chain", "as-chain",
    "nonnull-chain", "angle-assertions", "jsx-like-lt", "regex-vs-division", "long-identifier", "long-string", "long-number", "long-comment",
    "many-statements", "switch-cases", "wide-array", "wide-array-strings", "wide-array-holes", "wide-call-args", "wide-new-args", "wide-spread-args",
    "wide-object", "wide-object-computed", "wide-params", "wide-params-defaults", "wide-locals", "wide-locals-captured", "wide-template",
    "wide-array-pattern", "wide-object-pattern", "wide-class-members", "wide-class-fields", "wide-imports", "wide-exports", "wide-enum",
    "wide-call-of-sums", "wide-nested-arrays", "wide-functions", "wide-var-decl-list", "wide-type-params", "wide-interface", "wide-union-literals",
    "wide-regex-class", "wide-optional-call-args", "wide-tagged-template",
];

fn run_one_isolated(src: String, wall: u64) -> Exit {
    let lim = Limits { wall: std::time::Duration::from_secs(wall), address_space: 4 << 30, stack: 8 << 20 };
    isolate::run(&lim, move || {
        // a fixed 8 MiB stack (a host's main-thread default), independent of how the worker was started
        let h = std::thread::Builder::new().stack_size(8 << 20).spawn(move || front_end(&src)).expect("spawn");
        let (ok, t, a) = match h.join() {
            Ok(x) => x,
            Err(p) => std::panic::resume_unwind(p),
        };
        format!("{},{},{}", ok, t, a)
    })
}

fn judge_family(r: &mut UnitResult, fam_raw: &str, max_depth: usize) {
    let label = fam_label(fam_raw);
    let fam: &str = &label;
    let mut prev: Option<(usize, u64)> = None;
    let mut bad_ratios = 0;
    let mut d = 2usize;
    let mut max_ok_depth = 0usize;
    while d <= max_depth {
        let src = nest(fam_raw, d);
        r.evaluations += 1;
        match run_one_isolated(src, 60) {
            Exit::Ok(text) => {
                let f: Vec<&str> = text.split(',').collect();
                let work: u64 = f.get(1).and_then(|x| x.parse::<u64>().ok()).unwrap_or(0) + f.get(2).and_then(|x| x.parse::<u64>().ok()).unwrap_or(0);
                r.nontrivial += 1;
                max_ok_depth = d;
                r.stat("max_frontend_work_units", work as i64);
                if let Some((pd, pw)) = prev
                    && pd * 2 == d
                    && pw > 50
                {
                    let ratio = work as f64 / pw as f64;
                    if ratio > 9.0 {
                        bad_ratios += 1;
                        if bad_ratios >= 2 {
                            r.violate(
                                format!("superpolynomial|{}", fam),
                                format!("nesting family '{}': front-end work grows super-polynomially: {} work units at depth {}, {} at depth {} (x{:.1}), second consecutive doubling above x9", fam, pw, pd, work, d, ratio),
                                json!({"family": fam_raw, "depth": d}),
                            );
                            break;
                        }
                    } else {
                        bad_ratios = 0;
                    }
                }
                prev = Some((d, work));
                if work > 30_000_000 {
                    break; // enough evidence; deeper members only cost time
                }
            }
            Exit::Signal(s, _) => {
                r.nontrivial += 1;
                r.violate(
                    // beyond 20000 links the exact depth at which the native stack runs out depends on the build
                    format!("crash|{}|{}{}", fam, isolate::signal_name(s), if d > 20_000 { "|depth>20000" } else { "" }),
                    format!("nesting family '{}' at depth {} ({} bytes): process killed by {} (native stack overflow / abort); deepest member handled cleanly: {}", fam, d, nest(fam_raw, d).len(), isolate::signal_name(s), max_ok_depth),
                    json!({"family": fam_raw, "depth": d}),
                );
                break;
            }
            Exit::Status(c, t) => {
                r.nontrivial += 1;
                let msg = t.find("\u{1}PANIC").map(|i| truncate(&t[i + 7..], 120)).unwrap_or_default();
                r.violate(
                    format!("panic|{}|{}", fam, truncate(&msg, 40)),
                    format!("nesting family '{}' at depth {}: front end panicked (exit {}): {}", fam, d, c, msg),
                    json!({"family": fam_raw, "depth": d}),
                );
                break;
            }
            Exit::Timeout(_) => {
                // no verdict from the clock; the growth ratios above are the oracle
                r.inconclusive += 1;
                r.note(format!("family {} depth {}: wall-clock watchdog (inconclusive)", fam, d));
                break;
            }
        }
        // crash oracle only: a size between the doublings (300, 384, ... are not powers of two)
        let mid = d + d / 2 + (d % 7);
        if mid < max_depth {
            r.evaluations += 1;
            match run_one_isolated(nest(fam_raw, mid), 60) {
                Exit::Ok(_) => r.nontrivial += 1,
                Exit::Timeout(_) => r.inconclusive += 1,
                Exit::Signal(s, _) => {
                    r.violate(
                        format!("crash|{}|{}{}", fam, isolate::signal_name(s), if mid > 20_000 { "|depth>20000" } else { "" }),
                        format!("nesting family '{}' at depth {}: process killed by {}", fam, mid, isolate::signal_name(s)),
                        json!({"family": fam_raw, "depth": mid}),
                    );
                    break;
                }
                Exit::Status(c, t) => {
                    let msg = t.find("\u{1}PANIC").map(|i| truncate(&t[i + 7..], 120)).unwrap_or_default();
                    r.violate(
                        format!("panic|{}|{}", fam, truncate(&msg, 40)),
                        format!("nesting family '{}' at depth {}: front end panicked (exit {}): {}", fam, mid, c, msg),
                        json!({"family": fam_raw, "depth": mid}),
                    );
                    break;
                }
            }
        }
        d *= 2;
    }
    r.stat(&format!("max_depth_{}", fam), max_ok_depth as i64);
}

// ───────────────────────────── mutation families ─────────────────────────────

const VOCAB: &[&str] = &[
    "(", ")", "[", "]", "{", "}", ";", ",", ".", "...", "?.", "?", ":", "=>", "=", "+", "-", "*", "/", "%", "**", "++", "--", "<", ">", "<=", ">=", "==", "===",
    "!", "~", "&&", "||", "??", "&", "|", "^", "<<", ">>", ">>>", "+=", "??=", "`", "${", "'", "\"", "//", "/*", "*/", "#", "@", "\\", "0", "1.5e3", "0x", "1n",
    "a", "let", "const", "var", "function", "function*", "async", "await", "yield", "class", "extends", "super", "this", "new", "return", "if", "else", "for", "of",
    "in", "while", "do", "switch", "case", "default", "break", "continue", "try", "catch", "finally", "throw", "typeof", "instanceof", "void", "delete", "import",
    "export", "from", "as", "type", "interface", "enum", "namespace", "declare", "abstract", "readonly", "public", "private", "static", "get", "set", "is",
    "keyof", "infer", "satisfies", "null", "undefined", "true", "\u{e9}", "\u{1F600}", "\u{2028}", "\u{0}", "\u{FEFF}", "<!--", "-->", "/=", "/re/g",
];

fn crude_tokens(src: &str) -> Vec<(usize, usize)> {
    // byte ranges of crude tokens: identifiers/numbers, quoted strings, single punctuators
    let b: Vec<(usize, char)> = src.char_indices().collect();
    let mut out = Vec::new();
    let mut i = 0;
    while i < b.len() {
        let (pos, c) = b[i];
        if c.is_whitespace() {
            i += 1;
            continue;
        }
        let start = pos;
        if c.is_alphanumeric() || c == '_' || c == '$' {
            while i < b.len() && (b[i].1.is_alphanumeric() || b[i].1 == '_' || b[i].1 == '$' || b[i].1 == '.') {
                i += 1;
            }
        } else if c == '\'' || c == '"' {
            i += 1;
            while i < b.len() && b[i].1 != c && b[i].1 != '\n' {
                if b[i].1 == '\\' {
                    i += 1;
                }
                i += 1;
            }
            i = (i + 1).min(b.len());
        } else {
            i += 1;
        }
        let end = if i < b.len() { b[i].0 } else { src.len() };
        out.push((start, end));
    }
    out
}

fn seed_sources(ctx: &Ctx) -> Vec<String> {
    let mut v: Vec<String> = Vec::new();
    for it in c01::stmt_items() {
        v.push(it.human);
    }
    for (_, _, ts) in super::c03::PAIRS {
        v.push(ts.to_string());
    }
    let n = if ctx.thorough() { 60 } else { 12 };
    for i in 0..n {
        let p = corpus::b_program(ctx.seed % corpus::B_SHARDS, i);
        v.push(crate::compose::render_js(&p.marked));
    }
    v
}

/// inputs derived from one seed source
fn mutations(src: &str, rng: &mut Rng, thorough: bool) -> Vec<String> {
    let toks = crude_tokens(src);
    let mut v = Vec::new();
    // every prefix at a token boundary
    for (_, e) in &toks {
        v.push(src[..*e].to_string());
    }
    // every single-token deletion / duplication / swap with next
    for (k, (s, e)) in toks.iter().enumerate() {
        v.push(format!("{}{}", &src[..*s], &src[*e..]));
        v.push(format!("{}{} {}", &src[..*e], &src[*s..*e], &src[*e..]));
        if let Some((s2, e2)) = toks.get(k + 1) {
            v.push(format!("{}{} {}{}", &src[..*s], &src[*s2..*e2], &src[*s..*e], &src[*e2..]));
        }
        // replacement by vocabulary tokens (all of them in the thorough tier, a sample otherwise)
        let nrep = if thorough { VOCAB.len() } else { 6 };
        for j in 0..nrep {
            let t = if thorough { VOCAB[j] } else { VOCAB[rng.below(VOCAB.len())] };
            v.push(format!("{}{}{}", &src[..*s], t, &src[*e..]));
        }
    }
    v
}

fn soups(rng: &mut Rng, n: usize) -> Vec<String> {
    let mut v = Vec::new();
    for _ in 0..n {
        let len = 1 + rng.below(40);
        let mut s = String::new();
        for _ in 0..len {
            s.push_str(VOCAB[rng.below(VOCAB.len())]);
            if rng.chance(2, 3) {
                s.push(' ');
            }
        }
        v.push(s);
    }
    // arbitrary UTF-8 with hostile escapes
    for _ in 0..n / 2 {
        let len = 1 + rng.below(60);
        let mut s = String::new();
        for _ in 0..len {
            let c = match rng.below(12) {
                0 => char::from_u32(rng.below(0x80) as u32).unwrap_or('a'),
                1 => char::from_u32(0x80 + rng.below(0x780) as u32).unwrap_or('\u{e9}'),
                2 => char::from_u32(0x800 + rng.below(0xD000) as u32).unwrap_or('\u{20ac}'),
                3 => char::from_u32(0x10000 + rng.below(0xFFFF) as u32).unwrap_or('\u{1F600}'),
                4 => '\\',
                5 => *rng.pick(&['u', 'x', '{', '}', '0', 'D', '8', 'F']),
                6 => *rng.pick(&['\'', '"', '`', '/']),
                7 => *rng.pick(&['\n', '\r', '\u{2028}', '\u{2029}', '\t', '\u{b}', '\u{feff}', '\u{0}']),
                _ => *rng.pick(&['a', '1', ' ', '(', ')', '=', '$', '{', '<', '>']),
            };
            s.push(c);
        }
        v.push(s);
    }
    // escape forms at string/identifier/template/regex positions
    for esc in ["\\u", "\\u{", "\\u{110000}", "\\uD800", "\\uDC00\\uD800", "\\x", "\\x4", "\\u00", "\\u{}", "\\u{1F600", "\\0", "\\8", "\\\n", "\\\r\n", "\\"] {
        for ctxt in ["'{}'", "\"{}\"", "`{}`", "`${{1}}{}`", "a{} = 1", "/{}/", "/[{}]/u", "'\u{e9}{}\u{e9}'", "`\u{1F600}{}\u{e9}`", "let x\u{e9}{} = 1"] {
            v.push(ctxt.replace("{}", esc));
            v.push(ctxt.replace("{}", &format!("{}\u{e9}", esc)));
            v.push(ctxt.replace("{}", &format!("{}\u{1F600}", esc)));
        }
    }
    v
}

/// Run many inputs in one child; a panic inside one input is caught and reported, a
/// signal kills the child and names the input it died on.
fn judge_inputs(r: &mut UnitResult, inputs: &[String], family: &str) {
    let mut start = 0usize;
    while start < inputs.len() {
        let slice = &inputs[start..];
        let lim = Limits { wall: std::time::Duration::from_secs(300), address_space: 4 << 30, stack: 8 << 20 };
        let owned: Vec<String> = slice.to_vec();
        let exit = isolate::run(&lim, move || {
          let h = std::thread::Builder::new().stack_size(8 << 20).spawn(move || {
            let slice = &owned[..];
            let mut max_ratio = 0f64;
            for (i, src) in slice.iter().enumerate() {
                isolate::emit(&format!("B{}\u{3}", i));
                let res = std::panic::catch_unwind(|| {
                    let fe = front_end(src);
                    // the public entry point as well: parse + import collection + compile, as a script and as a module
                    let mut interp = tsrun::Interpreter::new();
                    let path = if i % 2 == 0 { None } else { Some(tsrun::ModulePath::new("/main.ts".to_string())) };
                    let _ = interp.prepare(src, path);
                    fe
                });
                match res {
                    Ok((ok, t, a)) => {
                        let n = src.len().max(8) as f64;
                        let ratio = (t + a) as f64 / (n * n);
                        if ratio > max_ratio {
                            max_ratio = ratio;
                        }
                        // per-input work bound: c * n^2 with a generous constant (short inputs)
                        if (t + a) as f64 > 200.0 * n * n + 20_000.0 {
                            isolate::emit(&format!("W{}\u{2}{}\u{3}", i, t + a));
                        }
                        isolate::emit(&format!("E{}\u{2}{}\u{3}", i, ok));
                    }
                    Err(p) => {
                        let msg = p.downcast_ref::<&str>().map(|s| s.to_string()).or_else(|| p.downcast_ref::<String>().cloned()).unwrap_or_default();
                        isolate::emit(&format!("P{}\u{2}{}\u{3}", i, msg));
                    }
                }
            }
          }).expect("spawn");
          let _ = h.join();
            String::new()
        });
        let (text, died) = match exit {
            Exit::Ok(t) => (t, None),
            Exit::Signal(s, t) => (t, Some(format!("signal {}", isolate::signal_name(s)))),
            Exit::Status(c, t) => (t, Some(format!("exit {}", c))),
            Exit::Timeout(t) => (t, Some("timeout".to_string())),
        };
        let mut last_begun: Option<usize> = None;
        let mut finished = 0usize;
        for rec in text.split('\u{3}') {
            if rec.is_empty() {
                continue;
            }
            let (tag, rest) = rec.split_at(1);
            let mut it = rest.split('\u{2}');
            let Some(i) = it.next().and_then(|x| x.parse::<usize>().ok()) else { continue };
            match tag {
                "B" => last_begun = Some(i),
                "E" => {
                    finished = i + 1;
                    r.evaluations += 1;
                    r.nontrivial += 1;
                    if it.next() == Some("true") {
                        r.stat("inputs_accepted", 1);
                    } else {
                        r.stat("inputs_rejected_cleanly", 1);
                    }
                }
                "P" => {
                    finished = i + 1;
                    r.evaluations += 1;
                    r.nontrivial += 1;
                    let msg = it.next().unwrap_or("");
                    r.violate(
                        format!("panic|{}|{}", family, hash_hex(&slice[i])),
                        format!("front end panicked on {:?}: {}", truncate(&slice[i], 160), truncate(msg, 160)),
                        json!({"input": slice[i]}),
                    );
                }
                "W" => {
                    r.violate(
                        format!("work|{}|{}", family, hash_hex(&slice[i])),
                        format!("front-end work {} units for a {}-byte input exceeds 200*n^2: {:?}", it.next().unwrap_or("?"), slice[i].len(), truncate(&slice[i], 120)),
                        json!({"input": slice[i]}),
                    );
                }
                _ => {}
            }
        }
        match died {
            None => break,
            Some(why) => {
                let culprit = last_begun.unwrap_or(finished);
                if why == "timeout" {
                    r.inconclusive += 1;
                    r.note(format!("child hit the wall-clock watchdog on input {:?}", truncate(&slice[culprit.min(slice.len() - 1)], 80)));
                } else {
                    r.evaluations += 1;
                    r.nontrivial += 1;
                    r.violate(
                        format!("crash|{}|{}", family, hash_hex(&slice[culprit.min(slice.len() - 1)])),
                        format!("process died ({}) while preparing {:?}", why, truncate(&slice[culprit.min(slice.len() - 1)], 160)),
                        json!({"input": slice[culprit.min(slice.len() - 1)]}),
                    );
                }
                start += culprit + 1;
            }
        }
    }
}

const FAM_PER_UNIT: usize = 4;

impl Check for C05 {
    fn units(&self, ctx: &Ctx) -> usize {
        all_families().len().div_ceil(FAM_PER_UNIT) + seed_sources(ctx).len().div_ceil(8) + 4
    }

    fn run_unit(&self, ctx: &Ctx, idx: usize) -> UnitResult {
        let mut r = UnitResult::default();
        let fams = all_families();
        let nf = fams.len().div_ceil(FAM_PER_UNIT);
        if idx < nf {
            let max_depth = if ctx.thorough() { 131_072 } else { 16_384 };
            for fam in fams.iter().skip(idx * FAM_PER_UNIT).take(FAM_PER_UNIT) {
                judge_family(&mut r, fam, max_depth);
            }
            r.sample(json!({"nesting_family": fam_label(&fams[idx * FAM_PER_UNIT]), "member_at_depth_4": nest(&fams[idx * FAM_PER_UNIT], 4)}));
            return r;
        }
        let seeds = seed_sources(ctx);
        let ns = seeds.len().div_ceil(8);
        if idx < nf + ns {
            let k = idx - nf;
            let mut rng = Rng::derive("c05-mut", ctx.seed, k as u64);
            let mut inputs = Vec::new();
            for s in seeds.iter().skip(k * 8).take(8) {
                inputs.extend(mutations(s, &mut rng, ctx.thorough()));
            }
            judge_inputs(&mut r, &inputs, "mutation");
            r.stat("mutation_inputs", inputs.len() as i64);
            if let Some(x) = inputs.get(inputs.len() / 2) {
                r.sample(json!({"mutated_input": truncate(x, 200)}));
            }
            return r;
        }
        let k = idx - nf - ns;
        let fam = if ctx.thorough() { 0 } else { ctx.seed % 16 };
        let mut rng = Rng::derive("c05-soup", fam, k as u64);
        let inputs = soups(&mut rng, if ctx.thorough() { 20_000 } else { 4_000 });
        judge_inputs(&mut r, &inputs, "soup");
        r.stat("soup_inputs", inputs.len() as i64);
        if let Some(x) = inputs.first() {
            r.sample(json!({"token_soup": truncate(x, 200)}));
        }
        r
    }

    fn replay(&self, _ctx: &Ctx, case: &Value) -> UnitResult {
        let mut r = UnitResult::default();
        if let Some(f) = case["family"].as_str() {
            judge_family(&mut r, f, 131_072);
        } else if let Some(s) = case["input"].as_str() {
            judge_inputs(&mut r, &[s.to_string()], "replay");
        }
        r
    }
}
