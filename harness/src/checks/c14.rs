//! C14 — garbage is reclaimed: repeated work does not grow the heap.
//!
//! A self-contained program is run K times on ONE interpreter; after every run the host
//! calls collect() and reads gc_stats().live_objects. The series must be constant from
//! the third repetition on (the first runs may intern strings or instantiate internal
//! modules). On a leak the H4 quiescence summary tells what grew.

use super::c01::{self, Item};
use crate::corpus;
use crate::isolate::{self, Exit, Limits};
use crate::runner::{self, RunConfig};
use crate::util::*;
use serde_json::{Value, json};
use std::cell::RefCell;
use std::rc::Rc;

pub struct C14;

const K: usize = 8;
const PER_UNIT: usize = 150;

struct Prog {
    id: String,
    src: String,
}

/// constructs that end the run with an uncaught error at some nesting kind
fn failing_programs() -> Vec<Prog> {
    let kinds: &[(&str, &str)] = &[
        ("toplevel", "throw new Error('end');"),
        ("block", "{ let a = [1]; { let b = {k: a}; throw new TypeError('end'); } }"),
        ("call", "function f(){ var big = [1,2,3].map(function(x){ return {x: x}; }); throw new RangeError('end'); } f();"),
        ("call3", "function a(){ var k = {a: 1}; b(); } function b(){ var k = [2]; c(); } function c(){ var k = new Map(); throw new Error('end'); } a();"),
        ("loop-block", "for (let i = 0; i < 3; i++) { if (i === 1) { let o = {i: i}; throw new Error('end'); } }"),
        ("nested-blocks-in-fn", "function f(){ for (let i = 0; i < 2; i++) { if (i === 1) { let o = {i: i}; throw new Error('end'); } } } f();"),
        ("try-finally", "function f(){ try { let o = {}; throw new Error('end'); } finally { let p = [1]; } } f();"),
        ("catch-rethrow", "function f(){ try { null.x; } catch (e) { let w = {e: e}; throw e; } } f();"),
        ("native-callback", "[1, 2].forEach(function(x){ let o = {x: x}; if (x === 2) { throw new Error('end'); } });"),
        ("getter", "var o = { get g(){ let t = [1]; throw new Error('end'); } }; o.g;"),
        ("constructor", "class K { constructor(){ this.a = [1]; throw new Error('end'); } } new K();"),
        ("method-in-blocks", "class K { m(){ { let z = {}; { let y = [z]; throw new Error('end'); } } } } new K().m();"),
        ("generator-first", "function* g(){ let a = {}; throw new Error('end'); } g().next();"),
        ("closure", "var mk = function(){ var cap = {c: 1}; return function(){ var inner = [cap]; throw new Error('end'); }; }; mk()();"),
        ("switch", "switch (1) { case 1: { let s = {}; throw new Error('end'); } }"),
        ("tostring-hook", "var o = { toString(){ let t = {}; throw new Error('end'); } }; '' + o;"),
        ("proxy-trap", "var p = new Proxy({}, { get(){ let t = [1]; throw new Error('end'); } }); p.x;"),
        ("json-tojson", "JSON.stringify({ toJSON(){ let t = {}; throw new Error('end'); } });"),
        ("sort-cmp", "[3, 1, 2].sort(function(a, b){ let t = {a: a}; throw new Error('end'); });"),
        ("reference-error", "function f(){ let o = {}; return notDefinedAnywhere + o; } f();"),
        ("type-error-call", "function f(){ let o = {}; o.nope(); } f();"),
    ];
    let mut v: Vec<Prog> = kinds
        .iter()
        .map(|(n, body)| Prog { id: format!("fail.{}", n), src: format!("'use strict';\n(function(){{ {} }})()", body) })
        .collect();
    // the same bodies at the top level of the script (no enclosing function frame)
    for (n, body) in kinds {
        v.push(Prog { id: format!("fail-top.{}", n), src: format!("'use strict';\n{{ {} }}", body.replace("function f(", "let f = function(").replace("function a(", "let a = function(").replace("function b(", "let b = function(").replace("function c(", "let c = function(").replace("function* g(", "let g = function*(").replace("var ", "let ")) });
    }
    // top-level control flow leaving block scopes (no function frame to clean up after them)
    let tops: &[(&str, &str)] = &[
        ("break-in-block", "{ for (let i = 0; i < 3; i++) { let o = {i: i}; if (i === 1) { let p = [o]; break; } } }"),
        ("continue-in-block", "{ for (let i = 0; i < 3; i++) { let o = {i: i}; if (i === 1) { let p = [o]; continue; } } }"),
        ("labeled-break", "{ outer: for (let i = 0; i < 3; i++) { for (let j = 0; j < 3; j++) { let o = {j: j}; if (j === 1) { break outer; } } } }"),
        ("switch-break", "{ switch (2) { case 2: { let o = {}; break; } default: { let p = []; } } }"),
        ("try-catch-blocks", "{ try { let o = {}; null.x; } catch (e) { let p = [e]; } finally { let q = {}; } }"),
        ("forof-break", "{ for (const x of [1, 2, 3]) { let o = {x: x}; if (x === 2) { break; } } }"),
        ("forin", "{ for (const k in {a: 1, b: 2}) { let o = {k: k}; } }"),
        ("while-closure", "{ let fs = []; let n = 0; while (n < 3) { let m = n; fs.push(() => m); n++; } fs.map(f => f()); }"),
        ("class-and-new", "{ let K = class { constructor(){ this.a = [1]; } m(){ return this.a; } }; new K().m(); }"),
        ("generator-partial", "{ let g = function*(){ let a = {}; yield a; yield 2; }; let it = g(); it.next(); }"),
        ("promise-chain", "{ Promise.resolve({a: 1}).then(v => [v]).then(v => ({v: v})); }"),
        ("async-fn", "{ let f = async function(){ let o = {}; return [o]; }; f(); f().then(x => x); }"),
        ("rejected-caught", "{ Promise.reject(new Error('r')).catch(e => ({e: e})); }"),
        ("promise-adopts-pending", "{ let inner = new Promise(function(){}); let outer = new Promise(function(res){ res(inner); }); outer.then(v => [v]); }"),
        ("promise-adopts-pending-settled-later", "{ let r2; let inner = new Promise(function(r){ r2 = r; }); let outer = new Promise(function(res){ res(inner); }); outer.then(v => [v, {big: [1, 2, 3]}]); r2({v: 1}); }"),
        ("then-returns-pending", "{ let inner = new Promise(function(){}); Promise.resolve(1).then(function(){ return inner; }).then(v => [v]); }"),
        ("then-returns-pending-settled-later", "{ let r2; let inner = new Promise(function(r){ r2 = r; }); Promise.resolve(1).then(function(){ return inner; }).then(v => ({v: v})); Promise.resolve(2).then(function(){ r2([1, 2]); }); }"),
        ("async-returns-pending", "{ let inner = new Promise(function(){}); let f = async function(){ let o = {a: [1]}; return inner; }; f().then(v => v); }"),
        ("combinators-over-pending", "{ let p = new Promise(function(){}); Promise.all([p, Promise.resolve({a: 1})]).then(v => v); Promise.race([p, new Promise(function(){})]).then(v => v); }"),
        ("map-set-churn", "{ let m = new Map(); for (let i = 0; i < 5; i++) { m.set({i: i}, [i]); } let s = new Set(m.keys()); [...s].length; }"),
        ("regexp-json", "{ let r = /a(b)/g.exec('xab'); let j = JSON.parse(JSON.stringify({r: r, n: [1, {d: 2}]})); }"),
        ("cycle", "{ let a = {}; let b = {a: a}; a.b = b; let c = [a, b]; c.push(c); }"),
        ("proxy-reflect", "{ let p = new Proxy({x: 1}, { get(t, k){ return Reflect.get(t, k); } }); p.x; Reflect.ownKeys(p); }"),
        ("tagged-template", "{ let tag = (s, ...v) => s.raw.join('') + v.length; tag`a${1}b${2}`; }"),
        ("destructuring", "{ let {a, ...rest} = {a: 1, b: [2], c: {d: 3}}; let [x, ...ys] = [1, {y: 2}, [3]]; }"),
        ("getter-setter", "{ let o = { _v: [], get v(){ return this._v; }, set v(x){ this._v = [x]; } }; o.v = {n: 1}; o.v; }"),
        ("bind-call-apply", "{ let f = function(a){ return [this, a]; }; f.bind({t: 1})(2); f.call({t: 2}, 3); f.apply({t: 3}, [4]); }"),
        ("symbol-keys", "{ let s = Symbol('s'); let o = {[s]: {v: 1}}; o[s]; Object.getOwnPropertySymbols(o); }"),
        ("date-error", "{ let d = new Date(0); let e = new RangeError('x'); e.d = d; String(e); }"),
    ];
    for (n, body) in tops {
        v.push(Prog { id: format!("top.{}", n), src: format!("'use strict';\n{}", body) });
    }
    v
}

/// Within-run variant: the construct is repeated N times inside ONE run (uncaught errors
/// are caught per iteration); the live-object count after the run must not depend on N.
fn scale_programs() -> Vec<(String, String, String)> {
    let mut v = Vec::new();
    for p in failing_programs() {
        // p.src is "'use strict';\n<body>" where body is an IIFE call or a block
        let body = p.src.trim_start_matches("'use strict';\n").to_string();
        let mk = |n: usize| format!("'use strict';\nfor (let __k = 0; __k < {}; __k++) {{ try {{ {} }} catch (__e) {{ }} }}", n, body);
        v.push((format!("scale.{}", p.id), mk(10), mk(30)));
        let mkf = |n: usize| format!("'use strict';\n(function(){{ for (let __k = 0; __k < {}; __k++) {{ try {{ {} }} catch (__e) {{ }} }} }})()", n, body);
        v.push((format!("scale-fn.{}", p.id), mkf(10), mkf(30)));
    }
    v
}

fn live_after(src: &str) -> (usize, String) {
    let log = Rc::new(RefCell::new(Vec::new()));
    let mut interp = runner::new_interp(&log);
    let cfg = RunConfig { max_steps: 300_000, gc_threshold: Some(100), ..Default::default() };
    let o = runner::run_on(&mut interp, &log, src, &cfg);
    interp.collect();
    (interp.gc_stats().live_objects, o.kind)
}

fn judge_scale(r: &mut UnitResult) {
    let progs = scale_programs();
    let lim = Limits { wall: std::time::Duration::from_secs(300), address_space: 3 << 30, stack: 0 };
    let exit = isolate::run(&lim, || {
        for (i, (_, a, b)) in progs.iter().enumerate() {
            let (la, ka) = live_after(a);
            let (lb, kb) = live_after(b);
            isolate::emit(&format!("{}\u{2}{}\u{2}{}\u{2}{}{}\u{3}", i, la, lb, ka, kb));
        }
        String::new()
    });
    let text = match exit {
        Exit::Ok(t) | Exit::Signal(_, t) | Exit::Status(_, t) | Exit::Timeout(t) => t,
    };
    for rec in text.split('\u{3}') {
        let f: Vec<&str> = rec.split('\u{2}').collect();
        if f.len() < 4 {
            continue;
        }
        let (Ok(i), Ok(la), Ok(lb)) = (f[0].parse::<usize>(), f[1].parse::<i64>(), f[2].parse::<i64>()) else { continue };
        r.evaluations += 1;
        if f[3] != "valuevalue" {
            r.inconclusive += 1;
            continue;
        }
        r.nontrivial += 1;
        r.stat("within_run_scaling_pairs", 1);
        if la != lb {
            r.violate(
                format!("leak|{}|{:+}", progs[i].0, lb - la),
                format!("{}: live objects after the run grow with the number of repetitions inside the run: {} after 10 iterations, {} after 30", progs[i].0, la, lb),
                json!({"id": progs[i].0}),
            );
        }
    }
}

fn all_programs(ctx: &Ctx) -> Vec<Prog> {
    let mut v: Vec<Prog> = Vec::new();
    v.extend(failing_programs());
    // one construct per program: statement snippets and holder programs
    for it in c01::stmt_items().into_iter().chain(crate::holders::items()) {
        v.push(Prog { id: it.id.clone(), src: c01::batch_program(std::slice::from_ref(&it)) });
    }
    // a thinned slice of the atom matrix (natives with callbacks etc.)
    let stride = if ctx.thorough() { 7 } else { 41 };
    for (i, it) in c01::all_items().into_iter().enumerate() {
        if !it.id.starts_with("stmt.") && !it.id.starts_with("bin.") && i % stride == 0 {
            v.push(Prog { id: it.id.clone(), src: c01::batch_program(std::slice::from_ref(&it)) });
        }
    }
    v
}

/// Run `src` K times on one interpreter; returns (live-object series, quiescence notes, kinds).
fn series(src: &str) -> (Vec<usize>, String, String) {
    let log = Rc::new(RefCell::new(Vec::new()));
    let mut interp = runner::new_interp(&log);
    let cfg = RunConfig { max_steps: 300_000, gc_threshold: Some(100), ..Default::default() };
    let mut live = Vec::new();
    let mut kinds = Vec::new();
    let mut q_first = None;
    let mut q_last = None;
    for k in 0..K {
        let o = runner::run_on(&mut interp, &log, src, &cfg);
        kinds.push(if o.kind == "error" { format!("error:{}", o.error_class) } else { o.kind.clone() });
        interp.collect();
        live.push(interp.gc_stats().live_objects);
        let q = interp.verif_quiescence();
        if k == 2 {
            q_first = Some(q.clone());
        }
        q_last = Some(q);
    }
    let grew = match (q_first, q_last) {
        (Some(a), Some(b)) => {
            let mut g = Vec::new();
            if b.env_guards > a.env_guards {
                g.push(format!("env_guards {}->{}", a.env_guards, b.env_guards));
            }
            if b.call_stack > a.call_stack {
                g.push(format!("call_stack {}->{}", a.call_stack, b.call_stack));
            }
            if b.wait_contexts > a.wait_contexts {
                g.push(format!("wait_contexts {}->{}", a.wait_contexts, b.wait_contexts));
            }
            if b.loaded_modules > a.loaded_modules {
                g.push(format!("loaded_modules {}->{}", a.loaded_modules, b.loaded_modules));
            }
            if !b.env_is_global {
                g.push("env is not the global environment".to_string());
            }
            g.join(", ")
        }
        _ => String::new(),
    };
    kinds.dedup();
    (live, grew, kinds.join(","))
}

fn judge(r: &mut UnitResult, progs: &[Prog]) {
    let lim = Limits { wall: std::time::Duration::from_secs(300), address_space: 3 << 30, stack: 0 };
    let exit = isolate::run(&lim, || {
        for (i, p) in progs.iter().enumerate() {
            let (live, grew, kinds) = series(&p.src);
            let s: Vec<String> = live.iter().map(|x| x.to_string()).collect();
            isolate::emit(&format!("{}\u{2}{}\u{2}{}\u{2}{}\u{3}", i, s.join(","), grew, kinds));
        }
        String::new()
    });
    let (text, died) = match exit {
        Exit::Ok(t) => (t, false),
        Exit::Signal(_, t) | Exit::Status(_, t) | Exit::Timeout(t) => (t, true),
    };
    let mut seen = vec![false; progs.len()];
    for rec in text.split('\u{3}') {
        let f: Vec<&str> = rec.split('\u{2}').collect();
        if f.len() < 4 {
            continue;
        }
        let Ok(i) = f[0].parse::<usize>() else { continue };
        if i >= progs.len() {
            continue;
        }
        seen[i] = true;
        let live: Vec<i64> = f[1].split(',').filter_map(|x| x.parse().ok()).collect();
        r.evaluations += 1;
        if live.len() < K {
            r.inconclusive += 1;
            continue;
        }
        if f[3].contains("limit") {
            r.inconclusive += 1;
            continue;
        }
        r.nontrivial += 1;
        r.stat("runs_on_reused_interpreter", K as i64);
        if f[3].starts_with("error") {
            r.stat("programs_ending_in_uncaught_error", 1);
        }
        let tail = &live[2..];
        let constant = tail.iter().all(|x| *x == tail[0]);
        if !constant {
            let delta = tail[tail.len() - 1] - tail[tail.len() - 2];
            r.violate(
                format!("leak|{}|{:+}", progs[i].id, delta),
                format!(
                    "{}: live objects after collect() over {} repetitions: {:?} ({:+} per run){}",
                    progs[i].id,
                    K,
                    live,
                    delta,
                    if f[2].is_empty() { String::new() } else { format!("; grew: {}", f[2]) }
                ),
                json!({"id": progs[i].id}),
            );
        }
        r.stat("max_live_objects", *live.iter().max().unwrap_or(&0));
    }
    if died {
        let culprit = seen.iter().position(|s| !*s).unwrap_or(0);
        r.inconclusive += 1;
        r.note(format!("unit child died at {} (crashes are judged by C05/C06)", progs[culprit].id));
        if culprit + 1 < progs.len() {
            judge(r, &progs[culprit + 1..]);
        }
    }
}

impl Check for C14 {
    fn units(&self, ctx: &Ctx) -> usize {
        all_programs(ctx).len().div_ceil(PER_UNIT) + corpus::b_units(ctx) + 1
    }

    fn run_unit(&self, ctx: &Ctx, idx: usize) -> UnitResult {
        let mut r = UnitResult::default();
        let progs = all_programs(ctx);
        let na = progs.len().div_ceil(PER_UNIT);
        if idx < na {
            let lo = idx * PER_UNIT;
            let hi = (lo + PER_UNIT).min(progs.len());
            let slice: Vec<Prog> = progs.into_iter().skip(lo).take(hi - lo).collect();
            judge(&mut r, &slice);
            if let Some(p) = slice.first() {
                r.sample(json!({"program": p.id, "repetitions": K}));
            }
        } else if idx == na + corpus::b_units(ctx) {
            judge_scale(&mut r);
            r.sample(json!({"within_run_pair": scale_programs()[4].0, "n10": scale_programs()[4].1}));
        } else {
            let b: Vec<Prog> = corpus::unit_programs(ctx, idx - na).into_iter().map(|p| Prog { id: p.id, src: p.src }).collect();
            judge(&mut r, &b);
            if let Some(p) = b.first() {
                r.sample(json!({"program": p.id, "repetitions": K}));
            }
        }
        r
    }

    fn replay(&self, ctx: &Ctx, case: &Value) -> UnitResult {
        let mut r = UnitResult::default();
        let id = case["id"].as_str().unwrap_or("");
        if id.starts_with("scale") {
            judge_scale(&mut r);
            r.violations.retain(|v| v.case["id"].as_str() == Some(id));
            return r;
        }
        let progs: Vec<Prog> = if id.starts_with("B/") {
            let parts: Vec<&str> = id.split('/').collect();
            let p = corpus::b_program(parts[1].parse().unwrap_or(0), parts[2].parse().unwrap_or(0));
            vec![Prog { id: p.id, src: p.src }]
        } else {
            let thorough = Ctx { tier: Tier::Thorough, ..ctx.clone() };
            all_programs(&thorough).into_iter().filter(|p| p.id == id).collect()
        };
        judge(&mut r, &progs);
        r
    }
}
