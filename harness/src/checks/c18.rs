//! C18 — module specifiers resolve to canonical paths.
//!
//! Oracle: an independent reference resolver + the algebraic laws of the statement,
//! run over the exhaustively enumerated (specifier, importer) space.

use crate::util::*;
use serde_json::{Value, json};
use tsrun::ModulePath;

pub struct C18;

const ALPHABET: [&str; 7] = ["", ".", "..", "a", "b", "..a", "a.ts"];

/// Independent reference: join to the importer's directory, then drop "", "." and
/// resolve ".." (never above the root). Returns None where the statement leaves the
/// result open (the specifiers "." and ".." themselves; ".." climbing above a
/// non-absolute start).
fn reference(spec: &str, importer: Option<&str>) -> Option<String> {
    let relative = spec.starts_with("./") || spec.starts_with("../");
    let absolute = spec.starts_with('/');
    if !relative && !absolute {
        if spec == "." || spec == ".." {
            return None; // classification of these two is not fixed by the statement
        }
        return Some(spec.to_string()); // bare: untouched
    }
    let joined: String = if absolute {
        spec.to_string()
    } else {
        match importer {
            None => spec.to_string(),
            Some(imp) => match imp.rfind('/') {
                Some(i) => format!("{}/{}", &imp[..i], spec),
                None => spec.to_string(),
            },
        }
    };
    let abs = joined.starts_with('/');
    let mut stack: Vec<&str> = Vec::new();
    for seg in joined.split('/') {
        match seg {
            "" | "." => {}
            ".." => {
                if stack.pop().is_none() && !abs {
                    return None; // above a relative start: unspecified
                }
            }
            s => stack.push(s),
        }
    }
    Some(if abs {
        format!("/{}", stack.join("/"))
    } else {
        stack.join("/")
    })
}

fn segs_up_to(max: usize) -> Vec<Vec<&'static str>> {
    let mut out: Vec<Vec<&'static str>> = vec![vec![]];
    let mut frontier: Vec<Vec<&'static str>> = vec![vec![]];
    for _ in 0..max {
        let mut next = Vec::new();
        for p in &frontier {
            for a in ALPHABET {
                let mut q = p.clone();
                q.push(a);
                next.push(q);
            }
        }
        out.extend(next.iter().cloned());
        frontier = next;
    }
    out
}

fn specifiers(max: usize) -> Vec<String> {
    let mut v = Vec::new();
    for segs in segs_up_to(max) {
        let body = segs.join("/");
        for prefix in ["./", "../", "/", ""] {
            for trail in ["", "/"] {
                if segs.is_empty() && prefix.is_empty() {
                    continue;
                }
                v.push(format!("{}{}{}", prefix, body, trail));
            }
        }
    }
    v.sort();
    v.dedup();
    v
}

fn importers(max: usize) -> Vec<Option<String>> {
    let mut v: Vec<Option<String>> = vec![None];
    for segs in segs_up_to(max) {
        let body = segs.join("/");
        for trail in ["", "/"] {
            v.push(Some(format!("/{}{}", body, trail)));
        }
        if !segs.is_empty() {
            v.push(Some(body.clone())); // non-absolute importer: weaker laws only
        }
    }
    v.sort();
    v.dedup();
    v
}

fn is_canonical_abs(p: &str) -> bool {
    if p == "/" {
        return true;
    }
    if !p.starts_with('/') || p.ends_with('/') {
        return false;
    }
    p[1..]
        .split('/')
        .all(|s| !s.is_empty() && s != "." && s != "..")
}

/// Returns Some((law, detail)) on violation.
fn judge(spec: &str, importer: Option<&str>) -> (bool, Option<(String, String)>) {
    let base = importer.map(ModulePath::new);
    let got = ModulePath::resolve(spec, base.as_ref());
    let got = got.as_str().to_string();
    let relative = spec.starts_with("./") || spec.starts_with("../");
    let absolute = spec.starts_with('/');
    let abs_importer = importer.is_some_and(|i| i.starts_with('/'));
    let nontrivial = (relative || absolute)
        && (spec.split('/').any(|s| s == "." || s == ".." || s.is_empty())
            || importer.is_some_and(|i| i.rfind('/') == Some(0)));
    if let Some(want) = reference(spec, importer) {
        // strict comparison where the statement fixes the answer: bare anywhere,
        // absolute specifiers anywhere, relative ones against an absolute importer
        if (!relative || abs_importer) && got != want {
            return (
                nontrivial,
                Some((
                    "reference".into(),
                    format!("resolve({:?}, {:?}) = {:?}, reference {:?}", spec, importer, got, want),
                )),
            );
        }
    }
    if (relative && abs_importer) || absolute {
        if !is_canonical_abs(&got) {
            return (
                nontrivial,
                Some((
                    "canonical".into(),
                    format!("resolve({:?}, {:?}) = {:?} is not a canonical absolute path", spec, importer, got),
                )),
            );
        }
        // idempotence: resolving the result again (against anything) changes nothing
        let again = ModulePath::resolve(&got, base.as_ref());
        if again.as_str() != got {
            return (
                nontrivial,
                Some((
                    "idempotent".into(),
                    format!("resolve(resolve({:?},{:?})) = {:?} != {:?}", spec, importer, again.as_str(), got),
                )),
            );
        }
    }
    (nontrivial, None)
}

fn bounds(ctx: &Ctx) -> (usize, usize) {
    if ctx.thorough() { (5, 4) } else { (5, 3) }
}

const RANDOM_UNITS: usize = 16;

impl Check for C18 {
    fn units(&self, ctx: &Ctx) -> usize {
        let (_, imax) = bounds(ctx);
        importers(imax).len().div_ceil(chunk(ctx)) + RANDOM_UNITS
    }

    fn run_unit(&self, ctx: &Ctx, idx: usize) -> UnitResult {
        let (smax, imax) = bounds(ctx);
        let imps = importers(imax);
        let nchunks = imps.len().div_ceil(chunk(ctx));
        let mut r = UnitResult::default();
        if idx < nchunks {
            let specs = specifiers(smax);
            let lo = idx * chunk(ctx);
            let hi = (lo + chunk(ctx)).min(imps.len());
            for imp in &imps[lo..hi] {
                for spec in &specs {
                    check_pair(&mut r, spec, imp.as_deref());
                }
            }
            r.stat("exhaustive_pairs", r.evaluations as i64);
            if idx == 0 {
                r.stat("specifiers_enumerated", specs.len() as i64);
                r.stat("importers_enumerated", imps.len() as i64);
                r.stat("max_spec_segments", smax as i64);
                r.stat("max_importer_segments", imax as i64);
            }
        } else {
            // random longer paths (up to 12 segments); shard fixed by unit index, the
            // seed only selects which shard family is run in the quick tier
            let shard = (idx - nchunks) as u64;
            let n = if ctx.thorough() { 400_000 } else { 100_000 };
            let fam = if ctx.thorough() { 0 } else { ctx.seed % 8 };
            let mut rng = Rng::derive("c18-random", fam * 64 + shard, 0);
            for _ in 0..n {
                let ns = 1 + rng.below(12);
                let ni = rng.below(9);
                let mut spec = String::from(*rng.pick(&["./", "../", "/", "", "./", "../"]));
                for k in 0..ns {
                    if k > 0 {
                        spec.push('/');
                    }
                    spec.push_str(ALPHABET[rng.below(ALPHABET.len())]);
                }
                if rng.chance(1, 4) {
                    spec.push('/');
                }
                let mut imp = String::from("/");
                for k in 0..ni {
                    if k > 0 {
                        imp.push('/');
                    }
                    imp.push_str(ALPHABET[rng.below(ALPHABET.len())]);
                }
                if rng.chance(1, 5) {
                    imp.push('/');
                }
                check_pair(&mut r, &spec, Some(&imp));
            }
            r.stat("random_pairs", n as i64);
        }
        r
    }

    fn replay(&self, _ctx: &Ctx, case: &Value) -> UnitResult {
        let mut r = UnitResult::default();
        let spec = case["spec"].as_str().unwrap_or("");
        let imp = case["importer"].as_str();
        check_pair(&mut r, spec, imp);
        r
    }
}

fn chunk(ctx: &Ctx) -> usize {
    if ctx.thorough() { 64 } else { 16 }
}

fn check_pair(r: &mut UnitResult, spec: &str, imp: Option<&str>) {
    r.evaluations += 1;
    let (nontrivial, v) = judge(spec, imp);
    if nontrivial {
        r.nontrivial += 1;
        if r.samples.len() < 3 && r.evaluations % 977 == 1 {
            let got = ModulePath::resolve(spec, imp.map(ModulePath::new).as_ref());
            r.sample(json!({"spec": spec, "importer": imp, "resolved": got.as_str()}));
        }
    }
    if let Some((law, detail)) = v {
        r.violate(
            format!("{}|{}|{}", law, spec, imp.unwrap_or("<none>")),
            detail,
            json!({"spec": spec, "importer": imp}),
        );
    }
}
