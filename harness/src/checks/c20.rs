//! C20 — error reports point at the code that failed.
//!
//! The generator builds programs as token lists in which the *offending expression* of
//! every active frame is bracketed by a mark: the innermost function contains a planted
//! fault, every outer function the call expression that is active when the fault fires.
//! A layout engine renders the same token list in many ways (one line, one token per
//! line, random breaks, block / line comments, blank lines, tabs, CRLF, wide characters
//! in comments and strings before the fault, leading comment blocks) and records where
//! every mark ended up. The monitor then compares what the failing run reported:
//!
//!   * syntax errors: `location` must lie inside the planted bad token, in the right file;
//!   * runtime errors that carry a stack: frame k must lie inside mark k of the module that
//!     defines function k, carry that function's name, and the list must be exactly the
//!     active calls, innermost first, ending with the top-level frame.
//!
//! Errors that carry no location (user-thrown values) are not judged.

use crate::runner;
use crate::util::*;
use serde_json::{Value, json};
use std::cell::RefCell;
use std::collections::BTreeMap;
use std::rc::Rc;
use tsrun::{JsError, ModulePath, StepResult};

pub struct C20;

#[derive(Debug, Clone, Default)]
pub struct Frame {
    pub name: Option<String>,
    pub file: Option<String>,
    pub line: u32,
    pub column: u32,
}

#[derive(Debug, Clone, Default)]
pub struct Report {
    /// "syntax" | "runtime" | "other:<class>" | "no-error:<kind>"
    pub kind: String,
    pub class: String,
    pub message: String,
    /// syntax errors: the location; runtime errors: the stack, innermost first
    pub frames: Vec<Frame>,
}

/// Run `src` (as a module at `path` when given, with `modules` supplied on request) and
/// return what the failing run reported.
pub fn run_report(src: &str, path: Option<&str>, modules: &BTreeMap<String, String>) -> Report {
    let log = Rc::new(RefCell::new(Vec::new()));
    let mut interp = runner::new_interp(&log);
    let mp = path.map(|p| ModulePath::new(p.to_string()));
    let mut result = interp.prepare(src, mp);
    let mut steps = 0u64;
    loop {
        match result {
            Err(e) => return report_of(&e),
            Ok(StepResult::Continue) => {}
            Ok(StepResult::NeedImports(reqs)) => {
                for r in &reqs {
                    match modules.get(r.resolved_path.as_str()) {
                        Some(s) => {
                            if let Err(e) = interp.provide_module(r.resolved_path.clone(), s) {
                                return report_of(&e);
                            }
                        }
                        None => return Report { kind: format!("no-error:missing-module {}", r.resolved_path.as_str()), ..Default::default() },
                    }
                }
            }
            Ok(StepResult::Complete(v)) => return Report { kind: format!("no-error:complete {}", runner::show_value(v.value())), ..Default::default() },
            Ok(StepResult::Done) => return Report { kind: "no-error:done".into(), ..Default::default() },
            Ok(StepResult::Suspended { .. }) => return Report { kind: "no-error:suspended".into(), ..Default::default() },
        }
        steps += 1;
        if steps > 3_000_000 {
            return Report { kind: "no-error:limit".into(), ..Default::default() };
        }
        result = interp.step();
    }
}

fn report_of(e: &JsError) -> Report {
    match e {
        JsError::SyntaxError { message, location } => Report {
            kind: "syntax".into(),
            class: "SyntaxError".into(),
            message: message.clone(),
            frames: vec![Frame { name: None, file: location.file.clone(), line: location.line, column: location.column }],
        },
        JsError::RuntimeError { kind, message, stack } => Report {
            kind: "runtime".into(),
            class: kind.clone(),
            message: message.clone(),
            frames: stack.iter().map(|f| Frame { name: f.function_name.clone(), file: f.file.clone(), line: f.line, column: f.column }).collect(),
        },
        other => {
            let (c, m) = runner::error_class(other);
            Report { kind: format!("other:{}", c), class: c, message: m, frames: vec![] }
        }
    }
}

pub fn report_json(src: &str, path: Option<&str>, modules: &BTreeMap<String, String>) -> Value {
    let r = run_report(src, path, modules);
    json!({"kind": r.kind, "class": r.class, "message": r.message,
           "frames": r.frames.iter().map(|f| json!([f.name, f.file, f.line, f.column])).collect::<Vec<_>>()})
}

// ───────────────────────────── token lists with marks ─────────────────────────────

#[derive(Clone, Debug)]
struct Tok {
    text: String,
    open: Vec<usize>,
    close: Vec<usize>,
    /// no line break may be inserted between this token and the next (ASI-sensitive places)
    no_break_after: bool,
    /// a statement boundary follows (the canonical layout breaks the line here)
    stmt_end: bool,
}

/// Parse the fragment mark-up: words separated by single spaces; `[[k` opens mark k on the
/// next word, `]]k` closes mark k on the previous word, `~` forbids a line break between
/// its neighbours, `_` inside a word stands for a space, `\n` inside a word for a newline.
fn toks(fragment: &str) -> Vec<Tok> {
    let mut out: Vec<Tok> = Vec::new();
    let mut pending_open: Vec<usize> = Vec::new();
    for w in fragment.split(' ') {
        if w.is_empty() {
            continue;
        }
        if let Some(k) = w.strip_prefix("[[") {
            pending_open.push(k.parse().unwrap_or(0));
        } else if let Some(k) = w.strip_prefix("]]") {
            if let Some(t) = out.last_mut() {
                t.close.push(k.parse().unwrap_or(0));
            }
        } else if w == "~" {
            if let Some(t) = out.last_mut() {
                t.no_break_after = true;
            }
        } else {
            let text = w.replace('\u{2423}', " ").replace("\\n", "\n");
            let stmt_end = text == ";" || text == "{" || text == "}";
            out.push(Tok { text, open: std::mem::take(&mut pending_open), close: vec![], no_break_after: false, stmt_end });
        }
    }
    out
}

#[derive(Clone, Copy, Debug, PartialEq, Eq, PartialOrd, Ord)]
struct Pos {
    line: u32,
    col: u32,
}

#[derive(Clone, Debug)]
struct Rendered {
    text: String,
    /// mark id -> (first char, last char) positions
    marks: BTreeMap<usize, (Pos, Pos)>,
}

const LAYOUTS: &[&str] = &[
    "canonical", "one-line", "token-per-line", "random-breaks", "comments", "crlf", "crlf-random", "tabs", "wide-comments", "wide-strings-same-line", "leading-block", "blank-lines",
    "ls-ps-terminators", "multiline-template-before", "cr-only",
];

/// whitespace / comment material that may stand between two tokens
fn gap(layout: &str, rng: &mut Rng, t: &Tok, first_in_line_hint: bool) -> String {
    let nl_ok = !t.no_break_after;
    match layout {
        "canonical" | "leading-block" => {
            if t.stmt_end && nl_ok { "\n".into() } else { " ".into() }
        }
        "one-line" => " ".into(),
        "token-per-line" => {
            if nl_ok { "\n".into() } else { " ".into() }
        }
        "crlf-random" => match rng.below(6) {
            0 | 1 => " ".into(),
            2 if nl_ok => "\r\n".into(),
            3 if nl_ok => "\r\n    ".into(),
            4 => "  ".into(),
            5 if nl_ok => "\r\n\r\n".into(),
            _ => " ".into(),
        },
        "random-breaks" => match rng.below(6) {
            0 | 1 => " ".into(),
            2 if nl_ok => "\n".into(),
            3 if nl_ok => "\n    ".into(),
            4 => "  ".into(),
            5 if nl_ok => "\n\n".into(),
            _ => " ".into(),
        },
        "comments" => match rng.below(7) {
            0 => " /* c */ ".into(),
            1 if nl_ok => " // line comment ; } ) {\n".into(),
            2 if nl_ok => " /* multi\n   line\n comment */ ".into(),
            3 if nl_ok => "\n".into(),
            4 => " /**/ ".into(),
            _ => " ".into(),
        },
        "crlf" => {
            if t.stmt_end && nl_ok { "\r\n".into() } else { " ".into() }
        }
        "tabs" => {
            if t.stmt_end && nl_ok { "\n\t\t".into() } else if rng.chance(1, 3) { "\t".into() } else { " ".into() }
        }
        "wide-comments" => match rng.below(5) {
            0 => " /* \u{e9}\u{e8} \u{65e5}\u{672c}\u{8a9e} \u{1F600}\u{1F680} */ ".into(),
            1 if nl_ok => " // \u{1F600} \u{65e5}\n".into(),
            2 if t.stmt_end && nl_ok => "\n".into(),
            _ => " ".into(),
        },
        "wide-strings-same-line" => " ".into(),
        "blank-lines" => {
            if t.stmt_end && nl_ok { "\n\n\n".into() } else { " ".into() }
        }
        "ls-ps-terminators" => match rng.below(5) {
            0 if nl_ok => "\u{2028}".into(),
            1 if nl_ok => "\u{2029} ".into(),
            2 if nl_ok => "\n".into(),
            _ => " ".into(),
        },
        "multiline-template-before" => {
            if t.stmt_end && nl_ok { "\n".into() } else { " ".into() }
        }
        "cr-only" => {
            if t.stmt_end && nl_ok { "\r".into() } else { " ".into() }
        }
        _ => {
            let _ = first_in_line_hint;
            " ".into()
        }
    }
}

/// Render a token list under a layout and locate every mark (ECMAScript line terminators:
/// LF, CR, CRLF as one, LS, PS; columns count characters, 1-based).
fn render(tokens: &[Tok], layout: &str, rng: &mut Rng) -> Rendered {
    let mut text = String::new();
    let mut spans: Vec<(usize, usize)> = Vec::new(); // char offsets [start, end) per token
    let mut nchars = 0usize;
    let push = |text: &mut String, nchars: &mut usize, s: &str| {
        text.push_str(s);
        *nchars += s.chars().count();
    };
    match layout {
        "leading-block" => push(&mut text, &mut nchars, "/*\n * header \u{e9}\n */\n\n// second comment\n\n\n"),
        "crlf" | "crlf-random" => push(&mut text, &mut nchars, "// first line\r\n\r\n"),
        "cr-only" => push(&mut text, &mut nchars, "// first line\r"),
        _ => {}
    }
    for (i, t) in tokens.iter().enumerate() {
        // `@@` is a statement position on the line of a marked expression: some layouts plant
        // a statement full of wide characters / a multi-line template there, the others drop it
        if t.text == "@@" {
            match layout {
                "wide-strings-same-line" => push(&mut text, &mut nchars, "'\u{e9}\u{65e5}\u{1F600}' ; /* \u{1F680}\u{1F680} */ "),
                "multiline-template-before" => push(&mut text, &mut nchars, "`a\nb\u{e9}\n\u{1F600}` ; "),
                _ => {}
            }
            spans.push((nchars, nchars));
            continue;
        }
        let start = nchars;
        push(&mut text, &mut nchars, &t.text);
        spans.push((start, nchars));
        if i + 1 < tokens.len() {
            let g = gap(layout, rng, t, false);
            push(&mut text, &mut nchars, &g);
        }
    }
    // positions of every char
    let chars: Vec<char> = text.chars().collect();
    let mut pos: Vec<Pos> = Vec::with_capacity(chars.len() + 1);
    let (mut line, mut col) = (1u32, 1u32);
    let mut i = 0;
    while i < chars.len() {
        pos.push(Pos { line, col });
        let ch = chars[i];
        if ch == '\r' && chars.get(i + 1) == Some(&'\n') {
            // CRLF: the CR occupies a column, the LF ends the line
            col += 1;
        } else if ch == '\n' || ch == '\r' || ch == '\u{2028}' || ch == '\u{2029}' {
            line += 1;
            col = 1;
        } else {
            col += 1;
        }
        i += 1;
    }
    pos.push(Pos { line, col });
    let mut marks: BTreeMap<usize, (Pos, Pos)> = BTreeMap::new();
    let mut open_at: BTreeMap<usize, Pos> = BTreeMap::new();
    for (t, (s, e)) in tokens.iter().zip(spans.iter()) {
        for k in &t.open {
            open_at.insert(*k, pos[*s]);
        }
        for k in &t.close {
            if let Some(st) = open_at.get(k) {
                marks.insert(*k, (*st, pos[e.saturating_sub(1).max(*s)]));
            }
        }
    }
    Rendered { text, marks }
}

// ───────────────────────────── call chains ─────────────────────────────

/// How function i is defined and called.
#[derive(Clone, Copy, Debug, PartialEq, Eq)]
enum Link {
    Decl,
    FnExpr,
    NamedFnExpr,
    Arrow,
    ArrowExprBody,
    ObjMethod,
    ClassMethod,
    StaticMethod,
    Ctor,
    Closure,
    /// a plain declaration that its caller reaches through a helper living in another module:
    /// `helperN(fN)` where helperN calls its parameter (one extra frame, in the helper's file)
    ViaHelper,
    // native-mediated links (tsrun re-enters the VM natively for these)
    Getter,
    ForEachCb,
    MapCb,
    GeneratorNext,
    ValueOf,
    ApplyCall,
    BoundFn,
}

const TRAMPOLINED: &[Link] =
    &[Link::Decl, Link::FnExpr, Link::NamedFnExpr, Link::Arrow, Link::ArrowExprBody, Link::ObjMethod, Link::ClassMethod, Link::StaticMethod, Link::Ctor, Link::Closure, Link::BoundFn, Link::ViaHelper];
const NATIVE_MEDIATED: &[Link] = &[Link::Getter, Link::ForEachCb, Link::MapCb, Link::GeneratorNext, Link::ValueOf, Link::ApplyCall];

fn link_name(l: Link) -> &'static str {
    match l {
        Link::Decl => "decl",
        Link::FnExpr => "fn-expr",
        Link::NamedFnExpr => "named-fn-expr",
        Link::Arrow => "arrow",
        Link::ArrowExprBody => "arrow-expr-body",
        Link::ObjMethod => "obj-method",
        Link::ClassMethod => "class-method",
        Link::StaticMethod => "static-method",
        Link::Ctor => "constructor",
        Link::Closure => "closure",
        Link::ViaHelper => "via-helper-module",
        Link::Getter => "getter",
        Link::ForEachCb => "forEach-callback",
        Link::MapCb => "map-callback",
        Link::GeneratorNext => "generator-next",
        Link::ValueOf => "valueOf",
        Link::ApplyCall => "apply",
        Link::BoundFn => "bound",
    }
}

/// fault kinds: (name, statements before, marked offending expression statement)
/// `[[F ... ]]F` is replaced by the mark of the innermost frame.
const FAULTS: &[(&str, &str)] = &[
    ("prop-of-undefined", "var o = { } ; @@ var r = [[F o . p . q ]]F ;"),
    ("prop-of-null", "var n = null ; @@ var r = [[F n . x ]]F ;"),
    ("prop-of-undefined-computed", "var o = { } ; @@ var r = [[F o [ 'p' ] [ 'q' ] ]]F ;"),
    ("call-non-function", "var o = { } ; @@ [[F o . nf ( 1 , 2 ) ]]F ;"),
    ("call-undefined-local", "var u ; @@ [[F u ( ) ]]F ;"),
    ("call-null-member", "var n = null ; @@ [[F n . f ( ) ]]F ;"),
    ("undeclared-identifier", "var k = 1 ; @@ var r = 1 + [[F zz ]]F ;"),
    ("undeclared-in-call-arg", "var k = 1 ; @@ var r = String ( [[F zz ]]F ) ;"),
    ("tdz", "var k = 1 ; @@ var r = [[F tz ]]F ; let tz = 1 ;"),
    ("const-assign", "const cc = 1 ; @@ [[F cc = 2 ]]F ;"),
    ("new-non-constructor", "var nc = 1 ; @@ var r = [[F new nc ( ) ]]F ;"),
    ("in-operand", "var k = 1 ; @@ var r = [[F 'a' in 5 ]]F ;"),
    ("instanceof-operand", "var o = { } ; @@ var r = [[F o instanceof 5 ]]F ;"),
    ("for-of-non-iterable", "var k = 1 ; @@ [[F for ( var e of 5 ) { } ]]F"),
    ("destructure-non-iterable", "var k = 1 ; @@ [[F var [ d1 ] = 5 ]]F ;"),
    ("destructure-null", "var k = 1 ; @@ [[F var { d2 } = null ]]F ;"),
    ("set-prop-of-undefined", "var u ; @@ [[F u . x = 1 ]]F ;"),
    ("invalid-array-length", "var k = 1 ; @@ var r = [[F new Array ( - 1 ) ]]F ;"),
    ("native-range-error", "var k = 1 ; @@ var r = [[F 'abc' . repeat ( - 1 ) ]]F ;"),
    ("native-type-error", "var k = 1 ; @@ var r = [[F [ ] . reduce ( function ( ) { } ) ]]F ;"),
    ("json-parse-error", "var k = 1 ; @@ var r = [[F JSON . parse ( '{' ) ]]F ;"),
    ("multi-line-member-chain", "var o = { a : { } } ; @@ var r = [[F o . a . b . c ]]F ;"),
    ("fault-in-template", "var o = { } ; @@ var r = `x${ [[F o . p . q ]]F }y` ;"),
    ("fault-in-call-argument", "var o = { } ; @@ var r = String ( 1 , [[F o . p . q ]]F ) ;"),
    ("fault-in-array-literal", "var o = { } ; @@ var r = [ 1 , [[F o . p . q ]]F , 3 ] ;"),
    ("fault-in-object-literal", "var o = { } ; @@ var r = { k : [[F o . p . q ]]F } ;"),
    ("fault-in-condition", "var o = { } ; @@ if ( [[F o . p . q ]]F ) { }"),
    ("fault-in-loop-body", "var o = { } ; for ( var i = 0 ; i < 3 ; i += 1 ) { if ( i === 2 ) { @@ [[F o . p . q ]]F ; } }"),
    ("fault-in-try-finally", "var o = { } ; try { @@ [[F o . p . q ]]F ; } finally { var z = 1 ; }"),
    ("fault-after-caught", "var o = { } ; try { o . a . b ; } catch ( e ) { } @@ [[F o . p . q ]]F ;"),
    ("fault-in-switch", "var o = { } ; switch ( 1 ) { case 1 : [[F o . p . q ]]F ; }"),
    ("fault-in-return", "var o = { } ; @@ return ~ [[F o . p . q ]]F ;"),
];

struct Program {
    /// modules[0] is the entry; (path, tokens)
    modules: Vec<(String, Vec<Tok>)>,
    /// per frame, innermost LAST here: (mark id, module index, expected name candidates, link)
    frames: Vec<(usize, usize, Vec<Option<String>>, Option<Link>)>,
}

const MODULE_PATHS: &[&str] = &["/app/main.ts", "/app/lib/alpha.ts", "/app/util/deep/beta.ts"];

fn rel_spec(from: usize, to: usize) -> &'static str {
    match (from, to) {
        (0, 1) => "./lib/alpha.ts",
        (0, 2) => "./util/deep/beta.ts",
        (1, 2) => "../util/deep/beta.ts",
        _ => "./x",
    }
}

/// Build the program for a chain of links (function 1 .. D), a fault kind, and a module
/// assignment (non-decreasing module index per function; 0 = entry).
fn build(chain: &[Link], fault: usize, module_of: &[usize], as_module: bool) -> Program {
    let d = chain.len();
    let nmods = if as_module { module_of.iter().copied().max().unwrap_or(0) + 1 } else { 1 };
    let mut defs: Vec<Vec<String>> = vec![Vec::new(); nmods];
    let mut exports_needed: Vec<Vec<(usize, String)>> = vec![Vec::new(); nmods]; // (importer module, symbol)
    let mut frames: Vec<(usize, usize, Vec<Option<String>>, Option<Link>)> = Vec::new();
    frames.push((0, 0, vec![None], None));
    let m_of = |i: usize| -> usize { if as_module { module_of.get(i - 1).copied().unwrap_or(0) } else { 0 } };

    // module that hosts the helper of a ViaHelper link: the last module (a leaf of the import graph)
    let helper_mod = nmods - 1;
    // call expression for function i (1-based): (expression, symbols that must be visible with their modules)
    let call_of = |i: usize| -> (String, Vec<(usize, String)>) {
        let f = format!("f{}", i);
        let m = m_of(i);
        let one = |e: String, sym: String| (e, vec![(m, sym)]);
        match chain[i - 1] {
            Link::Decl | Link::FnExpr | Link::Arrow | Link::ArrowExprBody | Link::BoundFn => one(format!("{} ( 1 )", f), f),
            Link::NamedFnExpr => one(format!("v{} ( 1 )", i), format!("v{}", i)),
            Link::ObjMethod => one(format!("o{} . {} ( 1 )", i, f), format!("o{}", i)),
            Link::ClassMethod => one(format!("new C{} ( ) . {} ( 1 )", i, f), format!("C{}", i)),
            Link::StaticMethod => one(format!("C{} . {} ( 1 )", i, f), format!("C{}", i)),
            Link::Ctor => one(format!("new {} ( 1 )", f), f),
            Link::Closure => one(format!("mk{} ( ) ( 1 )", i), format!("mk{}", i)),
            Link::ViaHelper => (format!("helper{} ( {} )", i, f), vec![(helper_mod, format!("helper{}", i)), (m, f)]),
            Link::Getter => one(format!("o{} . {}", i, f), format!("o{}", i)),
            Link::ForEachCb => one(format!("[ 1 ] . forEach ( {} )", f), f),
            Link::MapCb => one(format!("[ 1 ] . map ( {} )", f), f),
            Link::GeneratorNext => one(format!("{} ( 1 ) . next ( )", f), f),
            Link::ValueOf => one(format!("+ o{}", i), format!("o{}", i)),
            Link::ApplyCall => one(format!("{} . apply ( null , [ 1 ] )", f), f),
        }
    };

    for i in 1..=d {
        let m = m_of(i);
        let body = if i == d {
            FAULTS[fault].1.replace("[[F", &format!("[[{}", i)).replace("]]F", &format!("]]{}", i))
        } else {
            let (call, syms) = call_of(i + 1);
            for (mc, sym) in syms {
                if mc != m {
                    exports_needed[mc].push((m, sym));
                }
            }
            match chain[i - 1] {
                Link::Ctor => format!("var l{} = {} ; @@ this . v = [[{} {} ]]{} ;", i, i, i, call, i),
                Link::GeneratorNext => format!("var l{} = {} ; @@ yield ~ [[{} {} ]]{} ;", i, i, i, call, i),
                _ => format!("var l{} = {} ; @@ return ~ [[{} {} ]]{} ;", i, i, i, call, i),
            }
        };
        let f = format!("f{}", i);
        let exp = if as_module && nmods > 1 && m > 0 { "export " } else { "" };
        let (def, names): (String, Vec<Option<String>>) = match chain[i - 1] {
            Link::Decl | Link::ViaHelper => (format!("{}function {} ( x ) {{ {} }}", exp, f, body), vec![Some(f.clone())]),
            Link::FnExpr => (format!("{}var {} = function ( x ) {{ {} }} ;", exp, f, body), vec![Some(f.clone())]),
            Link::NamedFnExpr => (format!("{}var v{} = function {} ( x ) {{ {} }} ;", exp, i, f, body), vec![Some(f.clone())]),
            Link::Arrow => (format!("{}const {} = ( x ) ~ => {{ {} }} ;", exp, f, body), vec![Some(f.clone())]),
            Link::ArrowExprBody => {
                // expression body: only usable when the body is a single call (not for the innermost)
                if i == d {
                    (format!("{}const {} = ( x ) ~ => {{ {} }} ;", exp, f, body), vec![Some(f.clone())])
                } else {
                    let (call, _) = call_of(i + 1);
                    (format!("{}const {} = ( x ) ~ => ( [[{} {} ]]{} ) ;", exp, f, i, call, i), vec![Some(f.clone())])
                }
            }
            Link::ObjMethod => (format!("{}var o{} = {{ {} ( x ) {{ {} }} }} ;", exp, i, f, body), vec![Some(f.clone())]),
            Link::ClassMethod => (format!("{}class C{} {{ {} ( x ) {{ {} }} }}", exp, i, f, body), vec![Some(f.clone())]),
            Link::StaticMethod => (format!("{}class C{} {{ static {} ( x ) {{ {} }} }}", exp, i, f, body), vec![Some(f.clone())]),
            Link::Ctor => (
                format!("{}class {} {{ constructor ( x ) {{ {} }} }}", exp, f, body),
                vec![Some(f.clone()), Some("constructor".into()), Some(format!("new {}", f))],
            ),
            Link::Closure => (
                format!("{}function mk{} ( ) {{ return ~ function ( x ) {{ {} }} ; }}", exp, i, body),
                vec![None, Some(String::new()), Some("<anonymous>".into()), Some("anonymous".into())],
            ),
            Link::Getter => (format!("{}var o{} = {{ get {} ( ) {{ {} }} }} ;", exp, i, f, body), vec![Some(f.clone()), Some(format!("get {}", f))]),
            Link::ForEachCb | Link::MapCb | Link::ApplyCall => (format!("{}function {} ( x ) {{ {} }}", exp, f, body), vec![Some(f.clone())]),
            Link::GeneratorNext => (format!("{}function * {} ( x ) {{ {} }}", exp, f, body), vec![Some(f.clone())]),
            Link::ValueOf => (format!("{}var o{} = {{ valueOf ( ) {{ {} }} }} ;", exp, i, body), vec![Some("valueOf".into())]),
            Link::BoundFn => (
                format!("{}var {} = ( function inner{} ( x ) {{ {} }} ) . bind ( null ) ;", exp, f, i, body),
                vec![Some(format!("inner{}", i)), Some(format!("bound inner{}", i))],
            ),
        };
        defs[m].push(def);
        if chain[i - 1] == Link::ViaHelper {
            let hexp = if as_module && nmods > 1 && helper_mod > 0 { "export " } else { "" };
            defs[helper_mod].push(format!("{}function helper{} ( cb ) {{ var h = 1 ; @@ return ~ [[{} cb ( 1 ) ]]{} ; }}", hexp, i, 100 + i, 100 + i));
            frames.push((100 + i, helper_mod, vec![Some(format!("helper{}", i))], Some(Link::Decl)));
        }
        frames.push((i, m, names, Some(chain[i - 1])));
    }
    // top-level call (mark 0) in the entry module
    let (call0, syms0) = call_of(1);
    for (mc, sym) in syms0 {
        if mc != 0 {
            exports_needed[mc].push((0, sym));
        }
    }
    let mut modules = Vec::new();
    for m in 0..nmods {
        let mut src = String::new();
        // imports this module needs
        for (tm, needs) in exports_needed.iter().enumerate() {
            let syms: Vec<&String> = needs.iter().filter(|(imp, _)| *imp == m).map(|(_, s)| s).collect();
            if !syms.is_empty() {
                src.push_str(&format!("import {{ {} }} from '{}' ; ", syms.iter().map(|s| s.as_str()).collect::<Vec<_>>().join(" , "), rel_spec(m, tm)));
            }
        }
        src.push_str("var pad = 'p' ; ");
        // definitions in reverse order so that callees are defined before their callers run (hoisting-independent)
        for dsrc in defs[m].iter().rev() {
            src.push_str(dsrc);
            src.push(' ');
        }
        if m == 0 {
            src.push_str(&format!("var before = 1 ; @@ [[0 {} ]]0 ; var after = 2 ;", call0));
        }
        modules.push((MODULE_PATHS[m].to_string(), toks(&src)));
    }
    Program { modules, frames }
}

// ───────────────────────────── judging ─────────────────────────────

struct Verdict {
    sig: String,
    what: String,
}

fn within(p: Pos, r: (Pos, Pos)) -> bool {
    p >= r.0 && p <= r.1
}

/// Compare a runtime report with the expectation. `as_module` false => files are None.
fn judge_trace(prog: &Program, rendered: &[Rendered], rep: &Report, as_module: bool, fault_name: &str, layout: &str, chain: &[Link]) -> (Vec<Verdict>, bool) {
    let mut v = Vec::new();
    let chain_desc: String = chain.iter().map(|l| link_name(*l)).collect::<Vec<_>>().join(">");
    if rep.kind != "runtime" {
        v.push(Verdict {
            sig: format!("no-report|{}|{}", fault_name, rep.kind.split(' ').next().unwrap_or("")),
            what: format!("fault '{}' (chain {}; layout {}): expected an uncaught runtime error with a stack, got {} {} {}", fault_name, chain_desc, layout, rep.kind, rep.class, rep.message),
        });
        return (v, false);
    }
    if rep.frames.is_empty() {
        // carries no location: not judged (the property only speaks of errors that carry one)
        return (v, false);
    }
    // expected frames, innermost first
    let expected: Vec<&(usize, usize, Vec<Option<String>>, Option<Link>)> = prog.frames.iter().rev().collect();
    // positions / names / files of the frames that are there
    for (k, fr) in rep.frames.iter().enumerate() {
        let Some(exp) = expected.get(k) else {
            v.push(Verdict {
                sig: format!("extra-frame|{}", chain_desc),
                what: format!("chain {} ({} layout): the trace has {} frames but only {} calls are active", chain_desc, layout, rep.frames.len(), expected.len()),
            });
            break;
        };
        let (mark, module, names, link) = (exp.0, exp.1, &exp.2, exp.3);
        let role = if k == 0 { format!("fault:{}", fault_name) } else { format!("caller-of:{}", expected[k - 1].3.map(link_name).unwrap_or("?")) };
        let Some(range) = rendered[module].marks.get(&mark).copied() else { continue };
        let p = Pos { line: fr.line, col: fr.column };
        if !within(p, range) {
            v.push(Verdict {
                sig: format!("position|{}|{}", role, layout),
                what: format!(
                    "{} (chain {}; layout {}): frame {} reported {}:{} but the offending expression spans {}:{}..{}:{} in {}",
                    role, chain_desc, layout, k, fr.line, fr.column, range.0.line, range.0.col, range.1.line, range.1.col, prog.modules[module].0
                ),
            });
        }
        let name_ok = names.iter().any(|n| match (n, &fr.name) {
            (None, None) => true,
            (Some(a), Some(b)) => a == b,
            (Some(a), None) => a.is_empty(),
            (None, Some(b)) => b.is_empty() || b == "<anonymous>",
        });
        if !name_ok {
            v.push(Verdict {
                sig: format!("name|{}", link.map(link_name).unwrap_or("top-level")),
                what: format!("chain {} ({} layout): frame {} is named {:?}, expected one of {:?}", chain_desc, layout, k, fr.name, names),
            });
        }
        let want_file = if as_module { Some(prog.modules[module].0.clone()) } else { None };
        if fr.file != want_file {
            v.push(Verdict {
                sig: format!("file|{}|frame-{}", if module == 0 { "entry" } else { "dependency" }, if k == 0 { "innermost" } else { "outer" }),
                what: format!("chain {} ({} layout): frame {} names file {:?}, its code is in {:?}", chain_desc, layout, k, fr.file, want_file),
            });
        }
    }
    if rep.frames.len() < expected.len() {
        // which link is the first missing frame's callee?
        let first_missing = rep.frames.len();
        let via = expected[first_missing - 1].3.map(link_name).unwrap_or("?");
        v.push(Verdict {
            sig: format!("frames-missing|above-{}", via),
            what: format!(
                "chain {} ({} layout): the trace lists {} of the {} active calls; everything above the call made through '{}' is missing",
                chain_desc, layout, rep.frames.len(), expected.len(), via
            ),
        });
    }
    (v, true)
}

fn run_program(prog: &Program, layout: &str, rng: &mut Rng, as_module: bool) -> (Vec<Rendered>, Report) {
    let rendered: Vec<Rendered> = prog.modules.iter().map(|(_, t)| render(t, layout, rng)).collect();
    let mut mods = BTreeMap::new();
    for (i, (p, _)) in prog.modules.iter().enumerate().skip(1) {
        mods.insert(p.clone(), rendered[i].text.clone());
    }
    let rep = run_report(&rendered[0].text, if as_module { Some(prog.modules[0].0.as_str()) } else { None }, &mods);
    (rendered, rep)
}

// ───────────────────────────── syntax errors ─────────────────────────────

/// (name, prefix statements, bad token, suffix) — the bad token cannot continue the program
const SYNTAX_FAULTS: &[(&str, &str, &str, &str)] = &[
    ("star-after-assign", "var a = 1 ; var b =", "*", "2 ;"),
    ("close-paren-after-assign", "var a = 1 ; var b =", ")", ";"),
    ("close-bracket-stray", "var a = [ 1 , 2 ] ; var b = a", "]", ";"),
    ("arrow-stray", "var a = 1 ; var b =", "=>", "1 ;"),
    ("comma-after-open-paren", "var a = f (", ",", ") ;"),
    ("reserved-word-as-name", "var a = 1 ; var", "class", "= 2 ;"),
    ("question-stray", "var a = 1 ; var b =", "?", "1 : 2 ;"),
    ("colon-stray", "var a = 1 ; var b =", ":", "2 ;"),
    ("unexpected-number-after-ident", "var a = 1 ; var b = a", "42", ";"),
    ("unexpected-string-after-number", "var a = 1", "'s'", ";"),
    ("stray-close-brace", "if ( true ) { var a = 1 ; }", "}", "else { }"),
    ("bad-token-in-function", "function g ( x ) { var y = x +", ";", "}"),
    ("bad-token-in-class", "class K { m ( ) { return 1 ; }", "+", "}"),
    ("bad-token-in-object-literal", "var o = { a : 1 ,", ";", "} ;"),
    ("bad-token-in-params", "function g ( a ,", "+", ") { }"),
    ("bad-token-in-template-expr", "var t = `x${ 1 +", ")", "}` ;"),
    ("bad-token-in-type-annotation", "var a :", "=", "1 ;"),
    ("bad-token-after-import", "import { a }", "=", "'./m' ;"),
    ("let-let", "let", "let", "= 1 ;"),
    ("dot-dot", "var a = { } ; a .", ".", "b ;"),
];

fn judge_syntax(r: &mut UnitResult, si: usize, layout: &str, rng: &mut Rng, in_dependency: bool) {
    let (name, prefix, bad, suffix) = SYNTAX_FAULTS[si];
    let body = format!("var pad = 'p' ; function ok ( ) {{ return 1 ; }} {} [[1 {} ]]1 {}", prefix, bad, suffix);
    let case = json!({"kind": "syntax", "fault": name, "layout": layout, "dependency": in_dependency});
    r.evaluations += 1;
    let (rendered_bad, rep, file) = if in_dependency {
        let main = toks("import { z } from './lib/alpha.ts' ; z ;");
        let m = render(&main, "canonical", rng);
        let dep = render(&toks(&body), layout, rng);
        let mut mods = BTreeMap::new();
        mods.insert(MODULE_PATHS[1].to_string(), dep.text.clone());
        let rep = run_report(&m.text, Some(MODULE_PATHS[0]), &mods);
        (dep, rep, Some(MODULE_PATHS[1].to_string()))
    } else {
        let main = render(&toks(&body), layout, rng);
        let rep = run_report(&main.text, Some(MODULE_PATHS[0]), &BTreeMap::new());
        (main, rep, Some(MODULE_PATHS[0].to_string()))
    };
    if rep.kind != "syntax" {
        r.inconclusive += 1;
        r.note(format!("syntax fault '{}' ({}): not reported as a syntax error ({} {})", name, layout, rep.kind, rep.message));
        return;
    }
    r.nontrivial += 1;
    r.stat("syntax_errors_judged", 1);
    let fr = &rep.frames[0];
    let Some(range) = rendered_bad.marks.get(&1).copied() else { return };
    let p = Pos { line: fr.line, col: fr.column };
    if !within(p, range) {
        r.violate(
            format!("syntax-position|{}|{}", name, layout),
            format!(
                "syntax fault '{}' (layout {}{}): reported {}:{} but the offending token '{}' is at {}:{}..{}:{} — {}",
                name, layout, if in_dependency { ", in an imported module" } else { "" }, fr.line, fr.column, bad, range.0.line, range.0.col, range.1.line, range.1.col, rep.message
            ),
            case.clone(),
        );
    }
    if fr.file.is_some() && fr.file != file {
        r.violate(
            format!("syntax-file|{}", if in_dependency { "dependency" } else { "entry" }),
            format!("syntax fault '{}': location names file {:?}, the text is {:?}", name, fr.file, file),
            case,
        );
    } else if fr.file.is_none() {
        r.stat("syntax_errors_without_file", 1);
    }
}

// ───────────────────────────── units ─────────────────────────────

fn chain_for(rng: &mut Rng, depth: usize, with_native: Option<Link>) -> Vec<Link> {
    let mut c: Vec<Link> = (0..depth).map(|_| *rng.pick(TRAMPOLINED)).collect();
    if let Some(n) = with_native
        && depth >= 2
    {
        // the native-mediated link is never the innermost nor... place it in the middle
        let at = 1 + rng.below(depth - 1);
        c[at] = n;
    }
    c
}

fn modules_for(rng: &mut Rng, depth: usize, nmods: usize) -> Vec<usize> {
    // non-decreasing assignment of functions to modules 0..nmods
    let mut cuts: Vec<usize> = (0..nmods.saturating_sub(1)).map(|_| rng.below(depth + 1)).collect();
    cuts.sort();
    (0..depth).map(|i| cuts.iter().filter(|c| **c <= i).count()).collect()
}

fn judge_case(r: &mut UnitResult, chain: &[Link], fault: usize, module_of: &[usize], as_module: bool, layout: &str, rng: &mut Rng, id: &str) {
    let prog = build(chain, fault, module_of, as_module);
    let (rendered, rep) = run_program(&prog, layout, rng, as_module);
    r.evaluations += 1;
    let (verdicts, judged) = judge_trace(&prog, &rendered, &rep, as_module, FAULTS[fault].0, layout, chain);
    if judged {
        r.nontrivial += 1;
        r.stat("frames_checked", rep.frames.len() as i64);
        r.stat("max_chain_depth", chain.len() as i64);
        if prog.modules.len() > 1 {
            r.stat("traces_across_modules", 1);
        }
    } else if verdicts.is_empty() {
        r.inconclusive += 1;
    }
    for v in verdicts {
        r.violate(
            v.sig,
            v.what,
            json!({"kind": "trace", "id": id, "chain": chain.iter().map(|l| link_name(*l)).collect::<Vec<_>>(), "fault": FAULTS[fault].0,
                   "modules": module_of, "as_module": as_module, "layout": layout, "source": rendered.iter().map(|x| x.text.clone()).collect::<Vec<_>>()}),
        );
    }
}

const SHARDS: u64 = 8;

impl Check for C20 {
    fn units(&self, ctx: &Ctx) -> usize {
        // 0..F: every fault kind x every layout (depth 1, script and module)
        // F..F+L: call-chain families per layout; then syntax; then seeded random shards
        FAULTS.len() + LAYOUTS.len() + SYNTAX_FAULTS.len() + if ctx.thorough() { SHARDS as usize * 16 } else { 16 }
    }

    fn run_unit(&self, ctx: &Ctx, idx: usize) -> UnitResult {
        let mut r = UnitResult::default();
        let (nf, nl, ns) = (FAULTS.len(), LAYOUTS.len(), SYNTAX_FAULTS.len());
        if idx < nf {
            // enumerated: fault kind x layout x {script, module} x {depth 0 (top level), 1, 3}
            for layout in LAYOUTS {
                for (k, depth) in [0usize, 1, 3].iter().enumerate() {
                    for as_module in [false, true] {
                        let mut rng = Rng::derive("c20.fault", idx as u64, (k * 2 + as_module as usize) as u64);
                        let chain: Vec<Link> = (0..*depth).map(|j| TRAMPOLINED[(idx + j * 3 + k) % TRAMPOLINED.len()]).collect();
                        if *depth == 0 {
                            // the fault at the top level of the script/module: build a depth-1 program and inline? use a block instead
                            let prog = top_level_fault(idx);
                            let (rendered, rep) = run_program(&prog, layout, &mut rng, as_module);
                            r.evaluations += 1;
                            let (verdicts, judged) = judge_trace(&prog, &rendered, &rep, as_module, FAULTS[idx].0, layout, &[]);
                            if judged {
                                r.nontrivial += 1;
                                r.stat("frames_checked", rep.frames.len() as i64);
                            } else if verdicts.is_empty() {
                                r.inconclusive += 1;
                            }
                            for v in verdicts {
                                r.violate(v.sig, v.what, json!({"kind": "top", "fault": FAULTS[idx].0, "layout": layout, "as_module": as_module, "source": rendered[0].text}));
                            }
                            continue;
                        }
                        let mods = vec![0; *depth];
                        judge_case(&mut r, &chain, idx, &mods, as_module, layout, &mut rng, &format!("fault/{}/{}/{}/{}", idx, layout, depth, as_module));
                    }
                }
            }
            {
                let chain = [Link::ObjMethod, Link::Ctor];
                let prog = build(&chain, idx, &[0, 0], true);
                let mut rng = Rng::derive("c20.sample", idx as u64, 0);
                let (rendered, rep) = run_program(&prog, "comments", &mut rng, true);
                r.sample(json!({"fault": FAULTS[idx].0, "layout": "comments", "source": truncate(&rendered[0].text, 900),
                    "marks": rendered[0].marks.iter().map(|(k, v)| format!("frame {}: {}:{}..{}:{}", k, v.0.line, v.0.col, v.1.line, v.1.col)).collect::<Vec<_>>(),
                    "reported": rep.frames.iter().map(|f| format!("{:?} {:?} {}:{}", f.name, f.file, f.line, f.column)).collect::<Vec<_>>()}));
            }
        } else if idx < nf + nl {
            // call-chain shapes under one layout: every trampolined link kind at every position of
            // depth-2 chains, depths 0..12, 1-3 modules, and every native-mediated link
            let layout = LAYOUTS[idx - nf];
            let mut n = 0u64;
            for a in TRAMPOLINED {
                for b in TRAMPOLINED {
                    let mut rng = Rng::derive("c20.pair", (idx - nf) as u64, n);
                    n += 1;
                    let fault = (n as usize * 7) % FAULTS.len();
                    for nm in 1..=2usize {
                        let mods = if nm == 1 { vec![0, 0] } else { vec![0, 1] };
                        judge_case(&mut r, &[*a, *b], fault, &mods, true, layout, &mut rng, &format!("pair/{}/{}/{}", link_name(*a), link_name(*b), nm));
                    }
                }
            }
            for depth in 0..=12usize {
                for nm in 1..=3usize {
                    let mut rng = Rng::derive("c20.depth", (idx - nf) as u64, (depth * 4 + nm) as u64);
                    if depth == 0 {
                        continue;
                    }
                    let chain = chain_for(&mut rng, depth, None);
                    let mods = modules_for(&mut rng, depth, nm);
                    let fault = rng.below(FAULTS.len());
                    judge_case(&mut r, &chain, fault, &mods, true, layout, &mut rng, &format!("depth/{}/{}", depth, nm));
                }
            }
            for nat in NATIVE_MEDIATED {
                for depth in [2usize, 4] {
                    let mut rng = Rng::derive("c20.native", (idx - nf) as u64, depth as u64);
                    let chain = chain_for(&mut rng, depth, Some(*nat));
                    let fault = rng.below(FAULTS.len());
                    judge_case(&mut r, &chain, fault, &vec![0; depth], true, layout, &mut rng, &format!("native/{}/{}", link_name(*nat), depth));
                }
            }
            r.sample(json!({"layout": layout, "chains": "all ordered pairs of trampolined link kinds, depths 1..12 over 1..3 modules, native-mediated links"}));
        } else if idx < nf + nl + ns {
            let si = idx - nf - nl;
            for layout in LAYOUTS {
                if *layout == "wide-strings-same-line" || *layout == "multiline-template-before" {
                    continue; // these plant an expression before the marked token, which changes the grammar context of a bad token
                }
                for dep in [false, true] {
                    let mut rng = Rng::derive("c20.syntax", si as u64, dep as u64);
                    judge_syntax(&mut r, si, layout, &mut rng, dep);
                }
            }
        } else {
            // seeded random composition
            let k = (idx - nf - nl - ns) as u64;
            let shard = if ctx.thorough() { k } else { (ctx.seed % SHARDS) * 16 + k };
            for n in 0..(if ctx.thorough() { 600u64 } else { 300u64 }) {
                let mut rng = Rng::derive("c20.random", shard, n);
                let depth = 1 + rng.below(12);
                let nat = if rng.chance(1, 6) { Some(*rng.pick(NATIVE_MEDIATED)) } else { None };
                let chain = chain_for(&mut rng, depth, nat);
                let nm = 1 + rng.below(3);
                let mods = modules_for(&mut rng, depth, nm);
                let fault = rng.below(FAULTS.len());
                let layout = *rng.pick(LAYOUTS);
                let as_module = nm > 1 || rng.chance(2, 3);
                judge_case(&mut r, &chain, fault, &mods, as_module, layout, &mut rng, &format!("random/{}/{}", shard, n));
            }
        }
        r
    }

    fn replay(&self, _ctx: &Ctx, case: &Value) -> UnitResult {
        let mut r = UnitResult::default();
        // replays re-run the recorded source text(s) and print what is reported now
        if let Some(src) = case.get("source") {
            let texts: Vec<String> = match src {
                Value::Array(a) => a.iter().filter_map(|x| x.as_str().map(|s| s.to_string())).collect(),
                Value::String(s) => vec![s.clone()],
                _ => vec![],
            };
            if let Some(main) = texts.first() {
                let mut mods = BTreeMap::new();
                for (i, t) in texts.iter().enumerate().skip(1) {
                    mods.insert(MODULE_PATHS[i.min(2)].to_string(), t.clone());
                }
                let as_module = case["as_module"].as_bool().unwrap_or(true);
                let rep = run_report(main, if as_module { Some(MODULE_PATHS[0]) } else { None }, &mods);
                r.note(format!("now reports: {} {} {:?}", rep.kind, rep.message, rep.frames.iter().map(|f| format!("{:?}@{:?}:{}:{}", f.name, f.file, f.line, f.column)).collect::<Vec<_>>()));
            }
        }
        // and re-judge the generated case when it can be regenerated
        if case["kind"] == "syntax" {
            if let Some(si) = SYNTAX_FAULTS.iter().position(|s| Some(s.0) == case["fault"].as_str()) {
                let layout = LAYOUTS.iter().find(|l| Some(**l) == case["layout"].as_str()).copied().unwrap_or("canonical");
                let dep = case["dependency"].as_bool().unwrap_or(false);
                let mut rng = Rng::derive("c20.syntax", si as u64, dep as u64);
                judge_syntax(&mut r, si, layout, &mut rng, dep);
            }
        } else if case["kind"] == "trace" {
            let links: Vec<Link> = case["chain"]
                .as_array()
                .map(|a| a.iter().filter_map(|x| x.as_str()).filter_map(|n| TRAMPOLINED.iter().chain(NATIVE_MEDIATED.iter()).find(|l| link_name(**l) == n).copied()).collect())
                .unwrap_or_default();
            let fault = FAULTS.iter().position(|f| Some(f.0) == case["fault"].as_str()).unwrap_or(0);
            let mods: Vec<usize> = case["modules"].as_array().map(|a| a.iter().map(|x| x.as_u64().unwrap_or(0) as usize).collect()).unwrap_or_default();
            let layout = LAYOUTS.iter().find(|l| Some(**l) == case["layout"].as_str()).copied().unwrap_or("canonical");
            // deterministic layouts regenerate exactly; random ones are re-drawn from the case id
            let mut rng = Rng::derive("c20.replay", fnv64(case["id"].as_str().unwrap_or("").as_bytes()), 0);
            judge_case(&mut r, &links, fault, &mods, case["as_module"].as_bool().unwrap_or(true), layout, &mut rng, case["id"].as_str().unwrap_or(""));
        }
        r
    }
}

/// the fault planted at the top level of the script / module (no enclosing function)
fn top_level_fault(fault: usize) -> Program {
    let body = FAULTS[fault].1.replace("[[F", "[[0").replace("]]F", "]]0").replace("return ~", "var rr =");
    let src = format!("var pad = 'p' ; function unused ( ) {{ return 1 ; }} {} var after = 2 ;", body);
    Program { modules: vec![(MODULE_PATHS[0].to_string(), toks(&src))], frames: vec![(0, 0, vec![None], None)] }
}
