//! C19 — all ways of running a program agree.
//!
//! The same program and the same scripted host are driven through five entry points
//! (prepare+step, eval, step with interleaved read-only host calls, C API tsrun_step loop,
//! C API tsrun_run); the full conversation trace (import requests, order traffic, result,
//! export table, console log) must be identical. Module texts are additionally compared
//! across their roles: entry module, host-supplied dependency, registered source module.

use super::c01;
use crate::corpus;
use crate::engine::{self, Mode};
use crate::isolate::{self, Exit, Limits};
use crate::util::*;
use serde_json::{Value, json};
use std::collections::BTreeMap;

pub struct C19;

struct Prog {
    id: String,
    src: String,
    path: Option<String>,
    modules: BTreeMap<String, String>,
    calls: Vec<String>,
}

const MODES: [Mode; 5] = [Mode::PrepareStep, Mode::Eval, Mode::StepWithReads, Mode::CStep, Mode::CRun];

fn graphs() -> Vec<Prog> {
    crate::modgraphs::graphs().into_iter().map(|g| Prog { id: g.id, src: g.src, path: g.path, modules: g.modules, calls: g.calls }).collect()
}

fn order_programs() -> Vec<Prog> {
    let mk = |id: &str, body: &str, path: Option<&str>| Prog {
        id: format!("orders.{}", id),
        src: format!("import {{ order }} from \"tsrun:host\";\n{}", body),
        path: path.map(|p| p.to_string()),
        modules: BTreeMap::new(),
        calls: vec![],
    };
    vec![
        mk("sequential", "const a = await order({k: 1});\nconst b = await order({k: a});\nconsole.log('got', a, b);\n'r:' + (a + b)", None),
        mk("in-function", "async function f(x) { const v = await order({k: x}); return v + 1; }\nconst r = [await f(1), await f(2)];\nr.join()", None),
        mk("loop", "let s = 0;\nfor (let i = 0; i < 3; i++) { s += await order({k: i}); }\n'sum:' + s", None),
        mk("error-caught", "let r;\ntry { r = await order({err: 'boom'}); } catch (e) { r = 'caught:' + String(e); }\nr", None),
        mk("error-uncaught", "const r = await order({err: 'fatal'});\nr", None),
        mk("no-await", "const p = order({k: 5});\n'p:' + p", None),
        mk("module-with-orders", "export const first = await order({k: 10});\nexport let second = 0;\nsecond = await order({k: first});\nfirst + second", Some("/app/orders.ts")),
        mk("reexport-import", "export { order };\nexport const kind = typeof order;\nkind", Some("/app/re.ts")),
        mk("reexport-import-renamed", "export { order as place };\nconst r = await order({k: 4});\nexport const got = r;\nr", Some("/app/re2.ts")),
        mk("module-no-await", "export function go() { return typeof order; }\ngo()", Some("/app/na.ts")),
        mk("module-fire-and-forget-indirect", "export const a = 1;\n[{k: 1}, {k: 2}].forEach(order);\nexport let b = 2;\nb = 3;\n'end'", Some("/app/ff.ts")),
        mk("module-indirect-then-await", "export const ps = [{k: 3}, {k: 4}].map(order);\nexport const got = await Promise.all(ps);\ngot.join()", Some("/app/ff2.ts")),
        mk("script-fire-and-forget-indirect", "[{k: 5}].forEach(order);\nconst n = [{k: 6}, {k: 7}].map(order).length;\n'n:' + n", None),
        mk("method", "class Svc { constructor(){ this.base = 100; } async get(k) { const v = await order({k: k}); return this.base + v; } }\nconst s = new Svc();\nString(await s.get(1))", None),
    ]
}

fn fail_programs() -> Vec<Prog> {
    [
        ("throw-top", "console.log('a'); throw new TypeError('t');"),
        ("throw-in-call", "function f(){ null.x; } console.log('b'); f();"),
        ("syntax", "let = = 1;"),
        ("reference", "console.log(1); undefinedThing;"),
        ("throw-string", "throw 'plain string';"),
        ("throw-object", "throw {code: 7};"),
    ]
    .iter()
    .map(|(n, s)| Prog { id: format!("fail.{}", n), src: s.to_string(), path: None, modules: BTreeMap::new(), calls: vec![] })
    .collect()
}

fn programs(ctx: &Ctx) -> Vec<Prog> {
    let mut v = graphs();
    v.extend(order_programs());
    v.extend(fail_programs());
    for it in c01::stmt_items() {
        v.push(Prog { id: it.id.clone(), src: c01::batch_program(std::slice::from_ref(&it)), path: None, modules: BTreeMap::new(), calls: vec![] });
    }
    let n = if ctx.thorough() { 480 } else { 120 };
    let shard = ctx.seed % corpus::B_SHARDS;
    for i in 0..n {
        let p = corpus::b_program(shard, i);
        v.push(Prog { id: p.id, src: p.src, path: None, modules: BTreeMap::new(), calls: vec![] });
    }
    // composed programs whose numeric literals are read from the host: dozens of orders per run
    {
        use super::c07;
        let (shards, per): (Vec<u64>, u64) = if ctx.thorough() { ((0..c07::COMPOSED_SHARDS).collect(), 16) } else { (vec![ctx.seed % c07::COMPOSED_SHARDS], 24) };
        for sh in shards {
            for i in 0..per {
                if let Some(c) = c07::composed_case(sh, i, (i + 1) % 3) {
                    let path = if i % 2 == 0 { None } else { Some("/app/awaits.ts".to_string()) };
                    v.push(Prog { id: c.id, src: crate::asynchost::program(&c.body, true), path, modules: BTreeMap::new(), calls: vec![] });
                }
            }
        }
    }
    // the same composed programs as modules (path given): completion value and exports
    for i in 0..n / 4 {
        let p = corpus::b_program(shard, i);
        v.push(Prog { id: format!("{}@module", p.id), src: format!("export const marker = 1;\n{}", p.src), path: Some("/app/b.ts".into()), modules: BTreeMap::new(), calls: vec![] });
    }
    v
}

// ───────────────────────────── what a run leaves behind ─────────────────────────────

/// local names bound by the import declarations of `src` (`import d, { a, b as c } from`,
/// `import * as ns from`)
fn import_locals(src: &str) -> Vec<String> {
    let mut out: Vec<String> = Vec::new();
    let mut rest = src;
    while let Some(at) = rest.find("import ") {
        let before_ok = at == 0 || matches!(rest.as_bytes()[at - 1], b'\n' | b';' | b' ' | b'}');
        let tail = &rest[at + 7..];
        rest = tail;
        if !before_ok {
            continue;
        }
        let Some(end) = tail.find(" from") else { continue };
        let clause = &tail[..end];
        if clause.contains('\n') && !clause.contains('{') {
            continue;
        }
        for part in clause.replace(['{', '}'], ",").split(',') {
            let part = part.trim();
            if part.is_empty() || part == "type" {
                continue;
            }
            let name = part.rsplit(" as ").next().unwrap_or(part).trim();
            if !name.is_empty() && name.chars().all(|c| c.is_alphanumeric() || c == '_' || c == '$') && !out.iter().any(|n| n == name) {
                out.push(name.to_string());
            }
        }
    }
    out
}

/// A second program for the same interpreter: what is visible of the first program's import
/// bindings and top-level declarations from a later, unrelated script.
fn observer_script(p: &Prog) -> String {
    let mut names = import_locals(&p.src);
    for n in ["marker", "value", "counter", "order"] {
        if !names.iter().any(|x| x == n) {
            names.push(n.to_string());
        }
    }
    let parts: Vec<String> = names.iter().map(|n| format!("'{}:' + typeof {}", n, n)).collect();
    format!("[{}].join(',')", parts.join(", "))
}

// ───────────────────────────── module roles ─────────────────────────────

use crate::modgraphs::{ROLE_MODULES, importer};

fn role_trace_main(text: &str, mode: Mode) -> String {
    let mut e = engine::make(mode, &[]);
    let _ = engine::drive(e.as_mut(), text, Some("/app/m.ts"), &BTreeMap::new(), &[]);
    let ex = e.exports();
    let names: Vec<String> = ex.iter().map(|x| x.0.clone()).collect();
    let get = |ex: &Vec<(String, String)>, n: &str| ex.iter().find(|x| x.0 == n).map(|x| x.1.clone()).unwrap_or("<none>".into());
    let value = get(&ex, "value");
    let c0 = get(&ex, "counter");
    e.call_export("bump");
    e.call_export("bump");
    let ex2 = e.exports();
    let c2 = get(&ex2, "counter");
    let strip = |s: String| s.split_once(':').map(|x| x.1.to_string()).unwrap_or(s);
    format!("{}|{}|{}|{}|{}", names.join(","), strip(value), strip(c0), strip(c2.clone()), strip(c2))
}

fn role_trace_import(text: &str, internal: bool) -> String {
    let (spec, mods, internals): (&str, BTreeMap<String, String>, Vec<(String, String)>) = if internal {
        ("app:m", BTreeMap::new(), vec![("app:m".to_string(), text.to_string())])
    } else {
        ("./m.ts", [("/app/m.ts".to_string(), text.to_string())].into_iter().collect(), vec![])
    };
    let mut e = engine::make(Mode::PrepareStep, &internals);
    let t = engine::drive(e.as_mut(), &importer(spec), Some("/app/main.ts"), &mods, &[]);
    // the completion line carries the importer's own report
    t.lines().find(|l| l.starts_with("complete ")).map(|l| l.trim_start_matches("complete s:").to_string()).unwrap_or(t)
}

// ───────────────────────────── judging ─────────────────────────────

fn judge(r: &mut UnitResult, progs: &[Prog]) {
    let lim = Limits { wall: std::time::Duration::from_secs(300), address_space: 3 << 30, stack: 0 };
    let exit = isolate::run(&lim, || {
        for (i, p) in progs.iter().enumerate() {
            let calls: Vec<&str> = p.calls.iter().map(|s| s.as_str()).collect();
            let mut traces = Vec::new();
            for m in MODES {
                let mut e = engine::make(m, &[]);
                let mut t = engine::drive(e.as_mut(), &p.src, p.path.as_deref(), &p.modules, &calls);
                // the same interpreter goes on: a later script observes what the run left
                // behind, then the program itself runs a second time
                if !t.contains("error step-budget") {
                    t.push_str("\n-- later script on the same interpreter --\n");
                    t.push_str(&engine::drive(e.as_mut(), &observer_script(p), None, &BTreeMap::new(), &[]));
                    t.push_str("\n-- the program again on the same interpreter --\n");
                    t.push_str(&engine::drive(e.as_mut(), &p.src, p.path.as_deref(), &p.modules, &calls));
                }
                traces.push(t);
                // a program that does not terminate within the step budget cannot be handed to
                // tsrun_run (which has no budget): skip the remaining entry points
                if traces[0].contains("error step-budget") {
                    break;
                }
            }
            isolate::emit(&format!("{}\u{2}{}\u{3}", i, traces.join("\u{4}")));
        }
        String::new()
    });
    let (text, died) = match exit {
        Exit::Ok(t) => (t, None),
        Exit::Signal(s, t) => (t, Some(format!("signal {}", isolate::signal_name(s)))),
        Exit::Status(c, t) => (t, Some(format!("exit {}", c))),
        Exit::Timeout(t) => (t, Some("timeout".to_string())),
    };
    let mut seen = vec![false; progs.len()];
    for rec in text.split('\u{3}') {
        let Some((i, body)) = rec.split_once('\u{2}') else { continue };
        let Ok(i) = i.parse::<usize>() else { continue };
        if i >= progs.len() {
            continue;
        }
        seen[i] = true;
        let traces: Vec<&str> = body.split('\u{4}').collect();
        if traces.len() != MODES.len() {
            r.inconclusive += 1;
            continue;
        }
        for (k, t) in traces.iter().enumerate().skip(1) {
            r.evaluations += 1;
            r.nontrivial += 1;
            r.stat(&format!("compared_{}", MODES[k].name()), 1);
            if *t != traces[0] {
                // first differing line
                let d = traces[0].lines().zip(t.lines()).find(|(a, b)| a != b).map(|(a, b)| format!("prepare+step: {} | {}: {}", truncate(a, 160), MODES[k].name(), truncate(b, 160))).unwrap_or_else(|| "traces differ in length".into());
                r.violate(
                    format!("entry|{}|{}", progs[i].id, MODES[k].name()),
                    format!("{}: {} disagrees with prepare+step: {}", progs[i].id, MODES[k].name(), d),
                    json!({"id": progs[i].id}),
                );
            }
        }
        if traces[0].contains("need-imports") {
            r.stat("programs_with_import_requests", 1);
        }
        if traces[0].contains("host: giving up") {
            r.stat("programs_cut_by_round_budget", 1);
        }
        if traces[0].contains("suspended pending") {
            r.stat("programs_with_order_traffic", 1);
        }
    }
    if let Some(why) = died {
        let culprit = seen.iter().position(|s| !*s).unwrap_or(0);
        if why == "timeout" {
            r.inconclusive += 1;
        } else {
            r.violate(format!("crash|{}", progs[culprit].id), format!("worker died ({}) while driving {} through the entry points", why, progs[culprit].id), json!({"id": progs[culprit].id}));
        }
        if culprit + 1 < progs.len() {
            judge(r, &progs[culprit + 1..]);
        }
    }
}

fn judge_roles(r: &mut UnitResult) {
    let lim = Limits { wall: std::time::Duration::from_secs(120), address_space: 3 << 30, stack: 0 };
    let exit = isolate::run(&lim, || {
        let mut out = String::new();
        for (n, text) in ROLE_MODULES {
            let main_rust = role_trace_main(text, Mode::PrepareStep);
            let main_eval = role_trace_main(text, Mode::Eval);
            let main_c = role_trace_main(text, Mode::CRun);
            let provided = role_trace_import(text, false);
            let internal = role_trace_import(text, true);
            out.push_str(&format!("{}\u{2}{}\u{2}{}\u{2}{}\u{2}{}\u{2}{}\u{3}", n, main_rust, main_eval, main_c, provided, internal));
        }
        out
    });
    let Exit::Ok(text) = exit else {
        r.violate("crash|roles".to_string(), "worker died while comparing module roles".to_string(), json!({"id": "roles"}));
        return;
    };
    for rec in text.split('\u{3}') {
        let f: Vec<&str> = rec.split('\u{2}').collect();
        if f.len() < 6 {
            continue;
        }
        let names = ["main(prepare+step)", "main(eval)", "main(c-api)", "provided-dependency", "internal-source-module"];
        for k in 1..5 {
            r.evaluations += 1;
            r.nontrivial += 1;
            r.stat("module_role_comparisons", 1);
            if f[1 + k] != f[1] {
                r.violate(
                    format!("role|{}|{}", f[0], names[k]),
                    format!("module '{}' behaves differently as {}: [{}] vs as main: [{}] (fields: export names | value | counter | counter after 2 bumps | via namespace)", f[0], names[k], truncate(f[1 + k], 200), truncate(f[1], 200)),
                    json!({"id": format!("role.{}", f[0])}),
                );
            }
        }
    }
}

const PER_UNIT: usize = 60;

impl Check for C19 {
    fn units(&self, ctx: &Ctx) -> usize {
        1 + programs(ctx).len().div_ceil(PER_UNIT)
    }

    fn run_unit(&self, ctx: &Ctx, idx: usize) -> UnitResult {
        let mut r = UnitResult::default();
        if idx == 0 {
            judge_roles(&mut r);
            r.sample(json!({"role_module": ROLE_MODULES[0].0, "text": ROLE_MODULES[0].1, "importer": importer("./m.ts")}));
            return r;
        }
        let all = programs(ctx);
        let lo = (idx - 1) * PER_UNIT;
        let hi = (lo + PER_UNIT).min(all.len());
        judge(&mut r, &all[lo..hi]);
        if let Some(p) = all.get(lo) {
            r.sample(json!({"program": p.id, "entry_points": MODES.iter().map(|m| m.name()).collect::<Vec<_>>()}));
        }
        r
    }

    fn replay(&self, ctx: &Ctx, case: &Value) -> UnitResult {
        let mut r = UnitResult::default();
        let id = case["id"].as_str().unwrap_or("");
        if id.starts_with("role") {
            judge_roles(&mut r);
            return r;
        }
        let thorough = Ctx { tier: Tier::Thorough, ..ctx.clone() };
        let progs: Vec<Prog> = programs(&thorough).into_iter().filter(|p| p.id == id).collect();
        judge(&mut r, &progs);
        r
    }
}
