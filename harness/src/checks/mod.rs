//! Registry of property checks.
use crate::util::Check;

/// In-program canonical printer (same text runs on node and tsrun).
pub const PRELUDE: &str = include_str!("../prelude.js");

pub mod c01;
pub mod c02;
pub mod c03;
#[cfg(feature = "native")]
pub mod c04;
#[cfg(feature = "native")]
pub mod c05;
#[cfg(feature = "native")]
pub mod c06;
pub mod c07;
pub mod c08;
pub mod c09;
#[cfg(feature = "native")]
pub mod c10;
pub mod c11;
pub mod c12;
pub mod c13;
pub mod c14;
pub mod c15;
#[cfg(feature = "native")]
pub mod c16;
#[cfg(feature = "capi")]
pub mod c17;
pub mod c18;
#[cfg(feature = "native")]
pub mod c19;
pub mod c20;

pub fn lookup(id: &str) -> Option<Box<dyn Check>> {
    match id {
        "C01" => Some(Box::new(c01::C01)),
        "C02" => Some(Box::new(c02::C02)),
        "C03" => Some(Box::new(c03::C03)),
        #[cfg(feature = "native")]
        "C04" => Some(Box::new(c04::C04)),
        #[cfg(feature = "native")]
        "C05" => Some(Box::new(c05::C05)),
        #[cfg(feature = "native")]
        "C06" => Some(Box::new(c06::C06)),
        "C07" => Some(Box::new(c07::C07)),
        "C08" => Some(Box::new(c08::C08)),
        "C09" => Some(Box::new(c09::C09)),
        #[cfg(feature = "native")]
        "C10" => Some(Box::new(c10::C10)),
        "C11" => Some(Box::new(c11::C11)),
        "C12" => Some(Box::new(c12::C12)),
        "C13" => Some(Box::new(c13::C13)),
        "C14" => Some(Box::new(c14::C14)),
        "C15" => Some(Box::new(c15::C15)),
        #[cfg(feature = "native")]
        "C19" => Some(Box::new(c19::C19)),
        #[cfg(feature = "native")]
        "C16" => Some(Box::new(c16::C16)),
        #[cfg(feature = "capi")]
        "C17" => Some(Box::new(c17::C17)),
        "C20" => Some(Box::new(c20::C20)),
        "C18" => Some(Box::new(c18::C18)),
        _ => None,
    }
}
