//! Registry of property checks.
use crate::util::Check;

pub mod c18;

pub fn lookup(id: &str) -> Option<Box<dyn Check>> {
    match id {
        "C18" => Some(Box::new(c18::C18)),
        _ => None,
    }
}
