//! Registry of property checks.
use crate::util::Check;

pub mod c13;
pub mod c18;

pub fn lookup(id: &str) -> Option<Box<dyn Check>> {
    match id {
        "C13" => Some(Box::new(c13::C13)),
        "C18" => Some(Box::new(c18::C18)),
        _ => None,
    }
}
