//! C09 — module graphs load once, dependencies first, whatever the host's order.
//!
//! Every generated DAG is loaded under many host supply strategies (orders, one-at-a-time
//! vs batched, early unrequested supplies, duplicate supplies, re-supplies of modules that
//! already ran). An online monitor checks each NeedImports list (no repeats, nothing already
//! supplied, canonical resolved path == the independent resolver of C18, correct importer),
//! bounded termination, and — from the load log the module bodies write — exactly-once and
//! dependencies-first execution. Result, exports and live-binding observations must be the
//! same for every strategy of one graph and equal the closed-form expectation.

use crate::isolate::{self, Exit, Limits};
use crate::runner;
use crate::util::*;
use serde_json::{Value, json};
use std::cell::RefCell;
use std::collections::{BTreeMap, BTreeSet};
use std::rc::Rc;
use tsrun::{ModulePath, StepResult};

pub struct C09;

#[derive(Clone, Copy, Debug, PartialEq, Eq)]
enum Style {
    Named,
    Default,
    Namespace,
    ReExport,
    ExportStar,
}

const STYLES: [Style; 5] = [Style::Named, Style::Default, Style::Namespace, Style::ReExport, Style::ExportStar];

#[derive(Clone, Debug)]
struct Graph {
    n: usize,
    /// edges[i] = list of (j, style, spelling index) with j > i
    edges: Vec<Vec<(usize, Style, usize)>>,
    /// directory of module k
    dirs: Vec<&'static str>,
}

fn path_of(g: &Graph, k: usize) -> String {
    format!("{}/m{}.ts", g.dirs[k], k)
}

/// a specifier for module j as seen from module i, in one of several equivalent spellings
fn specifier(g: &Graph, i: usize, j: usize, spelling: usize) -> String {
    let from: Vec<&str> = g.dirs[i].split('/').filter(|s| !s.is_empty()).collect();
    let to: Vec<&str> = g.dirs[j].split('/').filter(|s| !s.is_empty()).collect();
    let mut common = 0;
    while common < from.len() && common < to.len() && from[common] == to[common] {
        common += 1;
    }
    let mut rel = String::new();
    let ups = from.len() - common;
    if ups == 0 {
        rel.push_str("./");
    }
    for _ in 0..ups {
        rel.push_str("../");
    }
    for seg in &to[common..] {
        rel.push_str(seg);
        rel.push('/');
    }
    let file = format!("m{}.ts", j);
    match spelling % 4 {
        0 => format!("{}{}", rel, file),
        1 => format!("{}x/../{}", rel, file),
        2 => format!("{}./{}", rel, file),
        _ => path_of(g, j), // absolute
    }
}

/// closed-form value of module k: k + 1 + sum of the values of its direct imports
fn value_of(g: &Graph, k: usize) -> i64 {
    (k as i64 + 1) + g.edges[k].iter().map(|(j, _, _)| value_of(g, *j)).sum::<i64>()
}

fn module_source(g: &Graph, k: usize) -> String {
    let mut s = String::new();
    let mut terms: Vec<String> = vec![format!("{}", k + 1)];
    let mut reexports = String::new();
    for (j, style, sp) in &g.edges[k] {
        let spec = specifier(g, k, *j, *sp);
        match style {
            Style::Named => {
                s.push_str(&format!("import {{ v{j} as i{k}_{j} }} from '{spec}';\n", j = j, k = k, spec = spec));
                terms.push(format!("i{}_{}", k, j));
            }
            Style::Default => {
                s.push_str(&format!("import d{k}_{j} from '{spec}';\n", j = j, k = k, spec = spec));
                terms.push(format!("d{}_{}()", k, j));
            }
            Style::Namespace => {
                s.push_str(&format!("import * as n{k}_{j} from '{spec}';\n", j = j, k = k, spec = spec));
                terms.push(format!("n{}_{}.v{}", k, j, j));
            }
            Style::ReExport => {
                s.push_str(&format!("import {{ v{j} as i{k}_{j} }} from '{spec}';\n", j = j, k = k, spec = spec));
                reexports.push_str(&format!("export {{ v{j} as re{k}_{j} }} from '{spec}';\n", j = j, k = k, spec = spec));
                terms.push(format!("i{}_{}", k, j));
            }
            Style::ExportStar => {
                s.push_str(&format!("import {{ v{j} as i{k}_{j} }} from '{spec}';\n", j = j, k = k, spec = spec));
                reexports.push_str(&format!("export * as star{k}_{j} from '{spec}';\n", j = j, k = k, spec = spec));
                terms.push(format!("i{}_{}", k, j));
            }
        }
    }
    s.push_str(&reexports);
    s.push_str("if (!globalThis.__loads) { globalThis.__loads = []; }\n");
    s.push_str(&format!("globalThis.__loads.push('m{}');\n", k));
    s.push_str(&format!("export let v{k} = {};\n", terms.join(" + "), k = k));
    s.push_str(&format!("export function bump{k}() {{ v{k} += 1000; return v{k}; }}\n", k = k));
    s.push_str(&format!("export default function () {{ return v{k}; }}\n", k = k));
    if k == 0 {
        // main: report loads, own value, then live bindings after bumping every direct import
        let mut live = Vec::new();
        let mut bumps = String::new();
        for (j, style, sp) in &g.edges[0] {
            let read = match style {
                Style::Default => format!("d0_{}()", j),
                Style::Namespace => format!("n0_{}.v{}", j, j),
                _ => format!("i0_{}", j),
            };
            // the exporter mutates its binding; the importer must see the new value
            s = format!("import {{ bump{j} as bump0_{j} }} from '{}';\n{}", specifier(g, 0, *j, *sp + 1), s, j = j);
            bumps.push_str(&format!("bump0_{}();\n", j));
            live.push(format!("'m{}:' + {}", j, read));
        }
        s.push_str(&bumps);
        s.push_str("const __before = globalThis.__loads.join(',');\n");
        s.push_str(&format!("const __r = [__before, String(v0)];\n"));
        s.push_str("export const report = __r;\n");
        if !live.is_empty() {
            s.push_str(&format!("__r.push([{}].join(';'));\n", live.join(", ")));
        }
        s.push_str("__r.join('|')\n");
    }
    s
}

fn all_dags(n: usize) -> Vec<Vec<Vec<usize>>> {
    // adjacency for ordered nodes, edges i -> j with i < j; every node reachable from 0
    let pairs: Vec<(usize, usize)> = (0..n).flat_map(|i| (i + 1..n).map(move |j| (i, j))).collect();
    let mut out = Vec::new();
    for mask in 0u32..(1 << pairs.len()) {
        let mut adj = vec![Vec::new(); n];
        for (b, (i, j)) in pairs.iter().enumerate() {
            if mask & (1 << b) != 0 {
                adj[*i].push(*j);
            }
        }
        let mut reach = vec![false; n];
        let mut st = vec![0];
        while let Some(x) = st.pop() {
            if !reach[x] {
                reach[x] = true;
                st.extend(adj[x].iter());
            }
        }
        if reach.iter().all(|r| *r) {
            out.push(adj);
        }
    }
    out
}

const DIRS: [&str; 5] = ["/app", "/app/lib", "/app/lib/deep", "/other", "/"];

fn graphs(ctx: &Ctx) -> Vec<(String, Graph)> {
    let mut v = Vec::new();
    // exhaustive: all DAGs with 1..4 modules, styles and spellings assigned by rotation
    for n in 1..=4 {
        for (gi, adj) in all_dags(n).into_iter().enumerate() {
            let variants = if ctx.thorough() { 5 } else { 2 };
            for var in 0..variants {
                let mut e = 0;
                let edges: Vec<Vec<(usize, Style, usize)>> = adj
                    .iter()
                    .map(|js| {
                        js.iter()
                            .map(|j| {
                                e += 1;
                                (*j, STYLES[(gi + var + e) % 5], (gi + var * 2 + e) % 4)
                            })
                            .collect()
                    })
                    .collect();
                let dirs: Vec<&'static str> = (0..n).map(|k| if var == 0 { "/app" } else { DIRS[(k + gi + var) % 5] }).collect();
                let dirs: Vec<&'static str> = dirs.into_iter().map(|d| if d == "/" { "" } else { d }).collect();
                v.push((format!("dag{}.{}.v{}", n, gi, var), Graph { n, edges, dirs }));
            }
        }
    }
    // random DAGs of 5..8 modules
    let nr = if ctx.thorough() { 200 } else { 40 };
    let fam = if ctx.thorough() { 0 } else { ctx.seed % 8 };
    for r in 0..nr {
        let mut rng = Rng::derive("c09-dag", fam, r as u64);
        let n = 5 + rng.below(4);
        let mut edges: Vec<Vec<(usize, Style, usize)>> = vec![Vec::new(); n];
        for j in 1..n {
            // at least one importer among earlier modules
            let i = rng.below(j);
            edges[i].push((j, *rng.pick(&STYLES), rng.below(4)));
            for i2 in 0..j {
                if i2 != i && rng.chance(1, 4) {
                    edges[i2].push((j, *rng.pick(&STYLES), rng.below(4)));
                }
            }
        }
        let dirs: Vec<&'static str> = (0..n).map(|_| *rng.pick(&["/app", "/app/lib", "/app/lib/deep", "/other", ""])).collect();
        v.push((format!("rand{}.{}.{}", n, fam, r), Graph { n, edges, dirs }));
    }
    v
}

#[derive(Clone, Copy, Debug)]
struct Strategy {
    order: u8,   // 0 as requested, 1 reversed, 2 rotated, 3 random
    batch: u8,   // 0 all at once, 1 one per round
    extras: u8,  // 0 none, 1 early supply of everything, 2 duplicate supplies, 3 re-supply loaded modules later
    seed: u64,
}

fn strategies(random_extra: usize, base_seed: u64) -> Vec<Strategy> {
    let mut v = Vec::new();
    for order in 0..3 {
        for batch in 0..2 {
            for extras in 0..4 {
                v.push(Strategy { order, batch, extras, seed: 0 });
            }
        }
    }
    for k in 0..random_extra {
        v.push(Strategy { order: 3, batch: (k % 2) as u8, extras: (k % 4) as u8, seed: base_seed + k as u64 });
    }
    v
}

/// independent resolver (the reference of C18)
fn ref_resolve(spec: &str, importer: &str) -> String {
    let joined = if spec.starts_with('/') {
        spec.to_string()
    } else {
        match importer.rfind('/') {
            Some(i) => format!("{}/{}", &importer[..i], spec),
            None => spec.to_string(),
        }
    };
    let mut st: Vec<&str> = Vec::new();
    for seg in joined.split('/') {
        match seg {
            "" | "." => {}
            ".." => {
                st.pop();
            }
            s => st.push(s),
        }
    }
    format!("/{}", st.join("/"))
}

struct RunReport {
    result: String,
    exports: String,
    problems: Vec<(String, String)>,
    rounds: usize,
}

fn load_graph(g: &Graph, s: &Strategy) -> RunReport {
    let log = Rc::new(RefCell::new(Vec::new()));
    let mut interp = runner::new_interp(&log);
    interp.set_gc_threshold(1);
    let sources: BTreeMap<String, String> = (0..g.n).map(|k| (path_of(g, k), module_source(g, k))).collect();
    // who imports what, under which specifier (for the importer check)
    let mut importers: BTreeMap<String, BTreeSet<(String, String)>> = BTreeMap::new();
    for i in 0..g.n {
        for (j, _, sp) in &g.edges[i] {
            importers.entry(path_of(g, *j)).or_default().insert((path_of(g, i), specifier(g, i, *j, *sp)));
            if i == 0 {
                // the entry module also imports the exporter's bump function under another spelling
                importers.entry(path_of(g, *j)).or_default().insert((path_of(g, 0), specifier(g, 0, *j, *sp + 1)));
            }
        }
    }
    let mut problems: Vec<(String, String)> = Vec::new();
    let mut supplied: BTreeSet<String> = BTreeSet::new();
    let mut requested_ever: BTreeSet<String> = BTreeSet::new();
    let mut rng = Rng::new(s.seed);
    let main_path = path_of(g, 0);
    let mut st = interp.prepare(&sources[&main_path], Some(ModulePath::new(main_path.clone())));
    let mut rounds = 0usize;
    let mut steps = 0u64;
    let mut backlog: Vec<String> = Vec::new();
    let result = loop {
        match st {
            Err(e) => break format!("error:{}", runner::error_class(&e).0),
            Ok(StepResult::Complete(v)) => break format!("value:{}", runner::show_value(v.value())),
            Ok(StepResult::Done) => break "done".to_string(),
            Ok(StepResult::Suspended { .. }) => break "suspended".to_string(),
            Ok(StepResult::Continue) => {
                steps += 1;
                if steps > 400_000 {
                    break "limit".to_string();
                }
                st = interp.step();
            }
            Ok(StepResult::NeedImports(reqs)) => {
                rounds += 1;
                if rounds > g.n * 3 + 4 {
                    problems.push(("termination".into(), format!("still requesting imports after {} rounds for {} modules", rounds, g.n)));
                    break "no-termination".to_string();
                }
                // ── monitor the request list ──
                let mut seen = BTreeSet::new();
                for r in &reqs {
                    let p = r.resolved_path.as_str().to_string();
                    if !seen.insert(p.clone()) {
                        problems.push(("repeat-in-request".into(), format!("{} requested twice in one NeedImports", p)));
                    }
                    if supplied.contains(&p) {
                        problems.push(("re-request".into(), format!("{} requested although it was already supplied", p)));
                    }
                    let importer = r.importer.as_ref().map(|i| i.as_str().to_string()).unwrap_or_else(|| main_path.clone());
                    let want = ref_resolve(&r.specifier, &importer);
                    if p != want {
                        problems.push(("non-canonical-path".into(), format!("specifier {:?} from {} resolved to {:?}, reference {:?}", r.specifier, importer, p, want)));
                    }
                    match importers.get(&want) {
                        Some(set) if set.contains(&(importer.clone(), r.specifier.clone())) => {}
                        _ => problems.push(("wrong-importer".into(), format!("request {:?} names importer {} which does not import it", r.specifier, importer))),
                    }
                    requested_ever.insert(p);
                }
                // ── host strategy ──
                let mut order: Vec<String> = reqs.iter().map(|r| r.resolved_path.as_str().to_string()).collect();
                match s.order {
                    1 => order.reverse(),
                    2 => {
                        let k = 1.min(order.len().saturating_sub(1));
                        order.rotate_left(k);
                    }
                    3 => rng.shuffle(&mut order),
                    _ => {}
                }
                backlog.retain(|p| !supplied.contains(p));
                for p in &order {
                    if !backlog.contains(p) {
                        backlog.push(p.clone());
                    }
                }
                let now: Vec<String> = if s.batch == 1 { backlog.iter().take(1).cloned().collect() } else { backlog.clone() };
                if s.extras == 1 && rounds == 1 {
                    // early, unrequested: everything the graph contains
                    for (p, src) in &sources {
                        if *p != main_path && !supplied.contains(p) && !now.contains(p) {
                            let _ = interp.provide_module(ModulePath::new(p.clone()), src);
                            supplied.insert(p.clone());
                        }
                    }
                }
                for p in &now {
                    match sources.get(p) {
                        Some(src) => {
                            if interp.provide_module(ModulePath::new(p.clone()), src).is_err() {
                                problems.push(("provide-failed".into(), format!("provide_module({}) failed", p)));
                            }
                            supplied.insert(p.clone());
                            if s.extras == 2 {
                                // duplicate supply of the same source
                                let _ = interp.provide_module(ModulePath::new(p.clone()), src);
                            }
                        }
                        None => {
                            problems.push(("unknown-module-requested".into(), format!("{} is not a module of the graph", p)));
                        }
                    }
                }
                if s.extras == 3 && rounds > 1 {
                    // re-supply modules that were supplied in earlier rounds (they may have run already)
                    let again: Vec<String> = supplied.iter().filter(|p| !now.contains(p)).cloned().collect();
                    for p in again {
                        if let Some(src) = sources.get(&p) {
                            let _ = interp.provide_module(ModulePath::new(p.clone()), src);
                        }
                    }
                }
                backlog.retain(|p| !supplied.contains(p));
                st = interp.step();
            }
        }
    };
    // ── second program on the same interpreter (strategies with re-supplies): it imports
    // every module of the graph again plus a new one; the host re-supplies everything.
    // Modules that already ran must neither be requested nor run again.
    let mut result = result;
    if s.extras == 3 && result.starts_with("value:") && g.n > 1 {
        let mut src2 = String::new();
        let mut terms = Vec::new();
        for k in 1..g.n {
            src2.push_str(&format!("import {{ v{k} as w{k} }} from '{}';\n", path_of(g, k), k = k));
            terms.push(format!("w{}", k));
        }
        src2.push_str("import { extra } from '/second/extra.ts';\n");
        src2.push_str(&format!("globalThis.__loads.push('main2');\n[globalThis.__loads.join(','), String({} + extra)].join('|')\n", terms.join(" + ")));
        let extra_src = format!("import {{ v{k} }} from '{}';\nglobalThis.__loads.push('extra');\nexport const extra = v{k} * 0 + 7;\n", path_of(g, g.n - 1), k = g.n - 1);
        let mut st2 = interp.prepare(&src2, Some(ModulePath::new("/second/main2.ts")));
        let mut rounds2 = 0;
        let mut steps2 = 0u64;
        let second = loop {
            match st2 {
                Err(e) => break format!("error:{}", runner::error_class(&e).0),
                Ok(StepResult::Complete(v)) => break format!("value:{}", runner::show_value(v.value())),
                Ok(StepResult::Continue) => {
                    steps2 += 1;
                    if steps2 > 400_000 {
                        break "limit".to_string();
                    }
                    st2 = interp.step();
                }
                Ok(StepResult::NeedImports(reqs)) => {
                    rounds2 += 1;
                    if rounds2 > 6 {
                        break "no-termination".to_string();
                    }
                    for r in &reqs {
                        if sources.contains_key(r.resolved_path.as_str()) {
                            problems.push(("re-request".into(), format!("second program: {} requested although it was loaded by the first program", r.resolved_path.as_str())));
                        }
                    }
                    // hostile host: re-supplies the whole first graph and the new module
                    for (p, src) in &sources {
                        if *p != main_path {
                            let _ = interp.provide_module(ModulePath::new(p.clone()), src);
                        }
                    }
                    let _ = interp.provide_module(ModulePath::new("/second/extra.ts"), &extra_src);
                    st2 = interp.step();
                }
                Ok(_) => break "other".to_string(),
            }
        };
        match second.strip_prefix("value:") {
            Some(v2) => {
                let loads2: Vec<&str> = v2.split('|').next().unwrap_or("").split(',').collect();
                for k in 0..g.n {
                    let name = format!("m{}", k);
                    let c = loads2.iter().filter(|l| **l == name).count();
                    if c != 1 {
                        problems.push(("loaded-twice".into(), format!("after a second program that re-imports the graph, module {} ran {} times: {}", name, c, loads2.join(","))));
                    }
                }
                let want2: i64 = (1..g.n).map(|k| value_of(g, k)).sum::<i64>() + 7 + (g.edges[0].len() as i64) * 1000 * 0;
                let _ = want2;
            }
            None => problems.push(("second-program-failed".into(), format!("second program ended with {}", second))),
        }
        result = format!("{}#second:{}", result, if second.starts_with("value:") { "ok" } else { second.as_str() });
    }
    let mut names = tsrun::api::get_export_names(&interp);
    names.sort();
    let exports: Vec<String> = names
        .iter()
        .filter(|n| !n.starts_with("report"))
        .map(|n| format!("{}={}", n, tsrun::api::get_export(&interp, n).map(|v| runner::show_value(&v)).unwrap_or_default()))
        .collect();
    RunReport { result, exports: exports.join(","), problems, rounds }
}

/// checks on one run that need the graph: load log exactly-once / dependencies-first, value
fn check_semantics(g: &Graph, rep: &RunReport, problems: &mut Vec<(String, String)>) {
    let first = rep.result.split("#second:").next().unwrap_or("");
    let Some(val) = first.strip_prefix("value:") else {
        problems.push(("no-result".into(), format!("loading ended with {}", rep.result)));
        return;
    };
    let parts: Vec<&str> = val.split('|').collect();
    let loads: Vec<&str> = parts.first().map(|s| s.split(',').collect()).unwrap_or_default();
    let mut pos: BTreeMap<usize, usize> = BTreeMap::new();
    for (i, l) in loads.iter().enumerate() {
        let k: usize = l.trim_start_matches('m').parse().unwrap_or(999);
        if pos.insert(k, i).is_some() {
            problems.push(("loaded-twice".into(), format!("module m{} ran more than once: {}", k, parts[0])));
        }
    }
    for k in 0..g.n {
        if !pos.contains_key(&k) {
            problems.push(("not-loaded".into(), format!("module m{} never ran: {}", k, parts[0])));
        }
    }
    for i in 0..g.n {
        for (j, _, _) in &g.edges[i] {
            if let (Some(pi), Some(pj)) = (pos.get(&i), pos.get(j))
                && pj > pi
            {
                problems.push(("dependency-after-importer".into(), format!("m{} ran before its import m{}: {}", i, j, parts[0])));
            }
        }
    }
    let want = value_of(g, 0);
    if parts.get(1).and_then(|s| s.parse::<i64>().ok()) != Some(want) {
        problems.push(("wrong-value".into(), format!("main computed {:?}, closed form {}", parts.get(1), want)));
    }
}

const PER_UNIT: usize = 24;

fn judge(r: &mut UnitResult, gs: &[(String, Graph)], thorough: bool) {
    let lim = Limits { wall: std::time::Duration::from_secs(300), address_space: 3 << 30, stack: 0 };
    let exit = isolate::run(&lim, || {
        for (gi, (_, g)) in gs.iter().enumerate() {
            let strat = strategies(if g.n > 4 { if thorough { 40 } else { 16 } } else { 4 }, gi as u64 * 1000);
            let mut canonical: Option<(String, String)> = None;
            for (si, s) in strat.iter().enumerate() {
                let rep = load_graph(g, s);
                let mut problems = rep.problems.clone();
                check_semantics(g, &rep, &mut problems);
                match &canonical {
                    None => canonical = Some((rep.result.split("#second:").next().unwrap_or("").to_string(), rep.exports.clone())),
                    Some((res, ex)) => {
                        if *res != rep.result.split("#second:").next().unwrap_or("") {
                            problems.push(("schedule-dependent-result".into(), format!("result {:?} differs from the request-order schedule's {:?}", truncate(&rep.result, 120), truncate(res, 120))));
                        }
                        if *ex != rep.exports {
                            problems.push(("schedule-dependent-exports".into(), format!("exports {:?} differ from {:?}", truncate(&rep.exports, 120), truncate(ex, 120))));
                        }
                    }
                }
                let ps: Vec<String> = problems.iter().map(|(c, d)| format!("{}\u{5}{}", c, d)).collect();
                isolate::emit(&format!("{}\u{2}{}\u{2}{}\u{2}{}\u{3}", gi, si, rep.rounds, ps.join("\u{4}")));
            }
        }
        String::new()
    });
    let text = match exit {
        Exit::Ok(t) | Exit::Signal(_, t) | Exit::Status(_, t) | Exit::Timeout(t) => t,
    };
    for rec in text.split('\u{3}') {
        let f: Vec<&str> = rec.split('\u{2}').collect();
        if f.len() < 4 {
            continue;
        }
        let (Ok(gi), Ok(si)) = (f[0].parse::<usize>(), f[1].parse::<usize>()) else { continue };
        r.evaluations += 1;
        let rounds: i64 = f[2].parse().unwrap_or(0);
        if rounds >= 1 {
            r.nontrivial += 1;
        }
        r.stat("max_import_rounds", 0);
        r.stat("max_import_rounds_seen", 0);
        if let Some(e) = r.stats.get_mut("max_import_rounds") {
            *e = (*e).max(rounds);
        }
        r.stat("import_rounds_total", rounds);
        if f[3].is_empty() {
            continue;
        }
        let mut classes = BTreeSet::new();
        for p in f[3].split('\u{4}') {
            if let Some((c, d)) = p.split_once('\u{5}')
                && classes.insert(c.to_string())
            {
                let strat = strategies(64, gi as u64 * 1000);
                let s = strat.get(si).copied();
                r.violate(
                    format!("{}|{}", c, gs[gi].0),
                    format!("{} under host strategy {:?}: {}", gs[gi].0, s, d),
                    json!({"graph": gs[gi].0, "strategy": si}),
                );
            }
        }
    }
}

impl Check for C09 {
    fn units(&self, ctx: &Ctx) -> usize {
        graphs(ctx).len().div_ceil(PER_UNIT)
    }

    fn run_unit(&self, ctx: &Ctx, idx: usize) -> UnitResult {
        let mut r = UnitResult::default();
        let all = graphs(ctx);
        let lo = idx * PER_UNIT;
        let hi = (lo + PER_UNIT).min(all.len());
        judge(&mut r, &all[lo..hi], ctx.thorough());
        r.stats.remove("max_import_rounds_seen");
        if let Some((name, g)) = all.get(lo + 5).or(all.get(lo)) {
            r.sample(json!({"graph": name, "modules": g.n, "main_source": module_source(g, 0), "strategies": 24}));
        }
        r
    }

    fn replay(&self, ctx: &Ctx, case: &Value) -> UnitResult {
        let mut r = UnitResult::default();
        let name = case["graph"].as_str().unwrap_or("");
        let thorough = Ctx { tier: Tier::Thorough, ..ctx.clone() };
        let mut gs: Vec<(String, Graph)> = graphs(&thorough).into_iter().filter(|g| g.0 == name).collect();
        if gs.is_empty() {
            gs = graphs(ctx).into_iter().filter(|g| g.0 == name).collect();
        }
        judge(&mut r, &gs, true);
        for (n, g) in &gs {
            eprintln!("--- {} ---", n);
            for k in 0..g.n {
                eprintln!("// {}\n{}", path_of(g, k), module_source(g, k));
            }
        }
        r
    }
}
