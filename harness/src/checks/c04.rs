//! C04 — TypeScript's run-time constructs behave as their standard JavaScript emit.
//!
//! The generator holds an abstract description of a declaration (enum / namespace /
//! class with parameter properties / abstract class) and prints it twice: as TypeScript
//! and as the JavaScript the TypeScript compiler is specified to emit for it (IIFE with
//! forward and reverse assignments for enums, `N.x = ...` rewriting for namespaces,
//! `this.x = x` prologue for parameter properties, erased abstract members). Both texts
//! are followed by the same observer (keys in order and sorted, every member forwards and
//! backwards, `in`, JSON.stringify, calls, errors) and must produce the same outcome:
//!
//!   tsrun(TS)  ==  tsrun(JS emit)      (node-free)
//!   tsrun(TS)  ==  node(JS emit)       (golden-backed, enumerated families)
//!
//! No TypeScript compiler exists in this sandbox; the emit rules are implemented here
//! from the TypeScript handbook / compiler behaviour (see `emit_*`).

use super::c01;
use crate::isolate::{self, Exit, Limits};
use crate::runner::{self, RunConfig};
use crate::util::*;
use serde_json::{Value, json};
use std::collections::HashMap;

pub struct C04;

// ───────────────────────────── enums ─────────────────────────────

#[derive(Clone, Debug)]
enum Init {
    /// previous constant + 1 (0 for the first member)
    Auto,
    Num(f64),
    /// constant expression over earlier members of the same enum: (text in TS, folded value)
    Const(String, f64),
    /// computed (non-constant) numeric initializer
    Computed(String),
    Str(String),
}

#[derive(Clone, Debug)]
struct Member {
    name: String,
    quoted: bool,
    init: Init,
}

#[derive(Clone, Debug)]
struct EnumDecl {
    name: String,
    blocks: Vec<Vec<Member>>,
}

fn num_js(v: f64) -> String {
    if v.fract() == 0.0 && v.abs() < 1e15 { format!("{}", v as i64) } else { format!("{}", v) }
}

fn member_name_ts(m: &Member) -> String {
    if m.quoted { format!("'{}'", m.name) } else { m.name.clone() }
}

impl EnumDecl {
    fn ts(&self) -> String {
        let mut s = String::new();
        for b in &self.blocks {
            let ms: Vec<String> = b
                .iter()
                .map(|m| match &m.init {
                    Init::Auto => member_name_ts(m),
                    Init::Num(v) => format!("{} = {}", member_name_ts(m), num_js(*v)),
                    Init::Const(t, _) => format!("{} = {}", member_name_ts(m), t),
                    Init::Computed(e) => format!("{} = {}", member_name_ts(m), e),
                    Init::Str(v) => format!("{} = '{}'", member_name_ts(m), v),
                })
                .collect();
            s.push_str(&format!("enum {} {{ {} }}\n", self.name, ms.join(", ")));
        }
        s
    }

    /// the emit: one IIFE per declaration block, merged through `E || (E = {})`
    fn js(&self, decl_kw: &str) -> String {
        let n = &self.name;
        let mut s = format!("{} {};\n", decl_kw, n);
        for b in &self.blocks {
            s.push_str(&format!("(function ({}) {{\n", n));
            let mut prev: Option<f64> = Some(-1.0);
            for m in b {
                let q = format!("\"{}\"", m.name);
                match &m.init {
                    Init::Auto => {
                        let v = prev.map(|p| p + 1.0).unwrap_or(0.0);
                        s.push_str(&format!("    {}[{}[{}] = {}] = {};\n", n, n, q, num_js(v), q));
                        prev = Some(v);
                    }
                    Init::Num(v) | Init::Const(_, v) => {
                        s.push_str(&format!("    {}[{}[{}] = {}] = {};\n", n, n, q, num_js(*v), q));
                        prev = Some(*v);
                    }
                    Init::Computed(e) => {
                        // references to earlier members inside a computed initializer are qualified by the emit
                        s.push_str(&format!("    {}[{}[{}] = {}] = {};\n", n, n, q, e, q));
                        prev = None;
                    }
                    Init::Str(v) => {
                        s.push_str(&format!("    {}[{}] = \"{}\";\n", n, q, v));
                        prev = None;
                    }
                }
            }
            s.push_str(&format!("}})({} || ({} = {{}}));\n", n, n));
        }
        s
    }

    fn members(&self) -> Vec<&Member> {
        self.blocks.iter().flatten().collect()
    }

    fn observer(&self) -> String {
        let n = &self.name;
        let mut obs: Vec<String> = vec![
            format!("__show({})", n),
            format!("__show(Object.keys({}).sort().map(function(k){{ return [k, {}[k]]; }}))", n, n),
            format!("__show(Object.keys({}))", n),
            format!("__show(Object.values({}))", n),
            format!("__show(Object.entries({}).length)", n),
            format!("(function(){{ var r = []; for (var k in {}) {{ r.push(k); }} return __show(r); }})()", n),
            format!("JSON.stringify({})", n),
            format!("typeof {}", n),
            format!("__show({}.NotAMember)", n),
            format!("__show({}[99])", n),
            format!("__show('NotAMember' in {})", n),
            format!("__show(99 in {})", n),
            format!("__show(Object.getOwnPropertyNames({}).length)", n),
        ];
        for m in self.members() {
            obs.push(format!("__show({}['{}'])", n, m.name));
            if !m.quoted {
                obs.push(format!("__show({}.{})", n, m.name));
            }
            obs.push(format!("__show({}[{}['{}']])", n, n, m.name));
            obs.push(format!("__show('{}' in {})", m.name, n));
            obs.push(format!("__show({}['{}'] in {})", n, m.name, n));
            obs.push(format!("__show({}.hasOwnProperty('{}'))", n, m.name));
        }
        for v in [-1.0, 0.0, 1.0, 2.0, 3.0, 5.0, 6.0, 7.0, 1.5] {
            obs.push(format!("__show({}[{}])", n, num_js(v)));
        }
        obs_program(&obs)
    }
}

fn obs_program(obs: &[String]) -> String {
    let calls: Vec<String> = obs.iter().map(|o| format!("__try(function(){{ return {}; }})", o)).collect();
    format!("[{}].join('\\u0001')", calls.join(",\n"))
}

/// enumerate enum shapes: sequences of member kinds of length 1..=max over the alphabet,
/// filtered by TypeScript's own validity rules
fn enum_shapes(max_len: usize) -> Vec<EnumDecl> {
    // kinds: a=auto n=num(5) g=neg(-2) f=frac(1.5) d=duplicate of first value r=ref(prev member expr) c=computed s=string q=quoted-name auto
    let alphabet = ['a', 'n', 'g', 'f', 'd', 'r', 'c', 's', 'q'];
    let mut out = Vec::new();
    let mut seqs: Vec<Vec<char>> = vec![vec![]];
    for _ in 0..max_len {
        let mut next = Vec::new();
        for s in &seqs {
            for k in alphabet {
                let mut t = s.clone();
                t.push(k);
                next.push(t);
            }
        }
        for s in &next {
            if let Some(e) = build_enum("E", s) {
                out.push(e);
            }
        }
        seqs = next;
    }
    out
}

/// Some(decl) if the kind sequence is valid TypeScript
fn build_enum(name: &str, kinds: &[char]) -> Option<EnumDecl> {
    let names = ["A", "B", "C", "D", "F", "G"];
    let mut members = Vec::new();
    // value known at compile time after the previous member?
    let mut prev_const: Option<f64> = Some(-1.0);
    let mut first_value: Option<f64> = None;
    for (i, k) in kinds.iter().enumerate() {
        let nm = names[i].to_string();
        let (m, new_prev) = match k {
            'a' | 'q' => {
                let p = prev_const?;
                (Member { name: if *k == 'q' { format!("{}-x", nm.to_lowercase()) } else { nm }, quoted: *k == 'q', init: Init::Auto }, Some(p + 1.0))
            }
            'n' => (Member { name: nm, quoted: false, init: Init::Num(5.0) }, Some(5.0)),
            'g' => (Member { name: nm, quoted: false, init: Init::Num(-2.0) }, Some(-2.0)),
            'f' => (Member { name: nm, quoted: false, init: Init::Num(1.5) }, Some(1.5)),
            'd' => {
                let v = first_value?;
                (Member { name: nm, quoted: false, init: Init::Num(v) }, Some(v))
            }
            'r' => {
                // reference to the previous member, which must be a numeric constant with an identifier name
                if i == 0 {
                    return None;
                }
                let p = prev_const?;
                let prev_m: &Member = members.last()?;
                if prev_m.quoted {
                    return None;
                }
                let (t, v) = match i % 4 {
                    0 => (format!("{} + 10", prev_m.name), p + 10.0),
                    1 => (format!("{} * 2", prev_m.name), p * 2.0),
                    // (`-A` with A = 0 is left out: whether the folded constant is printed as 0 or -0
                    // is a detail of the TypeScript compiler's printer, not of the construct)
                    2 if p == 0.0 => return None,
                    2 => (format!("-{}", prev_m.name), -p),
                    _ => (format!("({} | 8)", prev_m.name), (((p as i64 as i32) | 8) as f64)),
                };
                if p.fract() != 0.0 && i % 4 == 3 {
                    return None;
                }
                (Member { name: nm, quoted: false, init: Init::Const(t, v) }, Some(v))
            }
            'c' => (Member { name: nm, quoted: false, init: Init::Computed(["'abc'.length", "Math.floor(7.9)", "[1, 2].length * 2", "parseInt('12', 10)"][i % 4].to_string()) }, None),
            's' => (Member { name: nm, quoted: false, init: Init::Str(format!("s{}", i)) }, None),
            _ => return None,
        };
        if first_value.is_none()
            && let Some(v) = new_prev
        {
            first_value = Some(v);
        }
        prev_const = new_prev;
        members.push(m);
    }
    Some(EnumDecl { name: name.to_string(), blocks: vec![members] })
}

/// Constant-expression matrix: `enum E { A = x, B = y, C = A op B, D, F = ~C, G = -A, H = x op y }`
/// for every binary operator TypeScript folds and 16 operand values on both sides of the
/// int32 / uint32 / 2^53 boundaries. The emit evaluates the same expressions at run time
/// (qualified member references); only the member values are observed (-0 as 0: a compiler that
/// folds constants prints -0 as 0), so the matrix is independent of how the enum object lists its keys.
// (`**` is left out: the accuracy of the power function is C01 / C15 matter)
const CONST_OPS: &[&str] = &["+", "-", "*", "/", "%", "|", "&", "^", "<<", ">>", ">>>"];
const CONST_OPERANDS: &[&str] =
    &["0", "1", "5", "31", "32", "33", "255", "2147483647", "2147483648", "4294967295", "4294967297", "-1", "-2147483648", "-2147483649", "1.5", "9007199254740993"];

fn enum_const_matrix() -> Vec<(String, String, String, String)> {
    let mut v = Vec::new();
    for (oi, op) in CONST_OPS.iter().enumerate() {
        for (xi, x) in CONST_OPERANDS.iter().enumerate() {
            for (yi, y) in CONST_OPERANDS.iter().enumerate() {
                // `-1 ** y` is a syntax error in both languages: parenthesise literal operands
                // __q: integers as they are (-0 as 0), other numbers in units of 1/1024 (how a
                // double with a long fraction is printed is C15's subject, not this check's)
                let q = "function __q(v) { return typeof v !== 'number' || v % 1 === 0 || v !== v ? v + 0 : '~' + Math.round(v * 1024); }\n";
                let ts = format!("{q}enum E {{ A = {x}, B = {y}, C = A {op} B, D, F = ~C, G = -A, H = ({x}) {op} ({y}) }}\n");
                let js = format!(
                    "{q}var E;\n(function (E) {{\n    E[E[\"A\"] = {x}] = \"A\";\n    E[E[\"B\"] = {y}] = \"B\";\n    E[E[\"C\"] = E.A {op} E.B] = \"C\";\n    E[E[\"D\"] = E.C + 1] = \"D\";\n    E[E[\"F\"] = ~E.C] = \"F\";\n    E[E[\"G\"] = -E.A] = \"G\";\n    E[E[\"H\"] = ({x}) {op} ({y})] = \"H\";\n}})(E || (E = {{}}));\n"
                );
                let obs = obs_program(&["A", "B", "C", "D", "F", "G", "H"].iter().map(|m| format!("__show(__q(E.{}))", m)).chain(["__show(E.C === E.H)".to_string(), "typeof E.D".to_string()]).collect::<Vec<_>>());
                v.push((format!("enum-const/{}/{}/{}", oi, xi, yi), ts, js, obs));
            }
        }
    }
    v
}

/// merged declarations: two or three blocks; later blocks start with an initializer and may refer to E.<earlier>
fn merged_enums() -> Vec<EnumDecl> {
    let mut v = Vec::new();
    let first_blocks = ["a", "aa", "an", "ns", "asn", "ga", "nc"];
    let second_blocks: Vec<Vec<Member>> = vec![
        vec![Member { name: "X".into(), quoted: false, init: Init::Num(10.0) }],
        vec![Member { name: "X".into(), quoted: false, init: Init::Num(10.0) }, Member { name: "Y".into(), quoted: false, init: Init::Auto }],
        vec![Member { name: "X".into(), quoted: false, init: Init::Num(0.0) }, Member { name: "Y".into(), quoted: false, init: Init::Auto }],
        vec![Member { name: "X".into(), quoted: false, init: Init::Str("sx".into()) }],
        vec![Member { name: "X".into(), quoted: false, init: Init::Computed("E.A + 100".into()) }],
        vec![Member { name: "X".into(), quoted: false, init: Init::Num(5.0) }, Member { name: "Y".into(), quoted: false, init: Init::Const("X + 1".into(), 6.0) }],
    ];
    for fb in first_blocks {
        let kinds: Vec<char> = fb.chars().collect();
        let Some(base) = build_enum("E", &kinds) else { continue };
        for sb in &second_blocks {
            let mut e = base.clone();
            e.blocks.push(sb.clone());
            v.push(e.clone());
            // a third block
            e.blocks.push(vec![Member { name: "Z".into(), quoted: false, init: Init::Num(20.0) }, Member { name: "W".into(), quoted: false, init: Init::Auto }]);
            v.push(e);
        }
    }
    v
}

// ───────────────────────────── const enums ─────────────────────────────

/// (ts declaration, uses as (ts expression, inlined js expression))
fn const_enum_cases() -> Vec<(String, Vec<(String, String)>)> {
    vec![
        (
            "const enum CE { A, B, C = 10, D, S = 'str', N = -3, M = C * 2 }".to_string(),
            vec![
                ("CE.A".into(), "0".into()),
                ("CE.B".into(), "1".into()),
                ("CE.C".into(), "10".into()),
                ("CE.D".into(), "11".into()),
                ("CE.S".into(), "\"str\"".into()),
                ("CE.N".into(), "-3".into()),
                ("CE.M".into(), "20".into()),
                ("CE['B']".into(), "1".into()),
                ("CE.A + CE.D".into(), "0 + 11".into()),
                ("[CE.C, CE.S].join()".into(), "[10, \"str\"].join()".into()),
                ("(function(x){ return x === CE.B; })(1)".into(), "(function(x){ return x === 1; })(1)".into()),
                ("({ [CE.S]: CE.C })".into(), "({ [\"str\"]: 10 })".into()),
            ],
        ),
        (
            "const enum Flags { None = 0, A = 1 << 0, B = 1 << 1, C = 1 << 2, AB = A | B, All = ~0 }".to_string(),
            vec![
                ("Flags.None".into(), "0".into()),
                ("Flags.A".into(), "1".into()),
                ("Flags.B".into(), "2".into()),
                ("Flags.C".into(), "4".into()),
                ("Flags.AB".into(), "3".into()),
                ("Flags.All".into(), "-1".into()),
                ("(Flags.AB & Flags.B) !== 0".into(), "(3 & 2) !== 0".into()),
            ],
        ),
    ]
}

// ───────────────────────────── namespaces ─────────────────────────────

#[derive(Clone, Debug)]
enum Item {
    /// export const NAME = EXPR
    ExportConst(String, Expr),
    /// export let NAME = EXPR; followed later by `NAME = NAME + 1;`
    ExportLetBumped(String, Expr),
    /// const NAME = EXPR (not exported)
    LocalConst(String, Expr),
    /// export function NAME(a) { return a + EXPR; }
    ExportFn(String, Expr),
    /// function NAME(a) { return a * 2; } (not exported)
    LocalFn(String),
    /// export class NAME { static tag = LIT; m() { return EXPR; } }
    ExportClass(String, Expr),
    ExportEnum(EnumDecl),
    ExportNs(Ns),
    /// namespace NAME { ... } not exported
    LocalNs(Ns),
}

#[derive(Clone, Debug)]
enum Expr {
    Lit(i64),
    /// reference to an earlier member of the enclosing namespace (exported or local)
    Ref(String),
    Add(Box<Expr>, Box<Expr>),
    /// call of an earlier function member with a literal argument
    Call(String, i64),
    /// qualified reference into a nested namespace member: ["Inner", "y"]
    Path(Vec<String>),
}

#[derive(Clone, Debug)]
struct Ns {
    name: String,
    /// declaration blocks (merging)
    blocks: Vec<Vec<Item>>,
}

impl Ns {
    fn exported_names(&self) -> Vec<String> {
        let mut v = Vec::new();
        for it in self.blocks.iter().flatten() {
            match it {
                Item::ExportConst(n, _) | Item::ExportLetBumped(n, _) | Item::ExportFn(n, _) | Item::ExportClass(n, _) => v.push(n.clone()),
                Item::ExportEnum(e) => v.push(e.name.clone()),
                Item::ExportNs(n) => v.push(n.name.clone()),
                _ => {}
            }
        }
        v
    }

    fn ts(&self, exported: bool) -> String {
        let mut s = String::new();
        for b in &self.blocks {
            s.push_str(&format!("{}namespace {} {{\n", if exported { "export " } else { "" }, self.name));
            for it in b {
                s.push_str(&match it {
                    Item::ExportConst(n, e) => format!("export const {} = {};\n", n, expr_ts(e)),
                    Item::ExportLetBumped(n, e) => format!("export let {} = {};\n{} = {} + 1;\n", n, expr_ts(e), n, n),
                    Item::LocalConst(n, e) => format!("const {} = {};\n", n, expr_ts(e)),
                    Item::ExportFn(n, e) => format!("export function {}(a: number): number {{ return a + {}; }}\n", n, expr_ts(e)),
                    Item::LocalFn(n) => format!("function {}(a: number): number {{ return a * 2; }}\n", n),
                    Item::ExportClass(n, e) => format!("export class {} {{ static tag = '{}'; m(): number {{ return {}; }} }}\n", n, n, expr_ts(e)),
                    Item::ExportEnum(e) => e.ts().lines().map(|l| format!("export {}\n", l)).collect::<String>(),
                    Item::ExportNs(n) => n.ts(true),
                    Item::LocalNs(n) => n.ts(false),
                });
            }
            s.push_str("}\n");
        }
        s
    }

    /// emit; `outer` is the emitted name of the enclosing namespace object (None at top level)
    fn js(&self, outer: Option<&str>, exported: bool, first_decl_kw: &str) -> String {
        let n = &self.name;
        let mut s = String::new();
        let exported_before: Vec<String> = Vec::new();
        let _ = exported_before;
        let all_exported = self.exported_names();
        for (bi, b) in self.blocks.iter().enumerate() {
            if bi == 0 {
                s.push_str(&format!("{} {};\n", first_decl_kw, n));
            }
            s.push_str(&format!("(function ({}) {{\n", n));
            for it in b {
                s.push_str(&match it {
                    Item::ExportConst(m, e) => format!("{}.{} = {};\n", n, m, expr_js(e, n, &all_exported)),
                    Item::ExportLetBumped(m, e) => format!("{}.{} = {};\n{}.{} = {}.{} + 1;\n", n, m, expr_js(e, n, &all_exported), n, m, n, m),
                    Item::LocalConst(m, e) => format!("const {} = {};\n", m, expr_js(e, n, &all_exported)),
                    Item::ExportFn(m, e) => format!("function {}(a) {{ return a + {}; }}\n{}.{} = {};\n", m, expr_js(e, n, &all_exported), n, m, m),
                    Item::LocalFn(m) => format!("function {}(a) {{ return a * 2; }}\n", m),
                    Item::ExportClass(m, e) => format!("class {} {{ static tag = '{}'; m() {{ return {}; }} }}\n{}.{} = {};\n", m, m, expr_js(e, n, &all_exported), n, m, m),
                    Item::ExportEnum(e) => {
                        // let E; (function (E) {...})(E = N.E || (N.E = {}));
                        let inner = e.js("let");
                        inner.replace(&format!("({} || ({} = {{}}))", e.name, e.name), &format!("({} = {}.{} || ({}.{} = {{}}))", e.name, n, e.name, n, e.name))
                    }
                    Item::ExportNs(c) => c.js(Some(n), true, "let"),
                    Item::LocalNs(c) => c.js(Some(n), false, "let"),
                });
            }
            let arg = match (outer, exported) {
                (Some(o), true) => format!("{} = {}.{} || ({}.{} = {{}})", n, o, n, o, n),
                _ => format!("{} || ({} = {{}})", n, n),
            };
            s.push_str(&format!("}})({});\n", arg));
        }
        s
    }
}

fn expr_ts(e: &Expr) -> String {
    match e {
        Expr::Lit(v) => v.to_string(),
        Expr::Ref(n) => n.clone(),
        Expr::Add(a, b) => format!("{} + {}", expr_ts(a), expr_ts(b)),
        Expr::Call(f, v) => format!("{}({})", f, v),
        Expr::Path(p) => p.join("."),
    }
}

/// in the emit, references to *exported* members of the enclosing namespace are qualified
fn expr_js(e: &Expr, ns: &str, exported: &[String]) -> String {
    match e {
        Expr::Lit(v) => v.to_string(),
        Expr::Ref(n) => {
            if exported.contains(n) { format!("{}.{}", ns, n) } else { n.clone() }
        }
        Expr::Add(a, b) => format!("{} + {}", expr_js(a, ns, exported), expr_js(b, ns, exported)),
        // exported functions are emitted as local function declarations too, so a call stays unqualified
        Expr::Call(f, v) => format!("{}({})", f, v),
        Expr::Path(p) => {
            if exported.contains(&p[0]) { format!("{}.{}", ns, p.join(".")) } else { p.join(".") }
        }
    }
}

fn ns_observer(root: &Ns) -> String {
    let mut obs: Vec<String> = Vec::new();
    fn walk(ns: &Ns, path: &str, obs: &mut Vec<String>, depth: usize) {
        obs.push(format!("__show(Object.keys({}))", path));
        obs.push(format!("__show(Object.keys({}).sort())", path));
        obs.push(format!("typeof {}", path));
        for it in ns.blocks.iter().flatten() {
            match it {
                Item::ExportConst(n, _) | Item::ExportLetBumped(n, _) => obs.push(format!("__show({}.{})", path, n)),
                Item::LocalConst(n, _) | Item::LocalFn(n) => {
                    obs.push(format!("typeof {}.{}", path, n));
                    obs.push(format!("typeof {}", n));
                }
                Item::ExportFn(n, _) => {
                    obs.push(format!("__show({}.{}(1))", path, n));
                    obs.push(format!("typeof {}", n));
                }
                Item::ExportClass(n, _) => {
                    obs.push(format!("__show(new {}.{}().m())", path, n));
                    obs.push(format!("__show({}.{}.tag)", path, n));
                }
                Item::ExportEnum(e) => {
                    obs.push(format!("__show({}.{})", path, e.name));
                    obs.push(format!("__show(Object.keys({}.{}).sort())", path, e.name));
                    for m in e.members() {
                        obs.push(format!("__show({}.{}['{}'])", path, e.name, m.name));
                    }
                }
                Item::ExportNs(c) => {
                    if depth < 4 {
                        walk(c, &format!("{}.{}", path, c.name), obs, depth + 1);
                    }
                }
                Item::LocalNs(c) => {
                    obs.push(format!("typeof {}.{}", path, c.name));
                    obs.push(format!("typeof {}", c.name));
                }
            }
        }
    }
    walk(root, &root.name, &mut obs, 0);
    obs_program(&obs)
}

/// hand-built namespace shapes covering the emit rules one by one, then combined
fn namespace_cases() -> Vec<(String, Ns)> {
    use Expr::*;
    use Item::*;
    let b = |e: Expr| Box::new(e);
    let mut v: Vec<(String, Ns)> = Vec::new();
    let ns = |name: &str, blocks: Vec<Vec<Item>>| Ns { name: name.to_string(), blocks };
    v.push(("export-const".into(), ns("N", vec![vec![ExportConst("x".into(), Lit(1))]])));
    v.push(("export-const-ref".into(), ns("N", vec![vec![ExportConst("x".into(), Lit(1)), ExportConst("y".into(), Add(b(Ref("x".into())), b(Lit(10))))]])));
    v.push(("local-const".into(), ns("N", vec![vec![LocalConst("h".into(), Lit(2)), ExportConst("x".into(), Add(b(Ref("h".into())), b(Lit(1))))]])));
    v.push(("only-local".into(), ns("N", vec![vec![LocalConst("h".into(), Lit(2))]])));
    v.push(("export-let-bumped".into(), ns("N", vec![vec![ExportLetBumped("v".into(), Lit(5)), ExportConst("seen".into(), Ref("v".into()))]])));
    v.push(("export-fn".into(), ns("N", vec![vec![ExportConst("x".into(), Lit(3)), ExportFn("f".into(), Ref("x".into()))]])));
    v.push(("fn-uses-local-and-exported".into(), ns("N", vec![vec![ExportConst("x".into(), Lit(3)), LocalConst("h".into(), Lit(4)), ExportFn("f".into(), Add(b(Ref("x".into())), b(Ref("h".into()))))]])));
    v.push(("local-fn".into(), ns("N", vec![vec![LocalFn("g".into()), ExportConst("r".into(), Call("g".into(), 21))]])));
    v.push(("export-fn-called-inside".into(), ns("N", vec![vec![ExportFn("f".into(), Lit(1)), ExportConst("r".into(), Call("f".into(), 5))]])));
    v.push(("export-class".into(), ns("N", vec![vec![ExportConst("x".into(), Lit(7)), ExportClass("K".into(), Ref("x".into()))]])));
    v.push(("export-enum".into(), ns("N", vec![vec![ExportEnum(build_enum("Color", &['a', 'n', 'a']).unwrap())]])));
    v.push(("export-enum-with-strings".into(), ns("N", vec![vec![ExportEnum(build_enum("Mode", &['s', 'n', 'a']).unwrap()), ExportConst("after".into(), Lit(1))]])));
    v.push(("nested".into(), ns("N", vec![vec![ExportConst("x".into(), Lit(1)), ExportNs(ns("In", vec![vec![ExportConst("y".into(), Lit(2))]]))]])));
    v.push(("nested-uses-outer".into(), ns("N", vec![vec![ExportConst("x".into(), Lit(1)), ExportNs(ns("In", vec![vec![ExportConst("y".into(), Lit(2)), ExportFn("f".into(), Ref("y".into()))]])), ExportConst("z".into(), Path(vec!["In".into(), "y".into()]))]])));
    v.push(("nested-3".into(), ns("N", vec![vec![ExportNs(ns("A", vec![vec![ExportNs(ns("B", vec![vec![ExportConst("deep".into(), Lit(42)), ExportFn("f".into(), Ref("deep".into()))]]))]]))]])));
    v.push(("local-namespace".into(), ns("N", vec![vec![LocalNs(ns("Hidden", vec![vec![ExportConst("q".into(), Lit(9))]])), ExportConst("viaHidden".into(), Path(vec!["Hidden".into(), "q".into()]))]])));
    v.push(("merged-2".into(), ns("N", vec![vec![ExportConst("x".into(), Lit(1))], vec![ExportConst("y".into(), Add(b(Ref("x".into())), b(Lit(1))))]])));
    v.push(("merged-3-with-fn".into(), ns("N", vec![vec![ExportConst("x".into(), Lit(1))], vec![ExportFn("f".into(), Ref("x".into()))], vec![ExportConst("r".into(), Call("f".into(), 2)), ExportLetBumped("c".into(), Lit(0))]])));
    v.push(("merged-nested".into(), ns("N", vec![vec![ExportNs(ns("In", vec![vec![ExportConst("a".into(), Lit(1))]]))], vec![ExportNs(ns("In", vec![vec![ExportConst("b".into(), Lit(2))]]))]])));
    v.push(("merged-local-not-shared".into(), ns("N", vec![vec![LocalConst("h".into(), Lit(5)), ExportConst("x".into(), Ref("h".into()))], vec![LocalConst("h".into(), Lit(6)), ExportConst("y".into(), Ref("h".into()))]])));
    v.push(("empty".into(), ns("N", vec![vec![]])));
    v.push((
        "everything".into(),
        ns(
            "App",
            vec![
                vec![
                    ExportConst("version".into(), Lit(3)),
                    LocalConst("secret".into(), Lit(100)),
                    ExportFn("bump".into(), Add(b(Ref("version".into())), b(Ref("secret".into())))),
                    LocalFn("dbl".into()),
                    ExportClass("Svc".into(), Call("dbl".into(), 4)),
                    ExportEnum(build_enum("Level", &['a', 'a', 'n', 'a']).unwrap()),
                    ExportNs(ns("Util", vec![vec![ExportConst("pad".into(), Lit(2)), ExportFn("twice".into(), Ref("pad".into()))]])),
                ],
                vec![ExportLetBumped("counter".into(), Ref("version".into())), ExportNs(ns("Util", vec![vec![ExportConst("more".into(), Lit(8))]]))],
            ],
        ),
    ));
    v
}

/// seeded random namespace trees
fn random_ns(rng: &mut Rng, name: &str, depth: usize) -> Ns {
    let nblocks = 1 + rng.below(if depth == 0 { 3 } else { 2 });
    let mut blocks = Vec::new();
    let mut exported_vals: Vec<String> = Vec::new(); // visible in every later block
    let mut fns: Vec<String> = Vec::new();
    let mut counter = 0;
    for _ in 0..nblocks {
        let mut items = Vec::new();
        let mut locals: Vec<String> = Vec::new();
        let mut local_fns: Vec<String> = Vec::new();
        let n = rng.below(5);
        for _ in 0..n {
            counter += 1;
            let mut refs: Vec<&String> = exported_vals.iter().chain(locals.iter()).collect();
            refs.truncate(8);
            let e = if !refs.is_empty() && rng.chance(2, 3) {
                let r = Expr::Ref((*rng.pick(&refs)).clone());
                if rng.chance(1, 2) { Expr::Add(Box::new(r), Box::new(Expr::Lit(rng.range(1, 9)))) } else { r }
            } else if !fns.is_empty() && rng.chance(1, 3) {
                Expr::Call(rng.pick(&fns).clone(), rng.range(0, 5))
            } else if !local_fns.is_empty() && rng.chance(1, 2) {
                Expr::Call(rng.pick(&local_fns).clone(), rng.range(0, 5))
            } else {
                Expr::Lit(rng.range(0, 50))
            };
            match rng.below(9) {
                0 | 1 => {
                    let nm = format!("c{}", counter);
                    items.push(Item::ExportConst(nm.clone(), e));
                    exported_vals.push(nm);
                }
                2 => {
                    let nm = format!("v{}", counter);
                    items.push(Item::ExportLetBumped(nm.clone(), e));
                    exported_vals.push(nm);
                }
                3 => {
                    let nm = format!("h{}", counter);
                    items.push(Item::LocalConst(nm.clone(), e));
                    locals.push(nm);
                }
                4 => {
                    let nm = format!("f{}", counter);
                    items.push(Item::ExportFn(nm.clone(), e));
                    fns.push(nm);
                }
                5 => {
                    let nm = format!("g{}", counter);
                    items.push(Item::LocalFn(nm.clone()));
                    local_fns.push(nm);
                }
                6 => items.push(Item::ExportClass(format!("K{}", counter), e)),
                7 => {
                    let kinds: Vec<char> = (0..1 + rng.below(3)).map(|_| *rng.pick(&['a', 'n', 's', 'g'])).collect();
                    if let Some(en) = build_enum(&format!("En{}", counter), &kinds) {
                        items.push(Item::ExportEnum(en));
                    }
                }
                _ => {
                    if depth < 2 {
                        items.push(Item::ExportNs(random_ns(rng, &format!("Sub{}", counter), depth + 1)));
                    }
                }
            }
        }
        blocks.push(items);
    }
    Ns { name: name.to_string(), blocks }
}

// ───────────────────────────── declaration merging with values ─────────────────────────────

/// (id, ts, js, observer)
fn value_merge_cases() -> Vec<(String, String, String, String)> {
    let obs = |o: &[&str]| obs_program(&o.iter().map(|s| s.to_string()).collect::<Vec<_>>());
    vec![
        (
            "function+namespace".into(),
            "function Fn(a: number): number { return a + Fn.bias; }\nnamespace Fn { export const bias = 2; export function helper(): string { return 'h'; } }\n".into(),
            "function Fn(a) { return a + Fn.bias; }\n(function (Fn) { Fn.bias = 2; function helper() { return 'h'; } Fn.helper = helper; })(Fn || (Fn = {}));\n".into(),
            obs(&["__show(Fn(1))", "__show(Fn.bias)", "__show(Fn.helper())", "typeof Fn", "__show(['bias', 'helper', 'other'].map(function(k){ return k in Fn; }))"]),
        ),
        (
            "class+namespace".into(),
            "class Cls { v(): number { return Cls.seed; } }\nnamespace Cls { export const seed = 9; export class Inner { } }\n".into(),
            "class Cls { v() { return Cls.seed; } }\n(function (Cls) { Cls.seed = 9; class Inner { } Cls.Inner = Inner; })(Cls || (Cls = {}));\n".into(),
            obs(&["__show(new Cls().v())", "__show(Cls.seed)", "typeof Cls.Inner", "__show(['seed', 'Inner', 'other'].map(function(k){ return k in Cls; }))"]),
        ),
        (
            "enum+namespace".into(),
            "enum Dir { Up, Down }\nnamespace Dir { export function flip(d: Dir): Dir { return d === Dir.Up ? Dir.Down : Dir.Up; } }\n".into(),
            "var Dir;\n(function (Dir) { Dir[Dir[\"Up\"] = 0] = \"Up\"; Dir[Dir[\"Down\"] = 1] = \"Down\"; })(Dir || (Dir = {}));\n(function (Dir) { function flip(d) { return d === Dir.Up ? Dir.Down : Dir.Up; } Dir.flip = flip; })(Dir || (Dir = {}));\n".into(),
            obs(&["__show(Dir.flip(Dir.Up))", "__show(Dir[0])", "__show(Object.keys(Dir).sort())", "typeof Dir.flip"]),
        ),
        (
            "dotted-namespace".into(),
            "namespace Aa.Bb.Cc { export const v = 1; export function f(): number { return v + 1; } }\n".into(),
            "var Aa;\n(function (Aa) { let Bb; (function (Bb) { let Cc; (function (Cc) { Cc.v = 1; function f() { return Cc.v + 1; } Cc.f = f; })(Cc = Bb.Cc || (Bb.Cc = {})); })(Bb = Aa.Bb || (Aa.Bb = {})); })(Aa || (Aa = {}));\n".into(),
            obs(&["__show(Aa.Bb.Cc.v)", "__show(Aa.Bb.Cc.f())", "__show(Object.keys(Aa))", "__show(Object.keys(Aa.Bb))"]),
        ),
        (
            "module-keyword".into(),
            "module Legacy { export const v = 4; }\n".into(),
            "var Legacy;\n(function (Legacy) { Legacy.v = 4; })(Legacy || (Legacy = {}));\n".into(),
            obs(&["__show(Legacy.v)", "__show(Object.keys(Legacy))"]),
        ),
        (
            "enum-initializer-uses-outer-const".into(),
            "const base = 7;\nenum Off { A = base, B = base * 2, C = 'x'.length }\n".into(),
            "const base = 7;\nvar Off;\n(function (Off) { Off[Off[\"A\"] = base] = \"A\"; Off[Off[\"B\"] = base * 2] = \"B\"; Off[Off[\"C\"] = 'x'.length] = \"C\"; })(Off || (Off = {}));\n".into(),
            obs(&["__show(Off)", "__show(Off[7])", "__show(Off[14])", "__show(Off[1])", "__show(Object.keys(Off).sort())"]),
        ),
        (
            "enum-member-shadowing-outer-name".into(),
            "const A = 100;\nenum Sh { A = 1, B = A + 1 }\n".into(),
            "const A = 100;\nvar Sh;\n(function (Sh) { Sh[Sh[\"A\"] = 1] = \"A\"; Sh[Sh[\"B\"] = 2] = \"B\"; })(Sh || (Sh = {}));\n".into(),
            obs(&["__show(Sh.B)", "__show(Sh[2])", "__show(A)"]),
        ),
        (
            "enum-computed-refers-member".into(),
            "enum Cm { A = 3, B = 'ab'.length + A }\n".into(),
            "var Cm;\n(function (Cm) { Cm[Cm[\"A\"] = 3] = \"A\"; Cm[Cm[\"B\"] = 'ab'.length + Cm.A] = \"B\"; })(Cm || (Cm = {}));\n".into(),
            obs(&["__show(Cm.B)", "__show(Cm[5])", "__show(Object.keys(Cm).sort())"]),
        ),
        (
            "enum-in-function".into(),
            "function mk(): string { enum L { A, B = 4, C } return JSON.stringify([L.C, L[4], Object.keys(L).sort()]); }\n".into(),
            "function mk() { let L; (function (L) { L[L[\"A\"] = 0] = \"A\"; L[L[\"B\"] = 4] = \"B\"; L[L[\"C\"] = 5] = \"C\"; })(L || (L = {})); return JSON.stringify([L.C, L[4], Object.keys(L).sort()]); }\n".into(),
            obs(&["mk()", "mk()"]),
        ),
        (
            "namespace-in-function".into(),
            "function mk(): number { namespace Loc { export const v = 2; export function f(): number { return v * 3; } } return Loc.f(); }\n".into(),
            "function mk() { let Loc; (function (Loc) { Loc.v = 2; function f() { return Loc.v * 3; } Loc.f = f; })(Loc || (Loc = {})); return Loc.f(); }\n".into(),
            obs(&["__show(mk())"]),
        ),
        (
            "enum-used-as-object".into(),
            "enum U { A = 1, B = 2 }\nconst copy = { ...U }; const assigned = Object.assign({}, U);\n".into(),
            "var U;\n(function (U) { U[U[\"A\"] = 1] = \"A\"; U[U[\"B\"] = 2] = \"B\"; })(U || (U = {}));\nconst copy = { ...U }; const assigned = Object.assign({}, U);\n".into(),
            obs(&["__show(Object.keys(copy).sort())", "__show(Object.keys(assigned).sort())", "__show(copy[1])", "__show(Object.getOwnPropertyNames(U).sort())", "__show(Object.prototype.hasOwnProperty.call(U, 1))", "__show(U.propertyIsEnumerable('A'))"]),
        ),
        (
            "enum-runtime-mutation".into(),
            "enum Mu { A = 1 }\n(Mu as any).Extra = 5; (Mu as any)[7] = 'Seven'; delete (Mu as any)[1];\n".into(),
            "var Mu;\n(function (Mu) { Mu[Mu[\"A\"] = 1] = \"A\"; })(Mu || (Mu = {}));\nMu.Extra = 5; Mu[7] = 'Seven'; delete Mu[1];\n".into(),
            obs(&["__show(Object.keys(Mu).sort())", "__show(Mu.Extra)", "__show(Mu[7])", "__show(Mu[1])", "__show(Mu.A)"]),
        ),
    ]
}

// ───────────────────────────── parameter properties & abstract classes ─────────────────────────────

#[derive(Clone, Debug)]
struct Param {
    name: String,
    /// "", "public", "private", "protected", "readonly", "public readonly", "private readonly"
    modifier: &'static str,
    default: Option<String>,
    optional: bool,
}

fn class_with_params(name: &str, params: &[Param], body: &str, base: Option<(&str, &str)>) -> (String, String) {
    let ts_params: Vec<String> = params
        .iter()
        .map(|p| {
            format!(
                "{}{}{}{}{}",
                if p.modifier.is_empty() { String::new() } else { format!("{} ", p.modifier) },
                p.name,
                if p.optional { "?" } else { "" },
                ": any",
                p.default.as_ref().map(|d| format!(" = {}", d)).unwrap_or_default()
            )
        })
        .collect();
    let js_params: Vec<String> = params.iter().map(|p| format!("{}{}", p.name, p.default.as_ref().map(|d| format!(" = {}", d)).unwrap_or_default())).collect();
    let assigns: String = params.iter().filter(|p| !p.modifier.is_empty()).map(|p| format!("this.{} = {}; ", p.name, p.name)).collect();
    let (ext, sup) = match base {
        Some((b, args)) => (format!(" extends {}", b), format!("super({}); ", args)),
        None => (String::new(), String::new()),
    };
    let ts = format!("class {}{} {{ constructor({}) {{ {}{} }} }}\n", name, ext, ts_params.join(", "), sup, body);
    let js = format!("class {}{} {{ constructor({}) {{ {}{}{} }} }}\n", name, ext, js_params.join(", "), sup, assigns, body);
    (ts, js)
}

fn param_property_cases() -> Vec<(String, String, String, String)> {
    let mods: &[&'static str] = &["", "public", "private", "protected", "readonly", "public readonly", "private readonly", "protected readonly"];
    let mut v = Vec::new();
    let observer = |cls: &str, arglists: &[&str]| {
        let mut obs = Vec::new();
        for a in arglists {
            obs.push(format!("__show(Object.keys(new {}({})))", cls, a));
            obs.push(format!("__show(new {}({}))", cls, a));
            obs.push(format!("JSON.stringify(new {}({}))", cls, a));
        }
        obs_program(&obs)
    };
    // every modifier alone, with and without default / optional
    for (mi, m) in mods.iter().enumerate() {
        for (vi, (default, optional)) in [(None, false), (Some("7"), false), (None, true)].iter().enumerate() {
            let p = vec![Param { name: "a".into(), modifier: m, default: default.map(|s: &str| s.to_string()), optional: *optional }];
            let (ts, js) = class_with_params("P", &p, "this.body = typeof this.a;", None);
            v.push((format!("pp/single/{}/{}", mi, vi), ts, js, observer("P", &["", "1", "undefined", "null, 2"])));
        }
    }
    // all ordered pairs of modifiers (assignment order = parameter order)
    for (i, m1) in mods.iter().enumerate() {
        for (j, m2) in mods.iter().enumerate() {
            let p = vec![Param { name: "first".into(), modifier: m1, default: None, optional: false }, Param { name: "second".into(), modifier: m2, default: Some("first + 1".into()), optional: false }];
            let (ts, js) = class_with_params("P", &p, "this.sum = first + second;", None);
            v.push((format!("pp/pair/{}/{}", i, j), ts, js, observer("P", &["1", "1, 5", ""])));
        }
    }
    // longer lists: plain before defaulted, defaults referring to earlier parameters and to this
    let lists: Vec<(&str, Vec<Param>, &str)> = vec![
        (
            "plain-then-default",
            vec![Param { name: "host".into(), modifier: "public", default: None, optional: false }, Param { name: "port".into(), modifier: "public", default: Some("80".into()), optional: false }],
            "this.url = this.host + ':' + this.port;",
        ),
        (
            "default-then-plain",
            vec![Param { name: "port".into(), modifier: "public", default: Some("80".into()), optional: false }, Param { name: "host".into(), modifier: "public", default: None, optional: false }],
            "",
        ),
        (
            "default-sees-this",
            vec![Param { name: "a".into(), modifier: "public", default: Some("1".into()), optional: false }, Param { name: "seen".into(), modifier: "public", default: Some("typeof this.a".into()), optional: false }],
            "",
        ),
        (
            "mixed-6",
            vec![
                Param { name: "a".into(), modifier: "public", default: None, optional: false },
                Param { name: "b".into(), modifier: "", default: Some("2".into()), optional: false },
                Param { name: "c".into(), modifier: "private", default: None, optional: true },
                Param { name: "d".into(), modifier: "protected", default: Some("a + b".into()), optional: false },
                Param { name: "e".into(), modifier: "", default: None, optional: false },
                Param { name: "f".into(), modifier: "readonly", default: Some("'f'".into()), optional: false },
            ],
            "this.extra = [a, b, c, d, e, f].length; this.a = this.a + 100;",
        ),
        (
            "body-overwrites",
            vec![Param { name: "x".into(), modifier: "public", default: None, optional: false }, Param { name: "y".into(), modifier: "public", default: None, optional: false }],
            "this.y = 'body'; this.z = this.x;",
        ),
        ("none-public", vec![Param { name: "x".into(), modifier: "".into(), default: None, optional: false }, Param { name: "y".into(), modifier: "", default: Some("3".into()), optional: false }], "this.only = x + y;"),
        ("destructured-neighbour", vec![Param { name: "x".into(), modifier: "public", default: None, optional: false }, Param { name: "y".into(), modifier: "private", default: Some("{ k: 1 }".into()), optional: false }], "this.k = this.y.k;"),
    ];
    for (id, ps, body) in lists {
        let (ts, js) = class_with_params("P", &ps, body, None);
        v.push((format!("pp/list/{}", id), ts, js, observer("P", &["", "1", "1, 2", "1, 2, 3", "1, undefined, 3, undefined, 5", "'h', 8080"])));
    }
    // derived classes: assignments come after super()
    let base_ts = "class Base { log: string[]; constructor(public tag: any = 'base') { this.log = ['base:' + tag]; } }\n";
    let base_js = "class Base { constructor(tag = 'base') { this.tag = tag; this.log = ['base:' + tag]; } }\n";
    for (i, m) in mods.iter().enumerate().skip(1) {
        let p = vec![Param { name: "own".into(), modifier: m, default: Some("5".into()), optional: false }, Param { name: "plain".into(), modifier: "", default: None, optional: false }];
        let (ts, js) = class_with_params("Derived", &p, "this.log.push('derived:' + this.own);", Some(("Base", "plain")));
        v.push((format!("pp/derived/{}", i), format!("{}{}", base_ts, ts), format!("{}{}", base_js, js), observer("Derived", &["", "1", "1, 'p'"])));
    }
    // abstract classes
    let abs_obs = obs_program(
        &[
            "__show(new Sq(3).describe())",
            "__show(Object.getOwnPropertyNames(Shape.prototype).sort())",
            "__show(new Sq(2) instanceof Shape)",
            "typeof Shape.prototype.area",
            "typeof Shape.prototype.name",
            "__show(Object.keys(new Sq(4)))",
            "__show(new Sq(5).kind)",
            "__show(Shape.count)",
            "__show(Sq.make(6).area())",
        ]
        .iter()
        .map(|s| s.to_string())
        .collect::<Vec<_>>(),
    );
    v.push((
        "abstract/basic".into(),
        "abstract class Shape { static count = 0; abstract area(): number; abstract get name(): string; protected abstract readonly kind: string; constructor() { Shape.count++; } describe(): string { return this.name + ' ' + this.area(); } }\nclass Sq extends Shape { kind = 'square'; constructor(private s: number) { super(); } area(): number { return this.s * this.s; } get name(): string { return 'sq'; } static make(n: number): Sq { return new Sq(n); } }\n".into(),
        "class Shape { static count = 0; constructor() { Shape.count++; } describe() { return this.name + ' ' + this.area(); } }\nclass Sq extends Shape { constructor(s) { super(); this.s = s; this.kind = 'square'; } area() { return this.s * this.s; } get name() { return 'sq'; } static make(n) { return new Sq(n); } }\n".into(),
        abs_obs,
    ));
    v.push((
        "abstract/chain".into(),
        "abstract class A0 { abstract a(): string; both(): string { return this.a() + this.b(); } abstract b(): string; }\nabstract class A1 extends A0 { a(): string { return 'a1'; } abstract c(): string; }\nclass A2 extends A1 { b(): string { return 'b2'; } c(): string { return 'c2'; } }\n".into(),
        "class A0 { both() { return this.a() + this.b(); } }\nclass A1 extends A0 { a() { return 'a1'; } }\nclass A2 extends A1 { b() { return 'b2'; } c() { return 'c2'; } }\n".into(),
        obs_program(&["__show(new A2().both())", "__show(Object.getOwnPropertyNames(A0.prototype).sort())", "__show(Object.getOwnPropertyNames(A1.prototype).sort())", "typeof A1.prototype.c", "__show(new A2() instanceof A0)"].iter().map(|s| s.to_string()).collect::<Vec<_>>()),
    ));
    v
}

// ───────────────────────────── all cases ─────────────────────────────

#[derive(Clone)]
struct Case {
    id: String,
    ts: String,
    js: String,
}

fn wrap(decl: &str, observer: &str, ctx_kind: usize) -> String {
    match ctx_kind {
        // script top level
        0 => format!("{}\n{}\n{}", super::PRELUDE, decl, observer),
        // inside a function body, between other statements
        _ => format!("{}\nfunction __ctx() {{\nvar before = [1, 2].map(function(x){{ return x * 2; }});\n{}\nvar after = before.length;\nreturn {} + '\\u0001' + after;\n}}\n__ctx()", super::PRELUDE, decl, observer),
    }
}

fn enumerated_cases(ctx: &Ctx) -> Vec<Case> {
    let mut v = Vec::new();
    let _ = ctx;
    let max_len = 4;
    for e in enum_shapes(max_len) {
        let kinds_id: String = e.ts().chars().filter(|c| !c.is_whitespace()).collect();
        let obs = e.observer();
        v.push(Case { id: format!("enum/{}", hash_hex(&kinds_id)), ts: wrap(&e.ts(), &obs, 0), js: wrap(&e.js("var"), &obs, 0) });
    }
    for (i, e) in merged_enums().into_iter().enumerate() {
        let obs = e.observer();
        v.push(Case { id: format!("enum-merged/{}", i), ts: wrap(&e.ts(), &obs, 0), js: wrap(&e.js("var"), &obs, 0) });
        if i % 3 == 0 {
            v.push(Case { id: format!("enum-merged-in-fn/{}", i), ts: wrap(&e.ts(), &obs, 1), js: wrap(&e.js("let"), &obs, 1) });
        }
    }
    for (id, ts, js, obs) in enum_const_matrix() {
        v.push(Case { id, ts: wrap(&ts, &obs, 0), js: wrap(&js, &obs, 0) });
    }
    for (i, (decl, uses)) in const_enum_cases().into_iter().enumerate() {
        let ts_obs = obs_program(&uses.iter().map(|(t, _)| format!("__show({})", t)).collect::<Vec<_>>());
        let js_obs = obs_program(&uses.iter().map(|(_, j)| format!("__show({})", j)).collect::<Vec<_>>());
        v.push(Case { id: format!("const-enum/{}", i), ts: wrap(&decl, &ts_obs, 0), js: wrap("", &js_obs, 0) });
        v.push(Case { id: format!("const-enum-in-fn/{}", i), ts: wrap(&decl, &ts_obs, 1), js: wrap("", &js_obs, 1) });
    }
    for (id, ns) in namespace_cases() {
        let obs = ns_observer(&ns);
        v.push(Case { id: format!("namespace/{}", id), ts: wrap(&ns.ts(false), &obs, 0), js: wrap(&ns.js(None, false, "var"), &obs, 0) });
    }
    for (id, ts, js, obs) in value_merge_cases() {
        v.push(Case { id: format!("merge/{}", id), ts: wrap(&ts, &obs, 0), js: wrap(&js, &obs, 0) });
    }
    for (id, ts, js, obs) in param_property_cases() {
        v.push(Case { id: id.clone(), ts: wrap(&ts, &obs, 0), js: wrap(&js, &obs, 0) });
        if id.starts_with("pp/list") || id.starts_with("abstract") {
            v.push(Case { id: format!("{}/in-fn", id), ts: wrap(&ts, &obs, 1), js: wrap(&js, &obs, 1) });
        }
    }
    v
}

const R_SHARDS: u64 = 8;

fn random_cases(shard: u64, n: u64) -> Vec<Case> {
    (0..n)
        .map(|i| {
            let mut rng = Rng::derive("c04.random-ns", shard, i);
            let ns = random_ns(&mut rng, "Root", 0);
            let obs = ns_observer(&ns);
            let k = (i % 2) as usize;
            Case { id: format!("random-ns/{}/{}", shard, i), ts: wrap(&ns.ts(false), &obs, k), js: wrap(&ns.js(None, false, if k == 0 { "var" } else { "let" }), &obs, k) }
        })
        .collect()
}

fn outcome(src: &str) -> String {
    let cfg = RunConfig { max_steps: 2_000_000, gc_threshold: Some(0), ..Default::default() };
    let o = runner::run_fresh(src, &cfg);
    match o.kind.as_str() {
        "value" => o.value,
        "error" => format!("!{}: {}", o.error_class, truncate(&o.error_msg, 80)),
        other => format!("!{}", other),
    }
}

/// which observations differ: indices into the \u{1}-separated lists
fn diff_summary(a: &str, b: &str) -> String {
    let (x, y): (Vec<&str>, Vec<&str>) = (a.split('\u{1}').collect(), b.split('\u{1}').collect());
    if x.len() != y.len() {
        return format!("{} vs {}", truncate(a, 150), truncate(b, 150));
    }
    let mut d = Vec::new();
    for (i, (p, q)) in x.iter().zip(y.iter()).enumerate() {
        if p != q {
            d.push(format!("#{}: {} vs {}", i, truncate(p, 70), truncate(q, 70)));
        }
        if d.len() >= 3 {
            break;
        }
    }
    d.join(" ; ")
}

fn judge(r: &mut UnitResult, cases: &[Case], goldens: &HashMap<String, (String, String)>, use_goldens: bool) {
    let lim = Limits { wall: std::time::Duration::from_secs(300), address_space: 3 << 30, stack: 0 };
    let exit = isolate::run(&lim, || {
        for (i, c) in cases.iter().enumerate() {
            let a = outcome(&c.ts);
            let b = outcome(&c.js);
            isolate::emit(&format!("{}\u{2}{}\u{2}{}\u{3}", i, a, b));
        }
        String::new()
    });
    let (text, died) = match exit {
        Exit::Ok(t) => (t, false),
        Exit::Signal(_, t) | Exit::Status(_, t) | Exit::Timeout(t) => (t, true),
    };
    let mut seen = vec![false; cases.len()];
    for rec in text.split('\u{3}') {
        let f: Vec<&str> = rec.split('\u{2}').collect();
        if f.len() < 3 {
            continue;
        }
        let Ok(i) = f[0].parse::<usize>() else { continue };
        if i >= cases.len() {
            continue;
        }
        seen[i] = true;
        let c = &cases[i];
        r.evaluations += 1;
        r.nontrivial += 1;
        let (ts_out, js_out) = (f[1], f[2]);
        let fam = c.id.split('/').next().unwrap_or("");
        if ts_out != js_out {
            r.violate(
                format!("ts-vs-emit|{}|={}", c.id, hash_hex(ts_out)),
                format!("{}: the TypeScript form and its JavaScript emit differ on tsrun: {}", c.id, diff_summary(ts_out, js_out)),
                json!({"id": c.id}),
            );
        }
        r.stat(&format!("pairs.{}", fam), 1);
        if use_goldens {
            match goldens.get(&c.id) {
                Some((h, want)) if *h == hash_hex(&c.js) => {
                    r.stat("compared_with_reference_engine", 1);
                    if ts_out != want {
                        r.violate(
                            format!("ts-vs-reference|{}|={}", c.id, hash_hex(ts_out)),
                            format!("{}: the TypeScript form on tsrun differs from its emit on the reference engine: {}", c.id, diff_summary(ts_out, want)),
                            json!({"id": c.id}),
                        );
                    }
                }
                Some(_) => r.stat("stale_goldens", 1),
                None => r.stat("missing_goldens", 1),
            }
        }
    }
    if died {
        let culprit = seen.iter().position(|s| !*s).unwrap_or(0);
        r.inconclusive += 1;
        r.note(format!("child died at {} (crashes are judged by C05/C06)", cases[culprit].id));
        if culprit + 1 < cases.len() {
            judge(r, &cases[culprit + 1..], goldens, use_goldens);
        }
    }
}

const PER_UNIT: usize = 150;

impl Check for C04 {
    fn units(&self, ctx: &Ctx) -> usize {
        enumerated_cases(ctx).len().div_ceil(PER_UNIT) + if ctx.thorough() { R_SHARDS as usize } else { 1 }
    }

    fn run_unit(&self, ctx: &Ctx, idx: usize) -> UnitResult {
        let mut r = UnitResult::default();
        let all = enumerated_cases(ctx);
        let ne = all.len().div_ceil(PER_UNIT);
        if idx < ne {
            let lo = idx * PER_UNIT;
            let hi = (lo + PER_UNIT).min(all.len());
            let goldens = c01::load_goldens("C04.tsv");
            judge(&mut r, &all[lo..hi], &goldens, true);
            if let Some(c) = all.get(lo) {
                let strip = |t: &str| truncate(t.replace(super::PRELUDE, "").trim(), 700);
                r.sample(json!({"case": c.id, "typescript": strip(&c.ts), "emit": strip(&c.js)}));
            }
        } else {
            let shard = if ctx.thorough() { (idx - ne) as u64 } else { ctx.seed % R_SHARDS };
            let cases = random_cases(shard, if ctx.thorough() { 400 } else { 250 });
            judge(&mut r, &cases, &HashMap::new(), false);
            r.sample(json!({"random_namespace_shard": shard}));
        }
        r
    }

    fn replay(&self, ctx: &Ctx, case: &Value) -> UnitResult {
        let mut r = UnitResult::default();
        let id = case["id"].as_str().unwrap_or("");
        let thorough = Ctx { tier: Tier::Thorough, ..ctx.clone() };
        let cases: Vec<Case> = if let Some(rest) = id.strip_prefix("random-ns/") {
            let p: Vec<u64> = rest.split('/').filter_map(|x| x.parse().ok()).collect();
            random_cases(p.first().copied().unwrap_or(0), 400).into_iter().filter(|c| c.id == id).collect()
        } else {
            enumerated_cases(&thorough).into_iter().filter(|c| c.id == id).collect()
        };
        let goldens = c01::load_goldens("C04.tsv");
        judge(&mut r, &cases, &goldens, !id.starts_with("random-ns/"));
        for c in &cases {
            r.note(format!("TS:\n{}\nJS:\n{}", c.ts.replace(super::PRELUDE, ""), c.js.replace(super::PRELUDE, "")));
        }
        r
    }

    fn dump(&self, _ctx: &Ctx, singles: bool) {
        if singles {
            return;
        }
        let thorough = Ctx { tier: Tier::Thorough, seed: 0, engine: "native".into() };
        for c in enumerated_cases(&thorough) {
            println!("{}", json!({"id": c.id, "src": c.js, "hash": hash_hex(&c.js), "golden": "C04.tsv"}));
        }
    }
}
