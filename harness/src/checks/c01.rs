//! C01 — programs in the supported core evaluate as ECMAScript specifies.
//!
//! Stratum A: the atom matrix + statement-level snippets, compared cell by cell with
//! goldens produced by the reference engine (node) from the very same program text.
//! Batches of cells run in forked children (allocation bombs, stack overflows and hangs
//! kill the child only); a batch that does not complete is re-run cell by cell.

use crate::atoms;
use crate::corpus;
use crate::isolate::{self, Exit, Limits};
use crate::runner::{self, RunConfig};
use crate::util::*;
use serde_json::{Value, json};
use std::collections::HashMap;

pub struct C01;

pub const SEP: &str = "\u{1}";
const BATCH: usize = 32;
const BATCHES_PER_UNIT: usize = 12;

#[derive(Clone)]
pub struct Item {
    pub id: String,
    /// expression form: `__try(function(){ ... })`
    pub call: String,
    pub human: String,
}

fn cap_for(family: &str) -> usize {
    if family.starts_with("bin.") { 2400 } else { 420 }
}

pub fn stmt_items() -> Vec<Item> {
    let src = include_str!("../stmts.js");
    let mut out = Vec::new();
    let mut name: Option<String> = None;
    let mut body = String::new();
    let flush = |name: &Option<String>, body: &str, out: &mut Vec<Item>| {
        if let Some(n) = name {
            out.push(Item {
                id: format!("stmt.{}", n),
                call: format!("__try(function(){{ {} }})", body.trim()),
                human: body.trim().to_string(),
            });
        }
    };
    for line in src.lines() {
        if let Some(n) = line.strip_prefix("//---- ") {
            flush(&name, &body, &mut out);
            name = Some(n.trim().to_string());
            body.clear();
        } else {
            body.push_str(line);
            body.push('\n');
        }
    }
    flush(&name, &body, &mut out);
    out
}

pub fn all_items() -> Vec<Item> {
    let mut v: Vec<Item> = Vec::new();
    for a in atoms::catalogue() {
        for c in atoms::cells_of(&a, cap_for(a.family)) {
            v.push(Item {
                id: c.id,
                call: format!("__try(function(){{ return {}; }})", c.expr),
                human: c.expr,
            });
        }
    }
    v.extend(stmt_items());
    v
}

pub fn batch_program(items: &[Item]) -> String {
    let calls: Vec<&str> = items.iter().map(|i| i.call.as_str()).collect();
    format!("'use strict';\n{}\n[{}].join('\\u0001')", super::PRELUDE, calls.join(",\n"))
}

pub fn golden_path(name: &str) -> String {
    format!("{}/../ref/golden/{}", env!("CARGO_MANIFEST_DIR"), name)
}

/// id -> (hash of the call text, expected output)
pub fn load_goldens(name: &str) -> HashMap<String, (String, String)> {
    let mut m = HashMap::new();
    if let Ok(text) = std::fs::read_to_string(golden_path(name)) {
        for line in text.lines() {
            let mut it = line.splitn(3, '\t');
            if let (Some(id), Some(h), Some(exp)) = (it.next(), it.next(), it.next()) {
                m.insert(id.to_string(), (h.to_string(), unescape(exp)));
            }
        }
    }
    m
}

pub fn load_goldens_for(name: &str, items: &[Item]) -> HashMap<String, (String, String)> {
    let want: std::collections::HashSet<&str> = items.iter().map(|i| i.id.as_str()).collect();
    let mut m = HashMap::new();
    if let Ok(text) = std::fs::read_to_string(golden_path(name)) {
        for line in text.lines() {
            let mut it = line.splitn(3, '\t');
            if let (Some(id), Some(h), Some(exp)) = (it.next(), it.next(), it.next())
                && want.contains(id)
            {
                m.insert(id.to_string(), (h.to_string(), unescape(exp)));
            }
        }
    }
    m
}

pub fn escape(s: &str) -> String {
    s.replace('\\', "\\\\").replace('\n', "\\n").replace('\t', "\\t").replace('\r', "\\r")
}
pub fn unescape(s: &str) -> String {
    let mut out = String::new();
    let mut it = s.chars();
    while let Some(c) = it.next() {
        if c == '\\' {
            match it.next() {
                Some('n') => out.push('\n'),
                Some('t') => out.push('\t'),
                Some('r') => out.push('\r'),
                Some('\\') => out.push('\\'),
                Some(o) => {
                    out.push('\\');
                    out.push(o);
                }
                None => out.push('\\'),
            }
        } else {
            out.push(c);
        }
    }
    out
}

fn limits() -> Limits {
    Limits { wall: std::time::Duration::from_secs(30), address_space: 3 << 30, stack: 0 }
}

/// Run a batch in an isolated child; Some(outputs) if the batch completed with one
/// output per item.
fn run_batch(items: &[Item]) -> Option<Vec<String>> {
    let prog = batch_program(items);
    let cfg = RunConfig { max_steps: 3_000_000, gc_threshold: Some(0), ..Default::default() }; // collector off: GC transparency is C02's subject
    match isolate::run(&limits(), move || {
        let o = runner::run_fresh(&prog, &cfg);
        format!("{}\u{2}{}", o.kind, o.value)
    }) {
        Exit::Ok(text) => {
            let (kind, value) = text.split_once('\u{2}')?;
            if kind != "value" {
                return None;
            }
            let parts: Vec<String> = value.split(SEP).map(|s| s.to_string()).collect();
            if parts.len() == items.len() { Some(parts) } else { None }
        }
        _ => None,
    }
}

/// Run one item alone; always yields a description of what happened.
fn run_single(item: &Item) -> String {
    let prog = batch_program(std::slice::from_ref(item));
    let cfg = RunConfig { max_steps: 3_000_000, gc_threshold: Some(0), ..Default::default() }; // collector off: GC transparency is C02's subject
    match isolate::run(&limits(), move || {
        let o = runner::run_fresh(&prog, &cfg);
        format!("{}\u{2}{}\u{2}{}", o.kind, o.value, o.error_class)
    }) {
        Exit::Ok(text) => {
            let p: Vec<&str> = text.split('\u{2}').collect();
            match p.first().copied() {
                Some("value") => p.get(1).unwrap_or(&"").to_string(),
                Some("error") => format!("!toplevel-error {}", p.get(2).unwrap_or(&"")),
                Some("limit") => "!step-limit".to_string(),
                Some(k) => format!("!{}", k),
                None => "!empty".into(),
            }
        }
        Exit::Signal(s, _) => format!("!crash {}", isolate::signal_name(s)),
        Exit::Status(c, t) => {
            if let Some(i) = t.find("\u{1}PANIC") {
                format!("!panic {}", truncate(&t[i + 7..], 80))
            } else {
                format!("!exit {}", c)
            }
        }
        Exit::Timeout(_) => "!timeout".into(),
    }
}

fn batch_inproc(items: &[Item]) -> Option<Vec<String>> {
    let prog = batch_program(items);
    let cfg = RunConfig { max_steps: 3_000_000, gc_threshold: Some(0), ..Default::default() }; // collector off: GC transparency is C02's subject
    let o = runner::run_fresh(&prog, &cfg);
    if o.kind != "value" {
        return None;
    }
    let parts: Vec<String> = o.value.split(SEP).map(|s| s.to_string()).collect();
    if parts.len() == items.len() { Some(parts) } else { None }
}

pub fn judge_items(r: &mut UnitResult, items: &[Item], goldens: &HashMap<String, (String, String)>, prefix: &str) {
    // One forked child evaluates all batches of the unit and streams the results back; a
    // batch it did not deliver (child died, step limit, top-level error) is re-run in its
    // own child and, if that fails too, cell by cell. (Forking per batch is needlessly slow.)
    let chunks: Vec<&[Item]> = items.chunks(BATCH).collect();
    let mut delivered: HashMap<usize, Vec<String>> = HashMap::new();
    let lim = Limits { wall: std::time::Duration::from_secs(180), address_space: 3 << 30, stack: 0 };
    let exit = isolate::run(&lim, || {
        for (bi, chunk) in chunks.iter().enumerate() {
            match batch_inproc(chunk) {
                Some(outs) => isolate::emit(&format!("{}\u{2}{}\u{3}", bi, outs.join(SEP))),
                None => isolate::emit(&format!("{}\u{2}\u{4}FAIL\u{3}", bi)),
            }
        }
        String::new()
    });
    let text = match exit {
        Exit::Ok(t) | Exit::Signal(_, t) | Exit::Status(_, t) | Exit::Timeout(t) => t,
    };
    for rec in text.split('\u{3}') {
        if let Some((bi, body)) = rec.split_once('\u{2}')
            && let Ok(bi) = bi.parse::<usize>()
            && body != "\u{4}FAIL"
        {
            let parts: Vec<String> = body.split(SEP).map(|s| s.to_string()).collect();
            if bi < chunks.len() && parts.len() == chunks[bi].len() {
                delivered.insert(bi, parts);
            }
        }
    }
    for (bi, chunk) in chunks.iter().enumerate() {
        let outs: Vec<String> = match delivered.remove(&bi) {
            Some(o) => o,
            None => match run_batch(chunk) {
                Some(o) => o,
                None => {
                    r.stat("batches_rerun_singly", 1);
                    chunk.iter().map(run_single).collect()
                }
            },
        };
        for (item, got) in chunk.iter().zip(outs.iter()) {
            r.evaluations += 1;
            let Some((h, want)) = goldens.get(&item.id) else {
                r.inconclusive += 1;
                r.note(format!("no golden for {}", item.id));
                continue;
            };
            if *h != hash_hex(&item.call) {
                r.inconclusive += 1;
                r.note(format!("stale golden for {} (regenerate with --regold)", item.id));
                continue;
            }
            if want.starts_with('!') {
                // the reference engine itself could not evaluate the cell (timeout, memory):
                // nothing to compare against
                r.inconclusive += 1;
                continue;
            }
            r.nontrivial += 1;
            if got == "!timeout" {
                r.inconclusive += 1;
                r.note(format!("{}: wall-clock watchdog", item.id));
                continue;
            }
            if got != want && !(tolerant(&item.id) && approx_equal(got, want)) {
                r.violate(
                    format!("{}|{}|={}", prefix, item.id, hash_hex(got)),
                    format!("{} :: {}  => tsrun {:?}, reference {:?}", item.id, truncate(&item.human, 200), truncate(got, 160), truncate(want, 160)),
                    json!({"id": item.id}),
                );
            }
            let fam = item.id.split(['#', '.']).next().unwrap_or("?");
            r.stat(&format!("cells_{}", fam), 1);
        }
    }
}

/// Families whose results ECMAScript leaves implementation-approximated (`**`,
/// Math.pow): numbers inside the printed value may differ in the last bits.
fn tolerant(id: &str) -> bool {
    id.starts_with("bin.exp#") || id.starts_with("asg.exp#") || id.starts_with("math.pow#") || id.starts_with("math.hypot#")
}

fn num_tokens(s: &str) -> (String, Vec<f64>) {
    // split a printed value into its non-numeric skeleton and the numbers in it
    let b: Vec<char> = s.chars().collect();
    let mut skel = String::new();
    let mut nums = Vec::new();
    let mut i = 0;
    while i < b.len() {
        let c = b[i];
        let starts = c.is_ascii_digit() || (c == '-' && i + 1 < b.len() && b[i + 1].is_ascii_digit());
        if starts {
            let st = i;
            i += 1;
            while i < b.len() && (b[i].is_ascii_digit() || b[i] == '.' || b[i] == 'e' || ((b[i] == '+' || b[i] == '-') && b[i - 1] == 'e')) {
                i += 1;
            }
            let t: String = b[st..i].iter().collect();
            match t.parse::<f64>() {
                Ok(v) => {
                    nums.push(v);
                    skel.push('#');
                }
                Err(_) => skel.push_str(&t),
            }
        } else {
            skel.push(c);
            i += 1;
        }
    }
    (skel, nums)
}

fn approx_equal(a: &str, b: &str) -> bool {
    let (sa, na) = num_tokens(a);
    let (sb, nb) = num_tokens(b);
    sa == sb && na.len() == nb.len() && na.iter().zip(nb.iter()).all(|(x, y)| x == y || (x - y).abs() <= 4e-15 * x.abs().max(y.abs()))
}

impl Check for C01 {
    fn units(&self, ctx: &Ctx) -> usize {
        let n = all_items().len();
        n.div_ceil(BATCH * BATCHES_PER_UNIT) + corpus::b_units(ctx)
    }

    fn run_unit(&self, ctx: &Ctx, idx: usize) -> UnitResult {
        let mut r = UnitResult::default();
        let items = all_items();
        let per = BATCH * BATCHES_PER_UNIT;
        let na = items.len().div_ceil(per);
        if idx < na {
            let lo = idx * per;
            let hi = (lo + per).min(items.len());
            // keep only this unit's slice in memory: the batches run in forked children
            let slice: Vec<Item> = items[lo..hi].to_vec();
            drop(items);
            let goldens = load_goldens_for("C01A.tsv", &slice);
            if goldens.is_empty() {
                r.inconclusive += 1;
                r.note("golden file ref/golden/C01A.tsv missing".into());
                return r;
            }
            judge_items(&mut r, &slice, &goldens, "cell");
            if let Some(it) = slice.first() {
                r.sample(json!({"cell": it.id, "program": it.human}));
            }
        } else {
            corpus::run_b_unit(&mut r, ctx, idx - na);
        }
        r
    }

    fn dump(&self, ctx: &Ctx, singles: bool) {
        dump(ctx, singles);
    }

    fn replay(&self, _ctx: &Ctx, case: &Value) -> UnitResult {
        let mut r = UnitResult::default();
        let id = case["id"].as_str().unwrap_or("");
        if id.starts_with("B/") {
            corpus::replay_b(&mut r, id);
            return r;
        }
        let goldens = load_goldens("C01A.tsv");
        let items: Vec<Item> = all_items().into_iter().filter(|i| i.id == id).collect();
        judge_items(&mut r, &items, &goldens, "cell");
        r
    }
}

/// `tsverif C01 dump`: all batch programs as JSONL {id, src} for the reference engine,
/// plus (on a second pass, `dump-singles <ids>`) single-cell programs.
pub fn dump(ctx: &Ctx, singles: bool) {
    let items = all_items();
    if singles {
        for it in &items {
            println!("{}", json!({"id": it.id, "src": batch_program(std::slice::from_ref(it)), "n": 1}));
        }
        return;
    }
    for (bi, chunk) in items.chunks(BATCH).enumerate() {
        let ids: Vec<&str> = chunk.iter().map(|i| i.id.as_str()).collect();
        let hashes: Vec<String> = chunk.iter().map(|i| hash_hex(&i.call)).collect();
        println!("{}", json!({"id": format!("batch{}", bi), "src": batch_program(chunk), "ids": ids, "hashes": hashes}));
    }
    corpus::dump_b(ctx);
}
