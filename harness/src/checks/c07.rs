//! C07 — suspending and resuming is transparent to the program.
//!
//! Oracle: the reference is the same program with an in-program stand-in for `order` that
//! answers the n-th order the way the host policy does — returns the value / throws the
//! error string directly where the host answers immediately, returns a promise resolved /
//! rejected with it where the host answers with a promise it settles later. The real
//! program must produce the same result and log when the host makes spurious step() calls,
//! batches or permutes the settlement of independent host promises, collects between steps,
//! or runs at GC threshold 1 — and the H1 hook must report no use of a reclaimed object.

use crate::asynchost::{self, Policy};
use crate::isolate::{self, Exit, Limits};
use crate::util::*;
use serde_json::{Value, json};

pub struct C07;

fn policies(concurrent: bool, thorough: bool) -> Vec<(String, Policy)> {
    let mut v: Vec<(String, Policy)> = Vec::new();
    let base = Policy::default();
    v.push(("immediate".into(), base.clone()));
    v.push(("deferred".into(), Policy { deferred_default: true, ..base.clone() }));
    v.push(("alternating".into(), Policy { deferred: vec![true, false, true, false, true, false, true, false], ..base.clone() }));
    v.push(("alternating2".into(), Policy { deferred: vec![false, true, false, true, false, true, false, true], deferred_default: true, ..base.clone() }));
    v.push(("immediate+steps1".into(), Policy { extra_steps: 1, ..base.clone() }));
    v.push(("deferred+steps3".into(), Policy { deferred_default: true, extra_steps: 3, ..base.clone() }));
    v.push(("immediate+gc1".into(), Policy { gc_threshold: Some(1), ..base.clone() }));
    v.push(("deferred+gc1".into(), Policy { deferred_default: true, gc_threshold: Some(1), ..base.clone() }));
    v.push(("deferred+gc0".into(), Policy { deferred_default: true, gc_threshold: Some(0), ..base.clone() }));
    v.push(("deferred+collect".into(), Policy { deferred_default: true, collect: true, gc_threshold: Some(3), ..base.clone() }));
    if concurrent {
        v.push(("deferred+newest-first".into(), Policy { deferred_default: true, settle: 1, ..base.clone() }));
        v.push(("deferred+batch".into(), Policy { deferred_default: true, settle_batch: true, ..base.clone() }));
        let n = if thorough { 24 } else { 6 };
        for s in 0..n {
            v.push((format!("deferred+shuffle{}", s), Policy { deferred_default: true, settle: 100 + s, gc_threshold: if s % 3 == 0 { Some(1) } else { None }, extra_steps: (s % 3) as usize, ..base.clone() }));
        }
    }
    v
}

pub struct Case {
    pub id: String,
    pub body: String,
    pub concurrent: bool,
}

fn cases() -> Vec<Case> {
    let mut v: Vec<Case> = asynchost::AWAIT_ATOMS.iter().map(|(n, b)| Case { id: format!("await.{}", n), body: b.to_string(), concurrent: false }).collect();
    v.extend(asynchost::CONCURRENT_ATOMS.iter().map(|(n, b)| Case { id: format!("concurrent.{}", n), body: b.to_string(), concurrent: true }));
    v
}

// ───────────────────────────── composed programs with await points ─────────────────────────────

pub const COMPOSED_SHARDS: u64 = 32;

/// One composed corpus program (loops, switch, try / finally, destructuring, classes,
/// generators, closures ...) as the body of `async function main`, with a subset of its
/// numeric literals read from the host instead: variant 0 = every site, variant 1 = every
/// third site, variant 2 = one site chosen by the index.
pub fn composed_case(shard: u64, index: u64, variant: u64) -> Option<Case> {
    let p = crate::compose::generate("corpus-b", shard, index);
    let n = crate::compose::await_sites(&p.marked);
    if n == 0 {
        return None;
    }
    let body = crate::compose::render_await(&p.marked, |o| match variant {
        0 => true,
        1 => (o as u64 + index) % 3 == 0,
        _ => o as u64 == (index * 7 + shard) % n as u64,
    });
    Some(Case {
        id: format!("composed.{}/{}#{}", shard, index, variant),
        body: format!("{}\nasync function main(){{\n{}}}", super::PRELUDE, body),
        concurrent: false,
    })
}

fn composed_per_shard(thorough: bool) -> u64 {
    if thorough { 120 } else { 48 }
}

fn composed_cases(ctx: &Ctx) -> Vec<Case> {
    let shards: Vec<u64> = if ctx.thorough() { (0..COMPOSED_SHARDS).collect() } else { vec![ctx.seed % COMPOSED_SHARDS] };
    let mut v = Vec::new();
    for sh in shards {
        for i in 0..composed_per_shard(ctx.thorough()) {
            for variant in 0..3 {
                if let Some(c) = composed_case(sh, i, variant) {
                    v.push(c);
                }
            }
        }
    }
    v
}

const PER_UNIT: usize = 6;
const COMPOSED_PER_UNIT: usize = 36;

fn judge(r: &mut UnitResult, cs: &[Case], thorough: bool) {
    let lim = Limits { wall: std::time::Duration::from_secs(300), address_space: 3 << 30, stack: 0 };
    let exit = isolate::run(&lim, || {
        for (ci, c) in cs.iter().enumerate() {
            // one reference per way of answering (immediately / through a promise, per order)
            let mut refs: std::collections::BTreeMap<String, String> = Default::default();
            for (pn, p) in policies(c.concurrent, thorough) {
                let key = asynchost::reference_key(&p);
                let want = refs.entry(key).or_insert_with(|| asynchost::run(&asynchost::reference_program(&c.body, &p), &Policy::default()).outcome).clone();
                let run = asynchost::run(&asynchost::program(&c.body, true), &p);
                isolate::emit(&format!("{}\u{2}{}\u{2}{}\u{2}{}\u{2}{}\u{2}{}\u{3}", ci, pn, run.outcome, run.stale_events.join(","), run.suspensions, want));
            }
        }
        String::new()
    });
    let text = match exit {
        Exit::Ok(t) | Exit::Signal(_, t) | Exit::Status(_, t) | Exit::Timeout(t) => t,
    };
    for rec in text.split('\u{3}') {
        let f: Vec<&str> = rec.split('\u{2}').collect();
        if f.len() < 6 {
            continue;
        }
        let Ok(ci) = f[0].parse::<usize>() else { continue };
        r.evaluations += 1;
        let susp: u64 = f[4].parse().unwrap_or(0);
        if susp > 0 {
            r.nontrivial += 1;
        }
        r.stat("suspensions_observed", susp as i64);
        let want = f[5];
        // race winners legitimately depend on the schedule
        let comparable = !cs[ci].id.contains("race-winner");
        if comparable && f[2] != want {
            r.violate(
                format!("transparency|{}|{}|={}", cs[ci].id, f[1].split("+shuffle").next().unwrap_or(f[1]), hash_hex(f[2])),
                format!("{} under host policy {}: {} — the same program with an in-program order() answering the same way (value / promise): {}", cs[ci].id, f[1], truncate(f[2], 220), truncate(want, 220)),
                json!({"id": cs[ci].id, "policy": f[1]}),
            );
        }
        if !f[3].is_empty() {
            r.violate(
                format!("stale|{}|{}", cs[ci].id, f[1].split("+shuffle").next().unwrap_or(f[1])),
                format!("{} under host policy {}: a reclaimed object was used ({})", cs[ci].id, f[1], f[3]),
                json!({"id": cs[ci].id, "policy": f[1]}),
            );
        }
    }
}

impl Check for C07 {
    fn units(&self, ctx: &Ctx) -> usize {
        cases().len().div_ceil(PER_UNIT) + composed_cases(ctx).len().div_ceil(COMPOSED_PER_UNIT)
    }

    fn run_unit(&self, ctx: &Ctx, idx: usize) -> UnitResult {
        let mut r = UnitResult::default();
        let all = cases();
        let na = all.len().div_ceil(PER_UNIT);
        if idx >= na {
            let comp = composed_cases(ctx);
            let lo = (idx - na) * COMPOSED_PER_UNIT;
            let hi = (lo + COMPOSED_PER_UNIT).min(comp.len());
            judge(&mut r, &comp[lo..hi], false);
            r.stat("composed_programs_with_await_points", (hi - lo) as i64);
            if let Some(c) = comp.get(lo) {
                r.sample(json!({"program": c.id, "source": truncate(c.body.split("async function main").nth(1).unwrap_or(""), 900)}));
            }
            return r;
        }
        let lo = idx * PER_UNIT;
        let hi = (lo + PER_UNIT).min(all.len());
        judge(&mut r, &all[lo..hi], ctx.thorough());
        if let Some(c) = all.get(lo) {
            r.sample(json!({"program": c.id, "source": asynchost::program(&c.body, true), "policies": policies(c.concurrent, false).iter().map(|p| p.0.clone()).collect::<Vec<_>>()}));
        }
        r
    }

    fn replay(&self, _ctx: &Ctx, case: &Value) -> UnitResult {
        let mut r = UnitResult::default();
        let id = case["id"].as_str().unwrap_or("");
        let cs: Vec<Case> = if let Some(rest) = id.strip_prefix("composed.") {
            // composed.<shard>/<index>#<variant>
            let (sh, rest) = rest.split_once('/').unwrap_or(("0", "0#0"));
            let (ix, var) = rest.split_once('#').unwrap_or(("0", "0"));
            composed_case(sh.parse().unwrap_or(0), ix.parse().unwrap_or(0), var.parse().unwrap_or(0)).into_iter().collect()
        } else {
            cases().into_iter().filter(|c| c.id == id).collect()
        };
        judge(&mut r, &cs, true);
        r
    }
}
