//! C12 — execution is deterministic and interpreter instances are isolated.
//!
//! Trace = terminal step result, canonical value, console log and step count. For every
//! program the solo trace is compared with: a second run in the same process, runs in two
//! freshly exec'd processes (different address-space layout, hence different pointer-keyed
//! hash orders), runs interleaved step by step with 1-3 other interpreters in one thread
//! (round-robin and random schedules, with instances created, failed and dropped in
//! between), and runs on 4 concurrent threads.

use super::c01;
use crate::corpus;
use crate::runner::Stepper;
use crate::util::*;
use serde_json::{Value, json};

pub struct C12;

const PER_UNIT: usize = 60;

/// Programs whose output exposes iteration orders and identity-keyed containers.
fn order_programs() -> Vec<(String, String)> {
    let mut v = Vec::new();
    for n in [0usize, 1, 2, 3, 4, 5, 8, 13, 21, 40] {
        let keys: Vec<String> = (0..n).map(|i| format!("k{}: {}", (i * 7919) % 101, i)).collect();
        v.push((
            format!("order.keys{}", n),
            format!(
                "var o = {{{}}}; o.extra = 1; delete o.k0; o.k0 = 'again'; var r = []; for (var k in o) r.push(k); [Object.keys(o).join(), r.join(), JSON.stringify(o), Object.entries(o).length, Object.values({{...o}}).join()].join('|')",
                keys.join(", ")
            ),
        ));
    }
    let snippets: &[(&str, &str)] = &[
        ("objkeys-in-map", "var ks = []; for (var i = 0; i < 12; i++) ks.push({id: i}); var m = new Map(); for (var j = 11; j >= 0; j--) m.set(ks[j], j); var out = []; m.forEach(function(v, k){ out.push(k.id); }); var s = new Set(ks); out.push([...s].map(function(x){ return x.id; }).join('')); out.join()"),
        ("symbols", "var a = Symbol.for('a'), b = Symbol.for('b'); var o = {}; o[b] = 1; o[a] = 2; o.z = 3; [Symbol.keyFor(a), Symbol.keyFor(b), Object.getOwnPropertySymbols(o).length, Object.keys(o).join()].join('|')"),
        ("sort-stability", "var a = []; for (var i = 0; i < 30; i++) a.push({k: i % 3, i: i}); a.sort(function(x, y){ return x.k - y.k; }); a.map(function(x){ return x.i; }).join()"),
        ("random-and-time", "[Math.random(), Math.random(), Date.now(), new Date().getTime(), typeof performance].join('|')"),
        ("promises", "var log = []; Promise.resolve(1).then(function(v){ log.push('a' + v); }); Promise.all([Promise.resolve(2), 3]).then(function(v){ log.push('b' + v.join('')); }); var af = async function(){ var x = await Promise.resolve(4); log.push('c' + x); return x; }; af(); log.push('sync'); log.join()"),
        ("closures-ids", "var fs = []; for (let i = 0; i < 5; i++) fs.push(function(){ return i * i; }); var w = new Map(); fs.forEach(function(f, i){ w.set(f, i); }); [...w.values()].join() + fs.map(function(f){ return f(); }).join()"),
        ("class-registry", "class A { static reg = new Map(); constructor(n){ this.n = n; A.reg.set(this, n); } } for (var i = 0; i < 6; i++) new A(i); [...A.reg.values()].join()"),
        ("json-nested", "JSON.stringify({z: {b: 1, a: 2}, a: [3, {y: 1, x: 2}], m: new Map([[1, 2]]), s: new Set([1]), d: new Date(0)})"),
        ("generators", "function* g(n){ for (var i = 0; i < n; i++) yield {i: i}; } var all = []; for (var x of g(5)) all.push(x.i); var it1 = g(3), it2 = g(3); [it1.next().value.i, it2.next().value.i, it1.next().value.i, all.join('')].join()"),
        ("errors", "var r = []; try { null.x; } catch (e) { r.push(e.name, typeof e.message); } try { undefinedName; } catch (e) { r.push(e.name); } r.join()"),
        ("console", "console.log('a', 1, {b: 2}); console.warn('w'); console.error([1, 2]); 'logged'"),
        ("regex-state", "var re = /a(b)?/g; var out = []; var m; while ((m = re.exec('abaab'))) out.push(m.index + ':' + m[0]); out.join()"),
    ];
    for (n, s) in snippets {
        v.push((format!("order.{}", n), (*s).to_string()));
    }
    v
}

/// Module programs: the order of a namespace object's members and of the host-visible export
/// list must not depend on where strings happen to live in memory.
fn module_programs() -> Vec<(String, String)> {
    let names = ["zeta", "alpha", "mid", "Beta", "gamma", "omega", "delta", "kappa", "Lambda", "eta", "theta", "iota", "nu", "xi", "pi", "rho"];
    let lib: String = names
        .iter()
        .enumerate()
        .map(|(i, n)| match i % 4 {
            0 => format!("export const {} = {};\n", n, i),
            1 => format!("export function {}() {{ return {}; }}\n", n, i),
            2 => format!("export let {} = '{}';\n", n, i),
            _ => format!("export class {} {{ static v = {}; }}\n", n, i),
        })
        .collect();
    let walk = "var ks = Object.keys(ns); var fi = []; for (var k in ns) { fi.push(k); } var en = Object.entries(ns).map(function(e){ return e[0]; });";
    let mk = |id: &str, main: &str, mods: Vec<(&str, String)>| {
        let m: serde_json::Map<String, Value> = mods.into_iter().map(|(k, v)| (k.to_string(), Value::String(v))).collect();
        (format!("module.{}", id), format!("//!modules {}\n{}", json!({"main": "/app/main.ts", "mods": m}), main))
    };
    let mut v = Vec::new();
    v.push(mk("namespace-keys", &format!("import * as ns from './lib.ts';\n{}\nexport const keys = ks.join();\n[ks.join(), fi.join(), en.join(), JSON.stringify(Object.keys({{...ns}}))].join('|')", walk), vec![("/app/lib.ts", lib.clone())]));
    v.push(mk(
        "export-star",
        &format!("import * as ns from './barrel.ts';\n{}\n[ks.join(), fi.join(), en.join()].join('|')", walk),
        vec![("/app/lib.ts", lib.clone()), ("/app/barrel.ts", "export * from './lib.ts';\nexport const own1 = 1;\nexport const Own2 = 2;\nexport * as nested from './lib.ts';\n".to_string())],
    ));
    v.push(mk(
        "own-exports",
        &format!("{}export default 7;\nexport {{ zeta as renamedZ, alpha as A }};\n'done'", lib),
        vec![],
    ));
    v.push(mk(
        "two-libraries",
        &format!("import * as ns from './lib.ts';\nimport * as other from './other.ts';\n{}\nexport const a = ks.join();\nexport const b = Object.keys(other).join();\n[ks.join(), Object.keys(other).join(), fi.join()].join('|')", walk),
        vec![("/app/lib.ts", lib.clone()), ("/app/other.ts", "export const q1 = 1, Z9 = 2, m5 = 3;\nexport function aa() {}\nexport default class Dflt {}\nexport { q1 as first };\n".to_string())],
    ));
    v.push(mk(
        "re-export-renamed",
        &format!("import * as ns from './facade.ts';\n{}\n[ks.join(), fi.join()].join('|')", walk),
        vec![("/app/lib.ts", lib.clone()), ("/app/facade.ts", "export { zeta as z, alpha, mid as M, Beta as beta2, omega } from './lib.ts';\nexport { default as libDefault } from './dflt.ts';\n".to_string()), ("/app/dflt.ts", "export default 5;\nexport const side = 1;\n".to_string())],
    ));
    v.push(mk(
        "namespace-through-function",
        "import * as ns from './lib.ts';\nfunction names(o){ var r = []; for (var k in o) { r.push(k + ':' + typeof o[k]); } return r.join(); }\nnames(ns)",
        vec![("/app/lib.ts", lib.clone())],
    ));
    v
}

fn programs(ctx: &Ctx) -> Vec<(String, String)> {
    let mut v = order_programs();
    v.extend(module_programs());
    for it in c01::stmt_items().into_iter().step_by(2) {
        let src = c01::batch_program(std::slice::from_ref(&it));
        v.push((it.id, src));
    }
    for it in crate::holders::items().into_iter().step_by(if ctx.thorough() { 3 } else { 11 }) {
        let src = c01::batch_program(std::slice::from_ref(&it));
        v.push((it.id, src));
    }
    // composed corpus: a fixed slice per tier
    let nshard = if ctx.thorough() { 16 } else { 3 };
    for sh in 0..nshard {
        let shard = (ctx.seed + sh) % corpus::B_SHARDS;
        for i in (0..corpus::B_PER_SHARD).step_by(if ctx.thorough() { 1 } else { 2 }) {
            let p = corpus::b_program(shard, i);
            v.push((p.id, p.src));
        }
    }
    v
}

fn solo(src: &str, gc: Option<usize>) -> String {
    let mut s = Stepper::start(src, gc, 400_000);
    while s.step() {}
    s.trace_string()
}

/// traces of a unit's programs, one per line: used in-process and by the exec'd children
fn unit_traces(progs: &[(String, String)]) -> Vec<String> {
    progs.iter().map(|(_, src)| hash_hex(&solo(src, None))).collect()
}

pub fn child_traces(ctx: &Ctx, unit: usize) {
    let all = programs(ctx);
    let lo = unit * PER_UNIT;
    let hi = (lo + PER_UNIT).min(all.len());
    for h in unit_traces(&all[lo..hi]) {
        println!("{}", h);
    }
}

fn interleave(progs: &[(String, String)], rng: &mut Rng, r: &mut UnitResult, solo_traces: &[String]) {
    // groups of 2-4 interpreters stepped in one thread
    let mut idx: Vec<usize> = (0..progs.len()).collect();
    rng.shuffle(&mut idx);
    let mut pos = 0;
    while pos < idx.len() {
        let k = (2 + rng.below(3)).min(idx.len() - pos);
        let group: Vec<usize> = idx[pos..pos + k].to_vec();
        pos += k;
        let mode = rng.below(3);
        let mut steppers: Vec<Stepper> = group.iter().map(|i| Stepper::start(&progs[*i].1, None, 400_000)).collect();
        let mut extra: Vec<Stepper> = Vec::new();
        let mut tick = 0u64;
        loop {
            let mut any = false;
            match mode {
                0 => {
                    // round robin, one step each
                    for s in steppers.iter_mut() {
                        any |= s.step();
                    }
                }
                1 => {
                    // random bursts
                    let who = rng.below(steppers.len());
                    let burst = 1 + rng.below(50);
                    for _ in 0..burst {
                        steppers[who].step();
                    }
                    any = steppers.iter().any(|s| s.done.is_none());
                }
                _ => {
                    // round robin while other instances are created, failed and dropped
                    for s in steppers.iter_mut() {
                        any |= s.step();
                    }
                    if tick % 40 == 0 {
                        let mut e = Stepper::start("(function(){ var junk = []; for (var i = 0; i < 20; i++) junk.push({i: i}); null.boom; })()", Some(1), 10_000);
                        while e.step() {}
                        if tick % 80 == 0 {
                            extra.push(e); // kept alive for a while
                        }
                        if extra.len() > 2 {
                            extra.remove(0); // dropped while the others are mid-run
                        }
                    }
                }
            }
            tick += 1;
            if !any {
                break;
            }
        }
        for (s, gi) in steppers.iter().zip(group.iter()) {
            r.evaluations += 1;
            r.nontrivial += 1;
            r.stat("interleaved_runs", 1);
            let t = hash_hex(&s.trace_string());
            if t != solo_traces[*gi] {
                r.violate(
                    format!("interleave|{}", progs[*gi].0),
                    format!("{}: trace differs when its steps are interleaved (mode {}) with {} other interpreter(s): {}", progs[*gi].0, mode, group.len() - 1, truncate(&s.trace_string(), 200)),
                    json!({"id": progs[*gi].0}),
                );
            }
        }
    }
}

impl Check for C12 {
    fn units(&self, ctx: &Ctx) -> usize {
        programs(ctx).len().div_ceil(PER_UNIT)
    }

    fn run_unit(&self, ctx: &Ctx, idx: usize) -> UnitResult {
        let mut r = UnitResult::default();
        let all = programs(ctx);
        let lo = idx * PER_UNIT;
        let hi = (lo + PER_UNIT).min(all.len());
        let progs = &all[lo..hi];
        let first = unit_traces(progs);
        // (a) repetition in the same process, also under a different GC threshold (C02 says
        // the schedule is invisible; a difference here would be a GC-order dependence)
        let second = unit_traces(progs);
        for (i, (a, b)) in first.iter().zip(second.iter()).enumerate() {
            r.evaluations += 1;
            r.nontrivial += 1;
            if a != b {
                r.violate(format!("repeat|{}", progs[i].0), format!("{}: two runs in one process differ", progs[i].0), json!({"id": progs[i].0}));
            }
        }
        // (b) fresh processes
        #[cfg(feature = "native")]
        {
            let exe = std::env::current_exe().ok();
            for round in 0..2 {
                if let Some(exe) = &exe {
                    let out = std::process::Command::new(exe)
                        .args(["C12", "child", "--unit", &idx.to_string(), "--tier", if ctx.thorough() { "thorough" } else { "quick" }, "--seed", &ctx.seed.to_string()])
                        .output();
                    match out {
                        Ok(o) if o.status.success() => {
                            let lines: Vec<String> = String::from_utf8_lossy(&o.stdout).lines().map(|s| s.to_string()).collect();
                            if lines.len() != first.len() {
                                r.inconclusive += 1;
                                r.note(format!("child process returned {} traces for {} programs", lines.len(), first.len()));
                                continue;
                            }
                            for (i, (a, b)) in first.iter().zip(lines.iter()).enumerate() {
                                r.evaluations += 1;
                                r.nontrivial += 1;
                                r.stat("cross_process_comparisons", 1);
                                if a != b {
                                    r.violate(
                                        format!("process|{}", progs[i].0),
                                        format!("{}: trace differs in a freshly started process (round {})", progs[i].0, round),
                                        json!({"id": progs[i].0}),
                                    );
                                }
                            }
                        }
                        _ => {
                            r.inconclusive += 1;
                            r.note("could not run the child process".into());
                        }
                    }
                }
            }
        }
        // (c) interleavings in one thread
        let mut rng = Rng::derive("c12-interleave", ctx.seed, idx as u64);
        interleave(progs, &mut rng, &mut r, &first);
        // (d) concurrent threads, one interpreter each
        let srcs: Vec<String> = progs.iter().map(|p| p.1.clone()).collect();
        let handles: Vec<std::thread::JoinHandle<Vec<String>>> = (0..4)
            .map(|t| {
                let srcs = srcs.clone();
                std::thread::Builder::new()
                    .stack_size(64 << 20)
                    .spawn(move || {
                        let mut v = Vec::new();
                        let n = srcs.len();
                        for k in 0..n {
                            let i = (k + t * 7) % n;
                            v.push((i, hash_hex(&solo(&srcs[i], None))));
                        }
                        let mut out = vec![String::new(); n];
                        for (i, h) in v {
                            out[i] = h;
                        }
                        out
                    })
                    .unwrap()
            })
            .collect();
        for h in handles {
            match h.join() {
                Ok(traces) => {
                    for (i, t) in traces.iter().enumerate() {
                        r.evaluations += 1;
                        r.nontrivial += 1;
                        r.stat("threaded_runs", 1);
                        if *t != first[i] {
                            r.violate(format!("thread|{}", progs[i].0), format!("{}: trace differs when run on a concurrent thread", progs[i].0), json!({"id": progs[i].0}));
                        }
                    }
                }
                Err(_) => {
                    r.violate("thread|panic".to_string(), "a thread running interpreters concurrently panicked".to_string(), json!({"id": "thread"}));
                }
            }
        }
        if let Some(p) = progs.first() {
            r.sample(json!({"program": p.0, "solo_trace": truncate(&solo(&p.1, None), 200)}));
        }
        r
    }

    fn replay(&self, ctx: &Ctx, case: &Value) -> UnitResult {
        let mut r = UnitResult::default();
        let id = case["id"].as_str().unwrap_or("");
        let thorough = Ctx { tier: Tier::Thorough, ..ctx.clone() };
        let all = programs(&thorough);
        if let Some(i) = all.iter().position(|p| p.0 == id) {
            let unit = i / PER_UNIT;
            return self.run_unit(&thorough, unit);
        }
        r.note(format!("program {} not found", id));
        r
    }
}
