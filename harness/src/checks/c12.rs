//! C12 — execution is deterministic and interpreter instances are isolated.
//!
//! Trace = terminal step result, canonical value, console log and step count. For every
//! program the solo trace is compared with: a second run in the same process, runs in two
//! freshly exec'd processes (different address-space layout, hence different pointer-keyed
//! hash orders), runs interleaved step by step with 1-3 other interpreters in one thread
//! (round-robin and random schedules, with instances created, failed and dropped in
//! between), and runs on 4 concurrent threads.

use super::c01;
use crate::corpus;
use crate::runner::Stepper;
use crate::util::*;
use serde_json::{Value, json};

pub struct C12;

const PER_UNIT: usize = 60;

/// Programs whose output exposes iteration orders and identity-keyed containers.
fn order_programs() -> Vec<(String, String)> {
    let mut v = Vec::new();
    for n in [0usize, 1, 2, 3, 4, 5, 8, 13, 21, 40] {
        let keys: Vec<String> = (0..n).map(|i| format!("k{}: {}", (i * 7919) % 101, i)).collect();
        v.push((
            format!("order.keys{}", n),
            format!(
                "var o = {{{}}}; o.extra = 1; delete o.k0; o.k0 = 'again'; var r = []; for (var k in o) r.push(k); [Object.keys(o).join(), r.join(), JSON.stringify(o), Object.entries(o).length, Object.values({{...o}}).join()].join('|')",
                keys.join(", ")
            ),
        ));
    }
    let snippets: &[(&str, &str)] = &[
        ("objkeys-in-map", "var ks = []; for (var i = 0; i < 12; i++) ks.push({id: i}); var m = new Map(); for (var j = 11; j >= 0; j--) m.set(ks[j], j); var out = []; m.forEach(function(v, k){ out.push(k.id); }); var s = new Set(ks); out.push([...s].map(function(x){ return x.id; }).join('')); out.join()"),
        ("symbols", "var a = Symbol.for('a'), b = Symbol.for('b'); var o = {}; o[b] = 1; o[a] = 2; o.z = 3; [Symbol.keyFor(a), Symbol.keyFor(b), Object.getOwnPropertySymbols(o).length, Object.keys(o).join()].join('|')"),
        ("sort-stability", "var a = []; for (var i = 0; i < 30; i++) a.push({k: i % 3, i: i}); a.sort(function(x, y){ return x.k - y.k; }); a.map(function(x){ return x.i; }).join()"),
        ("random-and-time", "[Math.random(), Math.random(), Date.now(), new Date().getTime(), typeof performance].join('|')"),
        ("promises", "var log = []; Promise.resolve(1).then(function(v){ log.push('a' + v); }); Promise.all([Promise.resolve(2), 3]).then(function(v){ log.push('b' + v.join('')); }); var af = async function(){ var x = await Promise.resolve(4); log.push('c' + x); return x; }; af(); log.push('sync'); log.join()"),
        ("closures-ids", "var fs = []; for (let i = 0; i < 5; i++) fs.push(function(){ return i * i; }); var w = new Map(); fs.forEach(function(f, i){ w.set(f, i); }); [...w.values()].join() + fs.map(function(f){ return f(); }).join()"),
        ("class-registry", "class A { static reg = new Map(); constructor(n){ this.n = n; A.reg.set(this, n); } } for (var i = 0; i < 6; i++) new A(i); [...A.reg.values()].join()"),
        ("json-nested", "JSON.stringify({z: {b: 1, a: 2}, a: [3, {y: 1, x: 2}], m: new Map([[1, 2]]), s: new Set([1]), d: new Date(0)})"),
        ("generators", "function* g(n){ for (var i = 0; i < n; i++) yield {i: i}; } var all = []; for (var x of g(5)) all.push(x.i); var it1 = g(3), it2 = g(3); [it1.next().value.i, it2.next().value.i, it1.next().value.i, all.join('')].join()"),
        ("errors", "var r = []; try { null.x; } catch (e) { r.push(e.name, typeof e.message); } try { undefinedName; } catch (e) { r.push(e.name); } r.join()"),
        ("console", "console.log('a', 1, {b: 2}); console.warn('w'); console.error([1, 2]); 'logged'"),
        ("regex-state", "var re = /a(b)?/g; var out = []; var m; while ((m = re.exec('abaab'))) out.push(m.index + ':' + m[0]); out.join()"),
    ];
    for (n, s) in snippets {
        v.push((format!("order.{}", n), (*s).to_string()));
    }
    // patterns whose text begins with the letters other programs use as flags (a cache keyed by
    // flags + pattern without a separator would confuse them)
    v.push(("order.regexp-flaglike-patterns".to_string(), "[/item/.test('TEM'), /item/.test('an item'), /s.x/.test('\\nx'), /s.x/.test('s-x'), /m^a/.test('b\\na'), /gibc/.test('aBC'), /gibc/.test('gibc'), /y\\d+/.test('12'), 'aXbx'.replace(/gix/, '-'), 'aXbx'.replace(/x/, '-'), /i/.test('I'), /im/.test('M')].join('|')".to_string()));
    // programs that walk many freshly allocated objects through the built-ins that keep
    // visited-sets / recursion guards
    for n in [50usize, 400, 2000] {
        v.push((format!("walk.json{}", n), format!("var a = []; for (var i = 0; i < {n}; i++) a.push({{i: i, in: {{j: [i, {{k: i}}]}}}}); var s = JSON.stringify(a); [s.length, s.slice(0, 40)].join('|')")));
        v.push((format!("walk.join{}", n), format!("var a = []; for (var i = 0; i < {n}; i++) a.push([i, [i + 1, [i + 2]]]); var s = a.join(';'); [s.length, String([[1, [2]], 3])].join('|')")));
        v.push((format!("walk.repaired-cycle{}", n), format!("var a = []; for (var i = 0; i < {n}; i++) a.push({{i: i}}); a[{n} - 1].loop = a; var r = []; try {{ JSON.stringify(a); }} catch (e) {{ r.push(e.name); }} delete a[{n} - 1].loop; r.push(JSON.stringify(a).length); r.push(a.join().length); r.join('|')")));
    }
    v
}

/// Interpreters that lived and died on this thread before the program under test: each
/// leaves a built-in through a failure or early-exit path (deep inside JSON / join / sort /
/// iteration protocols, in callbacks, getters, proxies), some caught by the script, some
/// ending the run, some reported to the host only. Anything such a path forgets to undo in
/// state that outlives the interpreter (thread-locals, statics, caches keyed by address)
/// shows up as a changed trace of the unrelated programs run afterwards.
const HOSTILE_PREDECESSORS: &[(&str, &str)] = &[
    ("cyclic-json-caught", "var root = {}, cur = root; for (var i = 0; i < $N; i++) { cur.next = (i % 2) ? [{}] : {}; cur = (i % 2) ? cur.next[0] : cur.next; } cur.back = root; var r; try { r = JSON.stringify(root); } catch (e) { r = e.name; } r"),
    ("cyclic-json-uncaught", "var keep = []; for (var i = 0; i < $N; i++) keep.push({i: i, a: [i]}); var o = {list: keep}; keep[$N - 1].a.push(o); JSON.stringify(o)"),
    ("json-getter-throws", "var items = []; for (var i = 0; i < $N; i++) items.push({i: i, inner: {j: [i]}}); Object.defineProperty(items[$N - 1].inner, 'bad', {enumerable: true, get: function(){ throw new RangeError('getter'); }}); var r; try { r = JSON.stringify({items: items}); } catch (e) { r = e.name; } r"),
    ("json-tojson-throws", "var items = []; for (var i = 0; i < $N; i++) items.push({i: i}); items[$N >> 1].toJSON = function(){ throw new Error('tojson'); }; var r; try { r = JSON.stringify([items, {deep: {deeper: items}}]); } catch (e) { r = e.message; } r"),
    ("json-replacer-throws", "var n = 0; var r; try { r = JSON.stringify({a: {b: {c: [1, 2, {d: 1}]}}}, function(k, v){ if (++n > $N % 7 + 3) throw new TypeError('replacer'); return v; }); } catch (e) { r = e.name; } r"),
    ("json-parse-reviver-throws", "var r; try { r = JSON.parse('{\"a\":{\"b\":[1,2,{\"c\":3}]}}', function(k, v){ if (k === 'c') throw new Error('reviver'); return v; }); } catch (e) { r = e.message; } r"),
    ("join-cyclic", "var a = [1, 2], b = [a, 3]; a.push(b); var deep = []; var cur = deep; for (var i = 0; i < $N; i++) { var nx = [i]; cur.push(nx); cur = nx; } cur.push(deep); [a.join(), String(b), deep.join('-').length].join('|')"),
    ("join-tostring-throws", "var list = []; for (var i = 0; i < $N; i++) list.push([i, [i]]); list[$N - 1][1].push({toString: function(){ throw new Error('ts'); }}); var r; try { r = list.join(); } catch (e) { r = e.message; } r"),
    ("sort-comparator-throws", "var a = []; for (var i = 0; i < $N; i++) a.push({k: ($N - i) % 17}); var n = 0; var r; try { a.sort(function(x, y){ if (++n > $N) throw new Error('cmp'); return x.k - y.k; }); r = 'sorted'; } catch (e) { r = e.message; } r"),
    ("iteration-throws", "var r = []; try { [1, 2, 3].map(function(x){ if (x === 2) throw new Error('map'); return x; }); } catch (e) { r.push(e.message); } try { new Map([[1, 2]]).forEach(function(){ throw new Error('foreach'); }); } catch (e) { r.push(e.message); } try { Array.from({length: 3}, function(_, i){ if (i) throw new Error('from'); return i; }); } catch (e) { r.push(e.message); } try { for (var x of (function*(){ yield 1; throw new Error('gen'); })()) { r.push(x); } } catch (e) { r.push(e.message); } r.join()"),
    ("proxy-traps-throw", "var p = new Proxy({a: 1, b: {c: 2}}, { ownKeys: function(){ throw new Error('ownKeys'); }, get: function(t, k){ if (k === 'b') throw new Error('get'); return t[k]; } }); var r = []; try { Object.keys(p); } catch (e) { r.push(e.message); } try { JSON.stringify(p); } catch (e) { r.push(e.message); } try { p.b; } catch (e) { r.push(e.message); } r.join()"),
    ("deep-recursion-caught", "function f(n){ return n === 0 ? 0 : 1 + f(n - 1); } var r; try { r = f(100000); } catch (e) { r = e.name; } r"),
    ("abandoned-generators-and-promises", "function* g(){ try { yield {a: 1}; yield {b: 2}; } finally { } } var it = g(); it.next(); var pending = new Promise(function(){}); pending.then(function(){ return 1; }); Promise.reject(new Error('unhandled')); var s = new Set(); for (var i = 0; i < $N; i++) s.add({i: i}); 'left'"),
    ("regexp-and-string-failures", "var r = []; try { new RegExp('(', 'g'); } catch (e) { r.push(e.name); } try { 'x'.repeat(-1); } catch (e) { r.push(e.name); } try { 'abc'.replace(/b/g, function(){ throw new Error('replace'); }); } catch (e) { r.push(e.message); } try { null.x; } catch (e) { r.push(e.name); } try { (123).toFixed(1000); } catch (e) { r.push(e.name); } r.join()"),
    ("class-and-symbol-failures", "class A { constructor(){ throw new Error('ctor'); } } class B extends A { constructor(){ super(); this.x = 1; } } var r = []; try { new B(); } catch (e) { r.push(e.message); } var o = {}; o[Symbol.toPrimitive] = function(){ throw new Error('prim'); }; try { o + 1; } catch (e) { r.push(e.message); } try { `${o}`; } catch (e) { r.push(e.message); } r.join()"),
    ("regexp-flag-twins", "var r = []; r.push(/tem/i.test('ITEM'), /.x/s.test('\\nx'), /^a/m.test('b\\na'), /bc/gi.exec('aBC') !== null, /\\d+/y.test('12'), new RegExp('tem', 'i').test('TEM'), new RegExp('.x', 's').test('\\nx'), 'aXbx'.replace(/x/gi, '-'), 'a\\nb'.split(/$/m).length); r.join()"),
    ("throws-at-top", "var junk = []; for (var i = 0; i < $N; i++) junk.push({i: i, s: 'x' + i}); null.boom;"),
];

/// Run every hostile predecessor once (sizes vary with `round`), each in its own
/// interpreter that is dropped afterwards; the last values of the cyclic ones are also
/// handed to the host-side JSON export, whose failure only the host sees.
fn run_hostile_predecessors(round: usize, keep_alive: &mut Vec<Stepper>) -> usize {
    let mut ran = 0;
    for (k, (_, src)) in HOSTILE_PREDECESSORS.iter().enumerate() {
        let n = [12usize, 40, 90, 160, 300][(round + k) % 5];
        let src = src.replace("$N", &n.to_string());
        let mut s = Stepper::start(&src, if k % 3 == 0 { Some(1) } else { None }, 2_000_000);
        while s.step() {}
        ran += 1;
        // a host-side conversion of a cyclic value: the error goes to the host only
        let mut h = tsrun::Interpreter::new();
        if let Ok(tsrun::StepResult::Complete(v)) = h.eval(&format!("var c = {{list: []}}; for (var i = 0; i < {}; i++) c.list.push({{i: i, up: c}}); c", n), None) {
            let _ = tsrun::js_value_to_json(v.value());
            ran += 1;
        }
        // some predecessors stay alive a little longer than others
        if (round + k) % 4 == 0 {
            keep_alive.push(s);
            if keep_alive.len() > 3 {
                keep_alive.remove(0);
            }
        }
    }
    ran
}

/// Module programs: the order of a namespace object's members and of the host-visible export
/// list must not depend on where strings happen to live in memory.
fn module_programs() -> Vec<(String, String)> {
    let names = ["zeta", "alpha", "mid", "Beta", "gamma", "omega", "delta", "kappa", "Lambda", "eta", "theta", "iota", "nu", "xi", "pi", "rho"];
    let lib: String = names
        .iter()
        .enumerate()
        .map(|(i, n)| match i % 4 {
            0 => format!("export const {} = {};\n", n, i),
            1 => format!("export function {}() {{ return {}; }}\n", n, i),
            2 => format!("export let {} = '{}';\n", n, i),
            _ => format!("export class {} {{ static v = {}; }}\n", n, i),
        })
        .collect();
    let walk = "var ks = Object.keys(ns); var fi = []; for (var k in ns) { fi.push(k); } var en = Object.entries(ns).map(function(e){ return e[0]; });";
    let mk = |id: &str, main: &str, mods: Vec<(&str, String)>| {
        let m: serde_json::Map<String, Value> = mods.into_iter().map(|(k, v)| (k.to_string(), Value::String(v))).collect();
        (format!("module.{}", id), format!("//!modules {}\n{}", json!({"main": "/app/main.ts", "mods": m}), main))
    };
    let mut v = Vec::new();
    v.push(mk("namespace-keys", &format!("import * as ns from './lib.ts';\n{}\nexport const keys = ks.join();\n[ks.join(), fi.join(), en.join(), JSON.stringify(Object.keys({{...ns}}))].join('|')", walk), vec![("/app/lib.ts", lib.clone())]));
    v.push(mk(
        "export-star",
        &format!("import * as ns from './barrel.ts';\n{}\n[ks.join(), fi.join(), en.join()].join('|')", walk),
        vec![("/app/lib.ts", lib.clone()), ("/app/barrel.ts", "export * from './lib.ts';\nexport const own1 = 1;\nexport const Own2 = 2;\nexport * as nested from './lib.ts';\n".to_string())],
    ));
    v.push(mk(
        "own-exports",
        &format!("{}export default 7;\nexport {{ zeta as renamedZ, alpha as A }};\n'done'", lib),
        vec![],
    ));
    v.push(mk(
        "two-libraries",
        &format!("import * as ns from './lib.ts';\nimport * as other from './other.ts';\n{}\nexport const a = ks.join();\nexport const b = Object.keys(other).join();\n[ks.join(), Object.keys(other).join(), fi.join()].join('|')", walk),
        vec![("/app/lib.ts", lib.clone()), ("/app/other.ts", "export const q1 = 1, Z9 = 2, m5 = 3;\nexport function aa() {}\nexport default class Dflt {}\nexport { q1 as first };\n".to_string())],
    ));
    v.push(mk(
        "re-export-renamed",
        &format!("import * as ns from './facade.ts';\n{}\n[ks.join(), fi.join()].join('|')", walk),
        vec![("/app/lib.ts", lib.clone()), ("/app/facade.ts", "export { zeta as z, alpha, mid as M, Beta as beta2, omega } from './lib.ts';\nexport { default as libDefault } from './dflt.ts';\n".to_string()), ("/app/dflt.ts", "export default 5;\nexport const side = 1;\n".to_string())],
    ));
    v.push(mk(
        "namespace-through-function",
        "import * as ns from './lib.ts';\nfunction names(o){ var r = []; for (var k in o) { r.push(k + ':' + typeof o[k]); } return r.join(); }\nnames(ns)",
        vec![("/app/lib.ts", lib.clone())],
    ));
    v
}

fn programs(ctx: &Ctx) -> Vec<(String, String)> {
    let mut v = order_programs();
    v.extend(module_programs());
    for it in c01::stmt_items().into_iter().step_by(2) {
        let src = c01::batch_program(std::slice::from_ref(&it));
        v.push((it.id, src));
    }
    for it in crate::holders::items().into_iter().step_by(if ctx.thorough() { 3 } else { 11 }) {
        let src = c01::batch_program(std::slice::from_ref(&it));
        v.push((it.id, src));
    }
    // composed corpus: a fixed slice per tier
    let nshard = if ctx.thorough() { 16 } else { 3 };
    for sh in 0..nshard {
        let shard = (ctx.seed + sh) % corpus::B_SHARDS;
        for i in (0..corpus::B_PER_SHARD).step_by(if ctx.thorough() { 1 } else { 2 }) {
            let p = corpus::b_program(shard, i);
            v.push((p.id, p.src));
        }
    }
    v
}

fn solo(src: &str, gc: Option<usize>) -> String {
    let mut s = Stepper::start(src, gc, 400_000);
    while s.step() {}
    s.trace_string()
}

/// traces of a unit's programs, one per line: used in-process and by the exec'd children
fn unit_traces(progs: &[(String, String)]) -> Vec<String> {
    progs.iter().map(|(_, src)| hash_hex(&solo(src, None))).collect()
}

pub fn child_traces(ctx: &Ctx, unit: usize) {
    let all = programs(ctx);
    let lo = unit * PER_UNIT;
    let hi = (lo + PER_UNIT).min(all.len());
    for h in unit_traces(&all[lo..hi]) {
        println!("{}", h);
    }
}

fn interleave(progs: &[(String, String)], rng: &mut Rng, r: &mut UnitResult, solo_traces: &[String]) {
    // groups of 2-4 interpreters stepped in one thread
    let mut idx: Vec<usize> = (0..progs.len()).collect();
    rng.shuffle(&mut idx);
    let mut pos = 0;
    while pos < idx.len() {
        let k = (2 + rng.below(3)).min(idx.len() - pos);
        let group: Vec<usize> = idx[pos..pos + k].to_vec();
        pos += k;
        let mode = rng.below(3);
        let mut steppers: Vec<Stepper> = group.iter().map(|i| Stepper::start(&progs[*i].1, None, 400_000)).collect();
        let mut extra: Vec<Stepper> = Vec::new();
        let mut tick = 0u64;
        loop {
            let mut any = false;
            match mode {
                0 => {
                    // round robin, one step each
                    for s in steppers.iter_mut() {
                        any |= s.step();
                    }
                }
                1 => {
                    // random bursts
                    let who = rng.below(steppers.len());
                    let burst = 1 + rng.below(50);
                    for _ in 0..burst {
                        steppers[who].step();
                    }
                    any = steppers.iter().any(|s| s.done.is_none());
                }
                _ => {
                    // round robin while other instances are created, failed and dropped
                    for s in steppers.iter_mut() {
                        any |= s.step();
                    }
                    if tick % 40 == 0 {
                        let mut e = Stepper::start("(function(){ var junk = []; for (var i = 0; i < 20; i++) junk.push({i: i}); null.boom; })()", Some(1), 10_000);
                        while e.step() {}
                        if tick % 80 == 0 {
                            extra.push(e); // kept alive for a while
                        }
                        if extra.len() > 2 {
                            extra.remove(0); // dropped while the others are mid-run
                        }
                    }
                }
            }
            tick += 1;
            if !any {
                break;
            }
        }
        for (s, gi) in steppers.iter().zip(group.iter()) {
            r.evaluations += 1;
            r.nontrivial += 1;
            r.stat("interleaved_runs", 1);
            let t = hash_hex(&s.trace_string());
            if t != solo_traces[*gi] {
                r.violate(
                    format!("interleave|{}", progs[*gi].0),
                    format!("{}: trace differs when its steps are interleaved (mode {}) with {} other interpreter(s): {}", progs[*gi].0, mode, group.len() - 1, truncate(&s.trace_string(), 200)),
                    json!({"id": progs[*gi].0}),
                );
            }
        }
    }
}

impl Check for C12 {
    fn units(&self, ctx: &Ctx) -> usize {
        programs(ctx).len().div_ceil(PER_UNIT)
    }

    fn run_unit(&self, ctx: &Ctx, idx: usize) -> UnitResult {
        let mut r = UnitResult::default();
        let all = programs(ctx);
        let lo = idx * PER_UNIT;
        let hi = (lo + PER_UNIT).min(all.len());
        let progs = &all[lo..hi];
        let first = unit_traces(progs);
        // (a) repetition in the same process, also under a different GC threshold (C02 says
        // the schedule is invisible; a difference here would be a GC-order dependence)
        let second = unit_traces(progs);
        for (i, (a, b)) in first.iter().zip(second.iter()).enumerate() {
            r.evaluations += 1;
            r.nontrivial += 1;
            if a != b {
                r.violate(format!("repeat|{}", progs[i].0), format!("{}: two runs in one process differ", progs[i].0), json!({"id": progs[i].0}));
            }
        }
        // (b) fresh processes
        #[cfg(feature = "native")]
        {
            let exe = std::env::current_exe().ok();
            for round in 0..2 {
                if let Some(exe) = &exe {
                    let out = std::process::Command::new(exe)
                        .args(["C12", "child", "--unit", &idx.to_string(), "--tier", if ctx.thorough() { "thorough" } else { "quick" }, "--seed", &ctx.seed.to_string()])
                        .output();
                    match out {
                        Ok(o) if o.status.success() => {
                            let lines: Vec<String> = String::from_utf8_lossy(&o.stdout).lines().map(|s| s.to_string()).collect();
                            if lines.len() != first.len() {
                                r.inconclusive += 1;
                                r.note(format!("child process returned {} traces for {} programs", lines.len(), first.len()));
                                continue;
                            }
                            for (i, (a, b)) in first.iter().zip(lines.iter()).enumerate() {
                                r.evaluations += 1;
                                r.nontrivial += 1;
                                r.stat("cross_process_comparisons", 1);
                                if a != b {
                                    r.violate(
                                        format!("process|{}", progs[i].0),
                                        format!("{}: trace differs in a freshly started process (round {})", progs[i].0, round),
                                        json!({"id": progs[i].0}),
                                    );
                                }
                            }
                        }
                        _ => {
                            r.inconclusive += 1;
                            r.note("could not run the child process".into());
                        }
                    }
                }
            }
        }
        // (c) interleavings in one thread
        let mut rng = Rng::derive("c12-interleave", ctx.seed, idx as u64);
        interleave(progs, &mut rng, &mut r, &first);
        // (e) lifetimes: the same programs after other interpreters lived, failed inside
        // built-ins and died on the same thread — once on this thread (which has already run
        // the programs) and once on a fresh thread (where the predecessors come first, so
        // that per-thread state is primed by them and not by the programs themselves)
        {
            let mut rounds: Vec<(String, usize, Vec<String>)> = Vec::new();
            {
                let mut keep_alive: Vec<Stepper> = Vec::new();
                for round in 0..2 {
                    let ran = run_hostile_predecessors(round + idx, &mut keep_alive);
                    rounds.push((format!("same thread, round {}", round), ran, unit_traces(progs)));
                }
            }
            let owned: Vec<(String, String)> = progs.to_vec();
            let fresh = std::thread::Builder::new().stack_size(64 << 20).spawn(move || {
                let mut out = Vec::new();
                let mut keep_alive: Vec<Stepper> = Vec::new();
                for round in 0..2 {
                    let ran = run_hostile_predecessors(round + 7, &mut keep_alive);
                    out.push((format!("fresh thread, round {}", round), ran, unit_traces(&owned)));
                }
                out
            });
            match fresh.map(|h| h.join()) {
                Ok(Ok(v)) => rounds.extend(v),
                _ => {
                    r.violate("thread|panic".to_string(), "the thread running hostile predecessors and then the programs panicked".to_string(), json!({"id": "thread"}));
                }
            }
            for (label, ran, after) in rounds {
                r.stat("hostile_predecessor_runs", ran as i64);
                for (i, (a, b)) in first.iter().zip(after.iter()).enumerate() {
                    r.evaluations += 1;
                    r.nontrivial += 1;
                    r.stat("runs_after_hostile_predecessors", 1);
                    if a != b {
                        r.violate(
                            format!("lifetime|{}", progs[i].0),
                            format!("{}: trace differs after {} other interpreters failed inside built-ins and were dropped on the same thread ({}): {}", progs[i].0, ran, label, truncate(&solo(&progs[i].1, None), 200)),
                            json!({"id": progs[i].0}),
                        );
                    }
                }
            }
        }
        // (d) concurrent threads, one interpreter each
        let srcs: Vec<String> = progs.iter().map(|p| p.1.clone()).collect();
        let handles: Vec<std::thread::JoinHandle<Vec<String>>> = (0..4)
            .map(|t| {
                let srcs = srcs.clone();
                std::thread::Builder::new()
                    .stack_size(64 << 20)
                    .spawn(move || {
                        let mut v = Vec::new();
                        let n = srcs.len();
                        for k in 0..n {
                            let i = (k + t * 7) % n;
                            v.push((i, hash_hex(&solo(&srcs[i], None))));
                        }
                        let mut out = vec![String::new(); n];
                        for (i, h) in v {
                            out[i] = h;
                        }
                        out
                    })
                    .unwrap()
            })
            .collect();
        for h in handles {
            match h.join() {
                Ok(traces) => {
                    for (i, t) in traces.iter().enumerate() {
                        r.evaluations += 1;
                        r.nontrivial += 1;
                        r.stat("threaded_runs", 1);
                        if *t != first[i] {
                            r.violate(format!("thread|{}", progs[i].0), format!("{}: trace differs when run on a concurrent thread", progs[i].0), json!({"id": progs[i].0}));
                        }
                    }
                }
                Err(_) => {
                    r.violate("thread|panic".to_string(), "a thread running interpreters concurrently panicked".to_string(), json!({"id": "thread"}));
                }
            }
        }
        if let Some(p) = progs.first() {
            r.sample(json!({"program": p.0, "solo_trace": truncate(&solo(&p.1, None), 200)}));
        }
        r
    }

    fn replay(&self, ctx: &Ctx, case: &Value) -> UnitResult {
        let mut r = UnitResult::default();
        let id = case["id"].as_str().unwrap_or("");
        let thorough = Ctx { tier: Tier::Thorough, ..ctx.clone() };
        let all = programs(&thorough);
        if let Some(i) = all.iter().position(|p| p.0 == id) {
            let unit = i / PER_UNIT;
            return self.run_unit(&thorough, unit);
        }
        r.note(format!("program {} not found", id));
        r
    }
}
