//! C03 — TypeScript type syntax is erased: annotations never change behaviour.
//!
//! Oracle: a core program P and a decoration D(P) (static type syntax added at positions
//! where TypeScript allows it) are both run in fresh interpreters; D(P) must be accepted
//! and produce the same outcome tuple as P. No reference engine is needed.
//! Workload: (1) composed programs whose text carries typed slots — every single slot
//! filled alone with each form of a palette (enumerated), then random multi-slot
//! decorations with types drawn from a recursive type grammar; (2) hand-written JS/TS
//! pairs for the ambiguous positions (generic arrows vs comparisons, `as` / `!` before
//! `.` `[` `(`, `>>` closing nested generics, `?:`, angle-bracket assertions, `this`
//! parameters, overloads, type-only imports/exports, ...).

use crate::compose;
use crate::corpus;
use crate::isolate::{self, Exit, Limits};
use crate::runner::{self, RunConfig};
use crate::util::*;
use serde_json::{Value, json};

pub struct C03;

// ───────────────────────────── type grammar ─────────────────────────────

thread_local! {
    static CERT: std::cell::RefCell<Option<Vec<String>>> = const { std::cell::RefCell::new(None) };
}

/// A random type drawn from the certified part of the enumerated universe.
fn ty(rng: &mut Rng, _d: usize) -> String {
    CERT.with(|c| {
        let mut c = c.borrow_mut();
        if c.is_none() {
            *c = Some(certified());
        }
        let list = c.as_ref().unwrap();
        if list.is_empty() { "number".to_string() } else { list[rng.below(list.len())].clone() }
    })
}

fn paren_if_needed(t: &str) -> String {
    if t.contains(' ') && !t.starts_with('{') && !t.starts_with('[') { format!("({})", t) } else { t.to_string() }
}

fn generic_params(rng: &mut Rng) -> String {
    (*rng.pick(&["<T>", "<T, U>", "<T extends object>", "<T = any>", "<T extends keyof Foo = 'a'>", "<T extends Array<Array<number>>>", "<K extends string, V = Record<K, number>>"])).to_string()
}

fn decl(rng: &mut Rng, n: usize) -> String {
    // inside a function body only interfaces and type aliases are legal TypeScript
    // (`declare ...`, namespaces and overloads are exercised at top level by the matrix)
    let t1 = ty(rng, 2);
    let t2 = ty(rng, 2);
    match rng.below(6) {
        0 => format!("interface I{}<T = any> extends Foo {{ a: {}; b?: {}; m<U>(x: U): T; readonly [k: string]: any }}", n, t1, t2),
        1 => format!("type A{}<T extends object = {{}}> = ({}) | T;", n, t1),
        2 => format!("interface P{} {{ x: {} }}\n  interface P{} {{ y?: {} }}", n, t1, n, t2),
        3 => format!("type F{} = {{ [K in keyof Foo as `get${{string & K}}`]: () => Foo[K] }};", n),
        4 => format!("type C{}<T> = Array<{}> | ({});", n, t1, t2),
        _ => format!("interface J{} {{ m(x: {}): {}; n?: () => J{} }}", n, t1, t2, n),
    }
}

/// Text for a slot of `kind`; `form` selects the palette entry (enumerated pass) or is
/// None for a random type.
fn fill(kind: char, rng: &mut Rng, form: Option<usize>, ord: usize) -> String {
    let t = match form {
        Some(f) => {
            const PAL: &[&str] = &[
                "number", "any", "string | null", "Array<Array<number>>", "{ a: number; b?: string }", "(x: number) => void", "[number, string]",
                "Map<string, Array<number>>", "T extends U ? X : Y", "{ [K in keyof Foo]?: Foo[K] }", "(string | number)[]", "typeof globalThis",
            ];
            PAL[f % PAL.len()].to_string()
        }
        None => ty(rng, 3),
    };
    match kind {
        'N' | 'S' | 'B' | 'A' | 'R' | 'O' | 'p' | 'D' | 'T' => format!(": {}", t),
        'r' => format!(": {}", t),
        'u' => (*rng.pick(&[": unknown", ": any"])).to_string(),
        'g' => generic_params(rng),
        'c' => format!("<{}>", t),
        'a' => (*rng.pick(&[" as any", " as Foo", " as { n: number; s: string }", " as Array<Array<number>>"])).to_string(),
        'n' => "!".to_string(),
        'd' => decl(rng, ord),
        'm' => (*rng.pick(&["public ", "private ", "protected ", "readonly ", "public readonly "])).to_string(),
        'I' => (*rng.pick(&[" implements Foo", " implements Foo, Bar<number>"])).to_string(),
        _ => String::new(),
    }
}

// ───────────────────────────── enumerated type universe ─────────────────────────────

/// Leaves and unary constructors of the enumerated universe. Every universe entry is
/// tested by the matrix; random decorations draw only from entries that are *certified*
/// (listed in ref/c03_certified.txt, produced at build time from a run on the pinned tree).
const LEAVES: &[&str] = &[
    "number", "string", "boolean", "any", "unknown", "never", "void", "null", "undefined", "object", "'lit'", "42", "true", "Foo", "T",
    "Date", "Function", "`id-${string}`", "typeof globalThis", "Foo['a']", "keyof Foo", "string | null", "A & B", "[number, string]",
    "{ a: number; b?: string }", "(x: number) => void", "Array<number>", "Map<string, number>", "number[]", "{}", "[]",
];

const CTORS: &[(&str, &str)] = &[
    ("array", "$[]"), ("array-paren", "($)[]"), ("Array", "Array<$>"), ("nested-generic", "Array<Array<$>>"), ("tuple", "[$, number]"),
    ("union", "$ | undefined"), ("union-lead", "| $ | null"), ("intersection", "$ & { tag: 1 }"), ("fn-param", "(a: $, b?: $) => void"),
    ("fn-ret", "() => $"), ("ctor-type", "new (x: $) => Foo"), ("object", "{ a: $; b?: $ }"), ("index-sig", "{ [k: string]: $ }"),
    ("method-sig", "{ m(x: $): $ }"), ("Map", "Map<string, $>"), ("Promise-nest", "Promise<Map<string, Array<$>>>"),
    ("conditional", "$ extends string ? 'y' : 'n'"), ("conditional-branch", "T extends U ? $ : never"), ("infer", "$ extends Array<infer E> ? E : never"),
    ("mapped", "{ [K in keyof Foo]?: $ }"), ("indexed", "($)['length']"), ("keyof", "keyof ($)"), ("paren", "($)"), ("rest-fn", "(...r: $[]) => void"),
    ("Partial", "Partial<$>"), ("Record", "Record<string, $>"),
];

fn universe() -> Vec<(String, Vec<usize>)> {
    universe_named().into_iter().map(|(t, s, _)| (t, s)).collect()
}

/// (text, indices of proper sub-entries, outermost constructor name)
fn universe_named() -> Vec<(String, Vec<usize>, String)> {
    let mut v: Vec<(String, Vec<usize>, String)> = LEAVES.iter().map(|l| (l.to_string(), vec![], format!("leaf `{}`", l))).collect();
    let nleaf = v.len();
    // constructor(leaf)
    for (cn, tpl) in CTORS {
        for li in 0..nleaf {
            v.push((tpl.replace('$', LEAVES[li]), vec![li], format!("{} `{}`", cn, tpl)));
        }
    }
    let n1 = v.len();
    // constructor(constructor(leaf)): deterministic sample
    let mut rng = Rng::derive("c03-universe", 0, 0);
    let mut seen = std::collections::BTreeSet::new();
    while seen.len() < 1500 {
        let c = rng.below(CTORS.len());
        let inner = nleaf + rng.below(n1 - nleaf);
        if seen.insert((c, inner)) {
            let text = CTORS[c].1.replace('$', &v[inner].0.clone());
            let mut subs = v[inner].1.clone();
            subs.push(inner);
            v.push((text, subs, format!("{} `{}`", CTORS[c].0, CTORS[c].1)));
        }
    }
    v
}

pub fn certified_path() -> String {
    format!("{}/../ref/c03_certified.txt", env!("CARGO_MANIFEST_DIR"))
}

fn certified() -> Vec<String> {
    std::fs::read_to_string(certified_path()).map(|t| t.lines().filter(|l| !l.is_empty()).map(|l| l.to_string()).collect()).unwrap_or_default()
}

fn accepts_type(t: &str) -> bool {
    // one program with the type in every annotation position
    let src = format!(
        "let v: {t} = undefined as any; function f(x: any, y?: {t}): {t} {{ return x; }} type A = {t}; const g = (a: {t}): {t} => a; const h = new Array<{t}>(); const c = (1 as {t}); interface I {{ m: {t}; n(x: {t}): {t} }} class K {{ f: {t} = undefined as any; m(x: {t}): {t} {{ return x; }} }} function k<X extends {t} = {t}>() {{ }} 'ok'",
        t = t
    );
    let cfg = RunConfig { max_steps: 10_000, gc_threshold: Some(0), ..Default::default() };
    let o = runner::run_fresh(&src, &cfg);
    o.kind == "value" && o.value == "ok"
}

/// The universe part of the matrix: every entry must be accepted; a failing entry is
/// attributed to its smallest failing sub-form (root cause).
fn judge_universe(r: &mut UnitResult, lo: usize, hi: usize) {
    let named = universe_named();
    let u = universe();
    let hi = hi.min(u.len());
    let lim = Limits { wall: std::time::Duration::from_secs(300), address_space: 3 << 30, stack: 0 };
    let exit = isolate::run(&lim, || {
        let ok: Vec<bool> = u.iter().map(|(t, _)| accepts_type(t)).collect();
        let mut out = String::new();
        for b in ok {
            out.push(if b { '1' } else { '0' });
        }
        out
    });
    let Exit::Ok(bits) = exit else {
        r.violate("crash|type-universe".to_string(), "worker died while parsing the enumerated type universe".to_string(), json!({"id": "universe"}));
        return;
    };
    let ok: Vec<bool> = bits.chars().map(|c| c == '1').collect();
    if ok.len() != u.len() {
        r.inconclusive += 1;
        return;
    }
    let cert: std::collections::BTreeSet<String> = certified().into_iter().collect();
    for i in lo..hi {
        r.evaluations += 1;
        r.nontrivial += 1;
        if ok[i] {
            continue;
        }
        // root cause: the first sub-entry that fails although all of ITS sub-entries pass
        let mut root = named[i].2.clone();
        for &s in &u[i].1 {
            if !ok[s] {
                root = named[s].2.clone();
                break;
            }
        }
        let certified_note = if cert.contains(&u[i].0) { " (was certified)" } else { "" };
        r.violate(
            format!("form|{}|{}", root, u[i].0),
            format!("type `{}` is rejected in at least one annotation position{}; smallest rejected sub-form is built by: {}", u[i].0, certified_note, root),
            json!({"id": format!("type.{}", u[i].0), "js": "'ok'", "ts": format!("let v: {} = undefined as any; 'ok'", u[i].0), "module": false}),
        );
    }
    r.stat("type_universe_entries", (hi - lo) as i64);
}

/// `tsverif C03 certify`: print the universe entries tsrun accepts (build-time tool).
pub fn print_certified() {
    for (t, _) in universe() {
        if accepts_type(&t) {
            println!("{}", t);
        }
    }
}

// ───────────────────────────── hand-written pairs ─────────────────────────────

/// (name, JavaScript, TypeScript) — both are complete programs that return a string
pub const PAIRS: &[(&str, &str, &str)] = &[
    ("generic-arrow", "const id = (x) => x; id(5) + ''", "const id = <T>(x: T): T => x; id(5) + ''"),
    ("generic-arrow-comma", "const id = (x) => x; id('a')", "const id = <T,>(x: T) => x; id('a')"),
    ("generic-arrow-constraint", "const f = (x) => x.length; f('abc') + ''", "const f = <T extends { length: number }>(x: T): number => x.length; f('abc') + ''"),
    ("async-generic-arrow", "const f = async (x) => x; (f(1) instanceof Promise) + ''", "const f = async <T>(x: T): Promise<T> => x; (f(1) instanceof Promise) + ''"),
    ("comparison-chain-stays", "var a = 1, b = 2, c = 3; [(a < b), (b > c), a < b && b > c].join()", "var a: number = 1, b: number = 2, c: number = 3; [(a < b), (b > c), a < b && b > c].join()"),
    ("call-type-args", "function f(x) { return x; } f(7) + ''", "function f<T>(x: T): T { return x; } f<number>(7) + ''"),
    ("call-type-args-nested", "function f(x) { return x; } f([[1]]).length + ''", "function f<T>(x: T): T { return x; } f<Array<Array<number>>>([[1]]).length + ''"),
    ("new-type-args", "const m = new Map(); m.set('a', [1]); m.get('a').length + ''", "const m = new Map<string, Array<number>>(); m.set('a', [1]); m.get('a')!.length + ''"),
    ("shift-vs-generic-close", "let x = 16 >> 2; let y = 64 >>> 3; [x, y].join()", "let x: number = 16 >> 2; let y: Array<Array<Array<number>>> | number = 64 >>> 3; [x, y].join()"),
    ("as-in-template", "var x = 5; `v=${x}:${x + 1}`", "var x = 5; `v=${x as number}:${(x as any) + 1}`"),
    ("as-before-index", "var x = [1, 2]; (x)[1] + ''", "var x: unknown = [1, 2]; (x as number[])[1] + ''"),
    ("as-before-call", "var f = function(a){ return a * 2; }; (f)(4) + ''", "var f: unknown = function(a: number){ return a * 2; }; (f as Function)(4) + ''"),
    ("as-chain", "var x = '5'; Number(x) + 1 + ''", "var x = '5'; Number(x as unknown as string) + 1 + ''"),
    ("as-const", "var t = [1, 2]; var o = {k: 'v'}; t.length + o.k", "var t = [1, 2] as const; var o = {k: 'v'} as const; t.length + o.k"),
    ("as-precedence", "var a = 1, b = 2; (a + b) * 2 + ''", "var a = 1, b = 2; (a + b as number) * 2 + ''"),
    ("nonnull-dot", "var o = {p: {q: 3}}; o.p.q + ''", "var o: any = {p: {q: 3}}; o!.p!.q! + ''"),
    ("nonnull-index-call", "var a = [function(){ return 9; }]; a[0]() + ''", "var a: any = [function(){ return 9; }]; a![0]!() + ''"),
    ("nonnull-vs-not", "var x = 0; [!x, !!x, !x === true].join()", "var x: number | null = 0; [!x!, !!x!, !x! === true].join()"),
    ("nonnull-then-ops", "var x = 2, y = 3; [x + y, x * y, x < y, x !== y, x != y].join()", "var x: number | undefined = 2, y: number | undefined = 3; [x! + y!, x! * y!, x! < y!, x! !== y!, x! != y!].join()"),
    ("optional-chain-nonnull", "var o = {a: {b: {c: 1}}}; o?.a.b.c + ''", "var o: any = {a: {b: {c: 1}}}; o?.a!.b!.c + ''"),
    ("angle-assertion", "var x = '7'; (x).length + ''", "var x: any = '7'; (<string>x).length + ''"),
    ("angle-assertion-array", "var e = []; e.length + ''", "var e = <number[]>[]; e.length + ''"),
    ("angle-assertion-paren", "var v = (3); v + 1 + ''", "var v = <any>(3); v + 1 + ''"),
    ("optional-param-vs-conditional", "function f(a, b = a ? 1 : 2) { return [a, b]; } [f(), f(0), f(5)].join('|')", "function f(a?: number, b: number = a ? 1 : 2): Array<number | undefined> { return [a, b]; } [f(), f(0), f(5)].join('|')"),
    ("arrow-in-conditional", "var c = true; var g = c ? (x) => x + 1 : null; g(1) + ''", "var c = true; var g = c ? (x: number): number => x + 1 : null; g!(1) + ''"),
    ("conditional-with-parens", "var c = false; var r = c ? (1) : (2); r + ''", "var c: boolean = false; var r: number = c ? (1) : (2); r + ''"),
    ("this-param", "function f(a) { return [typeof this, a].join(); } f.call('s', 1)", "function f(this: unknown, a: number): string { return [typeof this, a].join(); } f.call('s', 1)"),
    ("this-param-only", "function f() { return arguments.length; } f(1, 2) + ''", "function f(this: void) { return arguments.length; } (f as any)(1, 2) + ''"),
    ("overloads", "function f(a) { return typeof a; } [f(1), f('s')].join()", "function f(a: number): string;\nfunction f(a: string): string;\nfunction f(a: any): string { return typeof a; } [f(1), f('s')].join()"),
    ("method-overloads", "class K { m(a) { return typeof a; } } new K().m(1)", "class K { m(a: number): string; m(a: string): string; m(a: any): string { return typeof a; } } new K().m(1)"),
    ("definite-assignment", "let x; x = 4; x + ''", "let x!: number; x = 4; x + ''"),
    ("class-members", "class K { a = 1; static b = 2; c; constructor(){ this.c = 3; } m(){ return this.a + K.b + this.c; } } new K().m() + ''", "class K<T = any> implements Foo { public a: number = 1; private static readonly b: number = 2; protected c!: number; declare d: string; [k: string]: any; constructor(){ this.c = 3; } public m(): number { return this.a + K.b + this.c; } } new K<string>().m() + ''"),
    ("class-keys", "class K { a = 1; c; } Object.keys(new K()).join()", "class K { public a: number = 1; c: number | undefined; declare d: string; e?: number; } Object.keys(new K()).join()"),
    ("class-extends-generic", "class A { v(){ return 'a'; } } class B extends A { v(){ return super.v() + 'b'; } } new B().v()", "class A<T> { v(): string { return 'a'; } } class B<U extends object = {}> extends A<U> implements Foo, Bar<U> { override v(): string { return super.v() + 'b'; } } new B().v()"),
    ("accessors-typed", "class K { _v = 1; get v(){ return this._v; } set v(x){ this._v = x; } } var k = new K(); k.v = 5; k.v + ''", "class K { private _v: number = 1; get v(): number { return this._v; } set v(x: number) { this._v = x; } } var k = new K(); k.v = 5; k.v + ''"),
    ("object-method-generic", "var o = { m(x) { return [x]; }, n: (y) => y }; o.m(1).length + o.n('z')", "var o = { m<T>(x: T): T[] { return [x]; }, n: <U>(y: U): U => y }; o.m<number>(1).length + o.n('z')"),
    ("for-of-cast", "var s = 0; for (const x of [1, 2, 3]) s += x; s + ''", "var s: number = 0; for (const x of [1, 2, 3] as number[]) s += x; s + ''"),
    ("for-typed-init", "var s = 0; for (let i = 0, n = 3; i < n; i++) s += i; s + ''", "var s = 0; for (let i: number = 0, n: number = 3; i < n; i++) s += i; s + ''"),
    ("catch-annotation", "var r; try { null.x; } catch (e) { r = e.name; } r", "var r: string; try { (null as any).x; } catch (e: unknown) { r = (e as Error).name; } r!"),
    ("destructuring-annot", "var {a, b = 2} = {a: 1}; var [x, ...ys] = [1, 2, 3]; [a, b, x, ys.length].join()", "var {a, b = 2}: {a: number; b?: number} = {a: 1}; var [x, ...ys]: number[] = [1, 2, 3]; [a, b, x, ys.length].join()"),
    ("param-destructuring-annot", "function f({a, b}, [c]) { return a + b + c; } f({a: 1, b: 2}, [3]) + ''", "function f({a, b}: {a: number; b: number}, [c]: [number]): number { return a + b + c; } f({a: 1, b: 2}, [3]) + ''"),
    ("rest-and-optional", "function f(a, b, ...r) { return [a, b, r.length].join(); } f(1)", "function f(a: number, b?: string, ...r: Array<boolean>): string { return [a, b, r.length].join(); } f(1)"),
    ("type-predicates", "function isS(x) { return typeof x === 'string'; } function must(x) { if (!x) throw new Error('no'); } must(1); isS('a') + ''", "function isS(x: unknown): x is string { return typeof x === 'string'; } function must(x: unknown): asserts x { if (!x) throw new Error('no'); } must(1); isS('a') + ''"),
    ("typeof-keyof-types", "var o = {a: 1}; var k = 'a'; o[k] + ''", "var o = {a: 1}; var k: keyof typeof o = 'a'; var t: typeof o['a'] = o[k]; t + ''"),
    ("interfaces-and-aliases", "var v = {x: 1}; v.x + ''", "interface P { x: number }\ninterface P { y?: string }\ntype Q<T> = T extends P ? 'p' : never;\ntype R = { [K in keyof P]-?: P[K] };\nvar v: P = {x: 1}; v.x + ''"),
    ("declare-statements", "var v = 3; v + ''", "declare const ambient: number;\ndeclare function amb(a: string): void;\ndeclare class Amb { m(): void }\ndeclare namespace AmbNs { const z: number }\ndeclare let q: string, w: number;\nvar v = 3; v + ''"),
    ("abstract-free-modifiers", "class K { static s = 1; m(){ return K.s; } } new K().m() + ''", "class K { private static s: number = 1; protected m(): number { return K.s; } pub(): number { return this.m(); } } new K().pub() + ''"),
    ("generic-defaults-in-fn-type", "var f = function(cb){ return cb(2); }; f(function(x){ return x * 3; }) + ''", "var f = function<T = number>(cb: (x: T, ...r: unknown[]) => T): T { return cb(2 as unknown as T); }; f<number>(function(x: number): number { return x * 3; }) + ''"),
    ("arrow-returning-object-type", "var mk = (n) => ({n: n}); mk(2).n + ''", "var mk = (n: number): { n: number } => ({n: n}); mk(2).n + ''"),
    ("arrow-returning-fn-type", "var mk = (n) => (m) => n + m; mk(2)(3) + ''", "var mk = (n: number): ((m: number) => number) => (m: number): number => n + m; mk(2)(3) + ''"),
    ("tuple-and-readonly", "var t = [1, 'a']; t[1] + t[0]", "var t: readonly [number, string] = [1, 'a']; var u: [first: number, second?: string, ...rest: boolean[]] = [1]; t[1] + t[0]"),
    ("union-leading-pipe", "var v = null; String(v)", "var v: | string | null = null; type U = | 'a' | 'b'; String(v)"),
    ("literal-template-types", "var s = 'id-1'; s", "var s: `id-${number}` = 'id-1'; s"),
    ("generic-tagged-call", "function tag(s, v) { return s[0] + v; } tag`a${1}`", "function tag<T>(s: TemplateStringsArray, v: T): string { return s[0] + v; } tag<number>`a${1}`"),
    ("generator-typed", "function* g(n) { for (var i = 0; i < n; i++) yield i; } [...g(3)].join()", "function* g(n: number): Generator<number, void, unknown> { for (var i: number = 0; i < n; i++) yield i; } [...g(3)].join()"),
    ("async-typed", "async function f(x) { return x; } typeof f(1).then", "async function f<T>(x: T): Promise<Awaited<T>> { return x as Awaited<T>; } typeof f(1).then"),
    ("index-signature-class", "class K { a = 1 } new K().a + ''", "class K { [key: string]: unknown; static [k: number]: string; a = 1 } new K().a + ''"),
    ("optional-method-call", "var o = {}; String(o.m?.())", "var o: { m?(): number } = {}; String(o.m?.())"),
    ("numeric-separators-and-types", "var n = 1_000 + 0x10; n + ''", "var n: number = 1_000 + 0x10 as number; n + ''"),
    ("object-type-vs-block", "var r; { r = 1; } r + ''", "var r: { a: 1 } | number; { r = 1; } r + ''"),
    ("arrow-generic-default-param", "var f = (a = 1, b = [a]) => b.length + a; f() + ''", "var f = <T extends number = number>(a: T = 1 as T, b: Array<T> = [a]): number => b.length + a; f() + ''"),
    ("getter-setter-object-typed", "var o = { _x: 1, get x() { return this._x; }, set x(v) { this._x = v; } }; o.x = 2; o.x + ''", "var o = { _x: 1 as number, get x(): number { return this._x; }, set x(v: number) { this._x = v; } }; o.x = 2; o.x + ''"),
    ("in-operator-with-types", "var o = {a: 1}; ('a' in o) + ''", "var o: Record<string, number> = {a: 1}; ('a' in (o as object)) + ''"),
    ("label-vs-annotation", "var r = 0; lbl: for (var i = 0; i < 3; i++) { r += i; if (i === 1) break lbl; } r + ''", "var r: number = 0; lbl: for (var i: number = 0; i < 3; i++) { r += i; if (i === 1) break lbl; } r + ''"),
];

/// module-mode pairs: type-only imports/exports must not reach the module loader
const MODULE_PAIRS: &[(&str, &str, &str)] = &[
    ("import-type", "export const v = 1;\nv + ''", "import type { Foo } from './types-do-not-exist.ts';\nimport type * as NS from './also-missing.ts';\nexport const v: Foo | number = 1;\nv + ''"),
    ("export-type", "export const v = 2;\nv + ''", "type A = number;\ninterface B { x: A }\nexport type { A, B };\nexport type C = string;\nexport interface D { y: C }\nexport const v: A = 2;\nv + ''"),
    ("inline-type-import", "export const v = 3;\nv + ''", "import { type Foo, type Bar as Baz } from './missing-too.ts';\nexport const v: number = 3;\nv + ''"),
];

// ───────────────────────────── syntax matrix ─────────────────────────────

/// Type forms (all valid TypeScript). 'R' = only valid as a return type.
const FORMS: &[(&str, char)] = &[
    ("number", ' '), ("string | null", ' '), ("any", ' '), ("unknown", ' '), ("never", ' '), ("void", ' '), ("'lit'", ' '), ("42", ' '), ("-1", ' '),
    ("true", ' '), ("Foo", ' '), ("Foo.Bar", ' '), ("this", ' '), ("number[]", ' '), ("number[][]", ' '), ("(string | number)[]", ' '),
    ("Array<number>", ' '), ("Array<Array<number>>", ' '), ("Array<Array<Array<number>>>", ' '), ("readonly string[]", ' '),
    ("readonly [number, string]", ' '), ("[number, string]", ' '), ("[number, string?]", ' '), ("[number, ...string[]]", ' '),
    ("[x: number, y: string]", ' '), ("[x: number, y?: string, ...rest: boolean[]]", ' '), ("A | B", ' '), ("| A | B", ' '), ("A & B", ' '),
    ("(A | B) & C", ' '), ("(a: number) => void", ' '), ("(a: number, b?: string, ...rest: boolean[]) => string", ' '), ("() => () => number", ' '),
    ("new (x: number) => Foo", ' '), ("<T>(x: T) => T", ' '), ("{ a: number }", ' '), ("{ a: number; b?: string; readonly c: boolean }", ' '),
    ("{ a: number, b: string }", ' '), ("{ [k: string]: number }", ' '), ("{ m(x: number): string }", ' '), ("{ (y: number): string }", ' '),
    ("{ new (y: number): Foo }", ' '), ("{ readonly [K in 'a' | 'b']: number }", ' '), ("{ [K in keyof Foo]?: Foo[K] }", ' '),
    ("{ [K in keyof Foo]-?: Foo[K] }", ' '), ("{ [K in keyof Foo as `get${string & K}`]: () => Foo[K] }", ' '), ("Map<string, number>", ' '),
    ("Record<string, Array<number>>", ' '), ("Promise<Map<string, Array<Set<number>>>>", ' '), ("T extends U ? X : Y", ' '),
    ("T extends Array<infer E> ? E : never", ' '), ("T extends (infer U)[] ? U : never", ' '), ("Foo['a']", ' '), ("Foo['a'][number]", ' '),
    ("keyof Foo", ' '), ("keyof typeof obj", ' '), ("typeof obj", ' '), ("typeof obj.prop", ' '), ("unique symbol", ' '), ("`id-${string}`", ' '),
    ("`${number}px`", ' '), ("Partial<Pick<Foo, 'a' | 'b'>>", ' '), ("Exclude<string | null, null>", ' '), ("object", ' '), ("symbol", ' '),
    ("bigint", ' '), ("undefined", ' '), ("null", ' '), ("Function", ' '), ("abstract new () => Foo", ' '), ("typeof import('./x')", ' '),
    ("import('./x').Foo", ' '), ("[]", ' '), ("{}", ' '), ("string[] | undefined", ' '), ("Array<{ a: number }>", ' '), ("(new () => Foo) | null", ' '),
    ("x is string", 'R'), ("asserts x", 'R'), ("asserts x is string", 'R'), ("this is Foo", 'R'),
];

/// positions: (name, template with `$T`); every program must evaluate to 'ok'
const POSITIONS: &[(&str, &str)] = &[
    ("var", "let v: $T = undefined as any; 'ok'"),
    ("param", "function f(a: $T, b?: $T) { return 'ok'; } f(undefined as any)"),
    ("ret", "function f(x: any): $T { return undefined as any; } f(1); 'ok'"),
    ("arrow", "const f = (a: $T): $T => a; 'ok'"),
    ("generic-arg", "const a = new Array<$T>(); 'ok'"),
    ("as", "const a = (1 as $T); 'ok'"),
    ("alias", "type A = $T; 'ok'"),
    ("interface", "interface I { m: $T; f(x: $T): $T } 'ok'"),
    ("class", "class K { f: $T = undefined as any; m(x: $T): $T { return x; } } 'ok'"),
    ("constraint", "function f<X extends $T = $T>() { return 'ok'; } f()"),
    // explicit type arguments at call sites: the `<` must not be read as a comparison
    ("call-targ", "function f<X>(x?: X) { return 'ok'; } f<$T>()"),
    ("call-targ-args", "function f<X, Y>(x?: X, y?: Y) { return 'ok'; } f<$T, $T>(undefined as any, 1)"),
    ("method-call-targ", "const o = { m<X>(x?: X) { return 'ok'; } }; o.m<$T>(undefined as any)"),
    ("call-result-targ", "function g() { return function f<X>(x?: X) { return 'ok'; }; } g()<$T>()"),
    ("new-targ", "class K<X> { r() { return 'ok'; } } new K<$T>().r()"),
];

/// other static syntax: (kind, text, template with `$X`)
const SYNTAX: &[(&str, &str)] = &[
    ("generics", "function f<T>(x: T) { return 'ok'; } f(1)"),
    ("generics", "function f<T, U>(x: T, y?: U) { return 'ok'; } f(1)"),
    ("generics", "function f<T extends object>(x?: T) { return 'ok'; } f()"),
    ("generics", "function f<T = any>(x?: T) { return 'ok'; } f()"),
    ("generics", "function f<T extends keyof Foo = 'a'>(x?: T) { return 'ok'; } f()"),
    ("generics", "function f<const T>(x?: T) { return 'ok'; } f()"),
    ("generics", "function f<T extends Array<Array<number>>>(x?: T) { return 'ok'; } f()"),
    ("generics", "class K<in out T> { } 'ok'"),
    ("generics", "class K<T, U extends T = T> { } new K<number>(); 'ok'"),
    ("generics", "interface I<T> extends J<T>, K { } 'ok'"),
    ("generics", "type A<T extends object = {}> = T; 'ok'"),
    ("modifier", "class K { public a = 1; } 'ok'"),
    ("modifier", "class K { private a = 1; } 'ok'"),
    ("modifier", "class K { protected a = 1; } 'ok'"),
    ("modifier", "class K { readonly a = 1; } 'ok'"),
    ("modifier", "class K { public readonly a = 1; } 'ok'"),
    ("modifier", "class K { private static readonly a = 1; } 'ok'"),
    ("modifier", "class K { declare a: number; } 'ok'"),
    ("modifier", "class K { a?: number; } 'ok'"),
    ("modifier", "class K { a!: number; } 'ok'"),
    ("modifier", "class K { static a?: number; } 'ok'"),
    ("modifier", "class K { public m(): void {} protected static n(): void {} } 'ok'"),
    ("modifier", "class A { m(): void {} } class K extends A { override m(): void {} } 'ok'"),
    ("modifier", "class K { [k: string]: unknown; } 'ok'"),
    ("modifier", "class K { static [k: number]: string; } 'ok'"),
    ("modifier", "class K { constructor(); constructor(a?: number) {} } 'ok'"),
    ("modifier", "class K { m(a: number): void; m(a: string): void; m(a: any): void {} } 'ok'"),
    ("modifier", "class K { get v(): number { return 1; } set v(x: number) {} } 'ok'"),
    ("modifier", "class K implements Foo { } 'ok'"),
    ("modifier", "class K implements Foo, Bar<number> { } 'ok'"),
    ("modifier", "class K extends Object implements Foo { } 'ok'"),
    ("declaration", "interface I { a: number } 'ok'"),
    ("declaration", "interface I<T = any> extends Foo { a: T; b?: T; m<U>(x: U): T; readonly [k: string]: any } 'ok'"),
    ("declaration", "interface J { (x: number): string; new (y: number): J } 'ok'"),
    ("declaration", "interface P { x: number }\ninterface P { y?: string }\n'ok'"),
    ("declaration", "type A = number; 'ok'"),
    ("declaration", "type A<T extends object = {}> = number | T; 'ok'"),
    ("declaration", "declare const dc: number; 'ok'"),
    ("declaration", "declare let dl: number, dm: string; 'ok'"),
    ("declaration", "declare var dv: number; 'ok'"),
    ("declaration", "declare function df<T>(a: number, b?: T): void; 'ok'"),
    ("declaration", "declare class DK { x: number; static y: number; m(): void } 'ok'"),
    ("declaration", "declare namespace DN { const q: number; function f(): void; } 'ok'"),
    ("declaration", "declare module 'some-module' { export const q: number; } 'ok'"),
    ("declaration", "declare global { interface Window { q: number } } 'ok'"),
    ("declaration", "declare enum DE { A, B } 'ok'"),
    ("declaration", "declare abstract class DA { abstract m(): void } 'ok'"),
    ("declaration", "function f(a: number): number;\nfunction f(a: string): string;\nfunction f(a: any): any { return a; } 'ok'"),
    ("declaration", "abstract class AB { abstract m(): void; n(): string { return 'x'; } } 'ok'"),
    ("assertion", "const a = 1 as any; 'ok'"),
    ("assertion", "const a = 1 as unknown as string; 'ok'"),
    ("assertion", "const a = {n: 1} as { n: number }; 'ok'"),
    ("assertion", "const a = [1] as const; 'ok'"),
    ("assertion", "const a = {n: 1} satisfies object; 'ok'"),
    ("assertion", "const a = <any>1; 'ok'"),
    ("assertion", "const a = <number[]>[]; 'ok'"),
    ("assertion", "const o: any = {p: 1}; o!.p; o!['p']; 'ok'"),
    ("assertion", "let x!: number; x = 1; 'ok'"),
    ("assertion", "const f: any = () => 1; f!(); 'ok'"),
    ("call-args", "function f<T>(x?: T) { return 'ok'; } f<number>()"),
    ("call-args", "function f<T>(x?: T) { return 'ok'; } f<Array<Array<number>>>()"),
    ("call-args", "new Map<string, Array<number>>(); 'ok'"),
    ("call-args", "[1].map<number>(x => x); 'ok'"),
    ("call-args", "Promise.resolve<number>(1); 'ok'"),
    ("call-args", "function tag<T>(s: TemplateStringsArray, v?: T) { return 'ok'; } tag<number>`a${1}`"),
    ("params", "function f(this: unknown, a?: number) { return 'ok'; } f.call(null)"),
    ("params", "function f(a: number = 1, b?: string, ...r: boolean[]) { return 'ok'; } f()"),
    ("params", "function f({a, b}: {a?: number; b?: number} = {}, [c]: number[] = []) { return 'ok'; } f()"),
    ("params", "const f = async <T>(x?: T): Promise<string> => 'ok'; f(); 'ok'"),
    ("params", "const f = <T,>(x?: T) => 'ok'; f()"),
    ("params", "const f = <T extends { length: number }>(x?: T): string => 'ok'; f()"),
    ("params", "try { null!.x; } catch (e: unknown) { } 'ok'"),
    ("params", "for (const x of [1] as number[]) { } for (let i: number = 0; i < 1; i++) { } 'ok'"),
    ("params", "const o = { m<T>(x?: T): string { return 'ok'; } }; o.m<number>()"),
];

fn matrix_pairs() -> Vec<Pair> {
    let mut v = Vec::new();
    for (fi, (form, flag)) in FORMS.iter().enumerate() {
        for (pname, tpl) in POSITIONS {
            if *flag == 'R' && *pname != "ret" {
                continue;
            }
            let _ = fi;
            v.push(Pair { id: format!("typeform.[{}]#{}", form, pname), js: "'ok'".to_string(), ts: tpl.replace("$T", form), module: false });
        }
    }
    for (kind, src) in SYNTAX {
        v.push(Pair { id: format!("syntax.{}#[{}]", kind, truncate(&src.replace('\n', " "), 70)), js: "'ok'".to_string(), ts: src.to_string(), module: false });
    }
    v
}

// ───────────────────────────── running ─────────────────────────────

struct Pair {
    id: String,
    js: String,
    ts: String,
    module: bool,
}

fn outcome(src: &str, module: bool) -> (String, u64) {
    let cfg = RunConfig { max_steps: 400_000, gc_threshold: Some(0), module_path: if module { Some("/m/main.ts".into()) } else { None }, ..Default::default() };
    let o = runner::run_fresh(src, &cfg);
    (format!("{}|{}|{}|{}", o.kind, o.value, o.error_class, o.log.join("\u{1f}")), o.instructions)
}

fn judge(r: &mut UnitResult, pairs: &[Pair]) {
    let lim = Limits { wall: std::time::Duration::from_secs(300), address_space: 3 << 30, stack: 0 };
    let exit = isolate::run(&lim, || {
        let mut last_js: Option<(String, (String, u64))> = None;
        for (i, p) in pairs.iter().enumerate() {
            let a = match &last_js {
                Some((src, res)) if *src == p.js => res.clone(),
                _ => {
                    let res = outcome(&p.js, p.module);
                    last_js = Some((p.js.clone(), res.clone()));
                    res
                }
            };
            let b = outcome(&p.ts, p.module);
            isolate::emit(&format!("{}\u{2}{}\u{2}{}\u{2}{}\u{2}{}\u{3}", i, a.0, b.0, a.1, b.1));
        }
        String::new()
    });
    let (text, died) = match exit {
        Exit::Ok(t) => (t, None),
        Exit::Signal(s, t) => (t, Some(format!("signal {}", isolate::signal_name(s)))),
        Exit::Status(c, t) => (t, Some(format!("exit {}", c))),
        Exit::Timeout(t) => (t, Some("timeout".into())),
    };
    let mut seen = vec![false; pairs.len()];
    for rec in text.split('\u{3}') {
        let f: Vec<&str> = rec.split('\u{2}').collect();
        if f.len() < 5 {
            continue;
        }
        let Ok(i) = f[0].parse::<usize>() else { continue };
        if i >= pairs.len() {
            continue;
        }
        seen[i] = true;
        r.evaluations += 1;
        if f[1].starts_with("limit") {
            r.inconclusive += 1;
            continue;
        }
        r.nontrivial += 1;
        if f[3] != f[4] {
            r.stat("decorations_changing_instruction_count", 1);
        }
        if f[1] != f[2] {
            // signature: the decoration class, not the individual program, for slot decorations
            r.violate(
                format!("erasure|{}", pairs[i].id),
                format!("{}: the annotated variant behaves differently:\n      plain:     {}\n      annotated: {}", pairs[i].id, truncate(f[1], 200), truncate(f[2], 200)),
                json!({"id": pairs[i].id, "js": pairs[i].js, "ts": pairs[i].ts, "module": pairs[i].module}),
            );
        }
    }
    if let Some(why) = died {
        let culprit = seen.iter().position(|s| !*s).unwrap_or(0);
        if why == "timeout" {
            r.inconclusive += 1;
        } else {
            r.violate(
                format!("crash|{}", pairs[culprit].id),
                format!("worker died ({}) on {}", why, pairs[culprit].id),
                json!({"id": pairs[culprit].id, "js": pairs[culprit].js, "ts": pairs[culprit].ts, "module": pairs[culprit].module}),
            );
        }
        if culprit + 1 < pairs.len() {
            judge(r, &pairs[culprit + 1..]);
        }
    }
}

const TYPES_PRELUDE: &str = "";

fn hand_pairs() -> Vec<Pair> {
    let mut v = Vec::new();
    for (n, js, ts) in PAIRS {
        v.push(Pair { id: format!("pair.{}", n), js: js.to_string(), ts: ts.to_string(), module: false });
        // the same pair inside a function body and inside a class method body
        v.push(Pair {
            id: format!("pair-fn.{}", n),
            js: format!("(function(){{ {} ; return 'ok'; }})() + (function(){{ return 'x'; }})()", js.replace('\n', " ")),
            ts: format!("(function(){{ {} ; return 'ok'; }})() + (function(): string {{ return 'x'; }})()", ts.replace('\n', " ")),
            module: false,
        });
    }
    for (n, js, ts) in MODULE_PAIRS {
        v.push(Pair { id: format!("module.{}", n), js: js.to_string(), ts: ts.to_string(), module: true });
    }
    v
}

/// decorated variants of one composed program
fn slot_pairs(ctx: &Ctx, shard: u64, index: u64) -> Vec<Pair> {
    let p = corpus::b_program(shard, index);
    let kinds = compose::slots(&p.marked);
    let js = p.src.clone();
    let mut v = Vec::new();
    let mut rng = Rng::derive("c03-slots", shard, index);
    // enumerated: every single slot alone, with 2 (quick) / 4 (thorough) palette forms
    let forms = if ctx.thorough() { 4 } else { 2 };
    for (ord, k) in kinds.iter().enumerate() {
        for f in 0..forms {
            let form = (ord * 5 + f * 3 + index as usize) % 12;
            let body = compose::render_with(&p.marked, |o, kind| if o == ord { Some(fill(kind, &mut rng, Some(form), o)) } else { None });
            v.push(Pair { id: format!("slot.{}.{}/{}#{}.{}", k, shard, index, ord, form), js: js.clone(), ts: compose::wrap(&body), module: false });
        }
    }
    // random multi-slot decorations with grammar types
    let nrand = if ctx.thorough() { 10 } else { 4 };
    for k in 0..nrand {
        let density = 1 + rng.below(4);
        let mut rr = Rng::derive("c03-multi", shard * 1000 + index, k as u64);
        let body = compose::render_with(&p.marked, |o, kind| if rr.chance(density as u64, 4) { Some(fill(kind, &mut rr, None, o)) } else { None });
        v.push(Pair { id: format!("multi.{}/{}#{}", shard, index, k), js: js.clone(), ts: compose::wrap(&body), module: false });
    }
    v
}

fn programs_per_unit() -> u64 {
    6
}

fn b_range(ctx: &Ctx) -> (Vec<u64>, u64) {
    if ctx.thorough() { ((0..8).collect(), 240) } else { (vec![ctx.seed % corpus::B_SHARDS, (ctx.seed + 7) % corpus::B_SHARDS], 96) }
}

impl Check for C03 {
    fn units(&self, ctx: &Ctx) -> usize {
        let (shards, per) = b_range(ctx);
        3 + shards.len() * (per / programs_per_unit()) as usize
    }

    fn run_unit(&self, ctx: &Ctx, idx: usize) -> UnitResult {
        let mut r = UnitResult::default();
        let _ = TYPES_PRELUDE;
        if idx == 0 {
            let pairs = hand_pairs();
            judge(&mut r, &pairs);
            r.stat("hand_written_pairs", pairs.len() as i64);
            r.sample(json!({"pair": pairs[0].id, "js": pairs[0].js, "ts": pairs[0].ts}));
            return r;
        }
        if idx == 1 {
            let pairs = matrix_pairs();
            judge(&mut r, &pairs);
            r.stat("syntax_matrix_cells", pairs.len() as i64);
            r.sample(json!({"cell": pairs[25].id, "ts": pairs[25].ts}));
            return r;
        }
        if idx == 2 {
            judge_universe(&mut r, 0, usize::MAX);
            r.sample(json!({"type_universe_example": universe()[1200].0}));
            return r;
        }
        let (shards, per) = b_range(ctx);
        let upu = (per / programs_per_unit()) as usize;
        let k = idx - 3;
        let shard = shards[k / upu];
        let lo = (k % upu) as u64 * programs_per_unit();
        let mut pairs = Vec::new();
        for i in lo..lo + programs_per_unit() {
            pairs.extend(slot_pairs(ctx, shard, i));
        }
        judge(&mut r, &pairs);
        r.stat("slot_decorations", pairs.len() as i64);
        if let Some(p) = pairs.iter().find(|p| p.id.starts_with("multi")) {
            let body = p.ts.split("const __log = [];").nth(1).unwrap_or("");
            r.sample(json!({"decoration": p.id, "annotated_source": truncate(body, 900)}));
        }
        r
    }

    fn replay(&self, _ctx: &Ctx, case: &Value) -> UnitResult {
        let mut r = UnitResult::default();
        let p = Pair {
            id: case["id"].as_str().unwrap_or("replay").to_string(),
            js: case["js"].as_str().unwrap_or("").to_string(),
            ts: case["ts"].as_str().unwrap_or("").to_string(),
            module: case["module"].as_bool().unwrap_or(false),
        };
        judge(&mut r, &[p]);
        r
    }
}
