//! C13 — the collector implements guard reachability exactly and memory-safely.
//!
//! A reference model (objects with payload + links, guards with root multisets, handle
//! counts, reachability by DFS, the collect-before-allocate counter) is stepped in
//! lock-step with the real `Heap<TestObj>`. Histories over the public Heap/Guard/Gc API are
//! enumerated exhaustively up to a bound and generated randomly for long runs. The same
//! driver runs natively (value oracle + H1 stale-handle log), under Miri and under ASan
//! (memory-safety oracle).

use crate::util::*;
use serde_json::{Value, json};
use tsrun::gc::{Gc, GcPtr, Guard, Heap, Reset, Traceable};

#[derive(Default)]
pub struct TestObj {
    value: i64,
    refs: Vec<Gc<TestObj>>,
}
impl Reset for TestObj {
    fn reset(&mut self) {
        self.value = 0;
        self.refs.clear();
    }
}
impl Traceable for TestObj {
    fn trace<F: FnMut(GcPtr<Self>)>(&self, mut visitor: F) {
        for r in &self.refs {
            visitor(r.copy_ref());
        }
    }
}

#[derive(Clone, Copy, Debug, PartialEq, Eq)]
pub enum Op {
    NewGuard,
    DropGuard(u8),
    Alloc(u8),
    Link(u8, u8),
    Unlink(u8),
    GuardObj(u8, u8),
    Unguard(u8, u8),
    Clear(u8),
    CloneHandle(u8),
    DropHandle(u8),
    Collect,
    Threshold(u8),
    DropHeap,
}

impl Op {
    fn enc(&self) -> String {
        match *self {
            Op::NewGuard => "G".into(),
            Op::DropGuard(g) => format!("g{}", g),
            Op::Alloc(g) => format!("A{}", g),
            Op::Link(a, b) => format!("L{}.{}", a, b),
            Op::Unlink(a) => format!("U{}", a),
            Op::GuardObj(g, o) => format!("R{}.{}", g, o),
            Op::Unguard(g, o) => format!("r{}.{}", g, o),
            Op::Clear(g) => format!("C{}", g),
            Op::CloneHandle(o) => format!("H{}", o),
            Op::DropHandle(o) => format!("h{}", o),
            Op::Collect => "X".into(),
            Op::Threshold(t) => format!("T{}", t),
            Op::DropHeap => "D".into(),
        }
    }
    fn dec(s: &str) -> Option<Op> {
        let (c, rest) = s.split_at(1);
        let nums: Vec<usize> = rest.split('.').filter_map(|x| x.parse().ok()).collect();
        let n = |i: usize| nums.get(i).copied().unwrap_or(0) as u8;
        Some(match c {
            "G" => Op::NewGuard,
            "g" => Op::DropGuard(n(0)),
            "A" => Op::Alloc(n(0)),
            "L" => Op::Link(n(0), n(1)),
            "U" => Op::Unlink(n(0)),
            "R" => Op::GuardObj(n(0), n(1)),
            "r" => Op::Unguard(n(0), n(1)),
            "C" => Op::Clear(n(0)),
            "H" => Op::CloneHandle(n(0)),
            "h" => Op::DropHandle(n(0)),
            "X" => Op::Collect,
            "T" => Op::Threshold(n(0)),
            "D" => Op::DropHeap,
            _ => return None,
        })
    }
}

fn enc_hist(h: &[Op]) -> String {
    h.iter().map(|o| o.enc()).collect::<Vec<_>>().join(" ")
}

#[derive(Clone, Debug)]
struct MObj {
    payload: i64,
    links: Vec<u8>,
    dead: bool,
    handles: u8,
}

/// The reference model. Cheap to clone, so the enumeration walks the model and the real
/// heap is re-executed from scratch for every history.
#[derive(Clone, Debug)]
struct Model {
    guards: Vec<Option<Vec<u8>>>,
    objs: Vec<MObj>,
    threshold: usize,
    net_allocs: i64,
    heap_alive: bool,
}

#[derive(Clone, Copy)]
struct Bounds {
    max_guards: usize,
    max_objs: usize,
    max_handles: u8,
    max_links: usize,
    full_alphabet: bool,
}

impl Model {
    fn new(threshold: usize) -> Self {
        Model {
            guards: vec![],
            objs: vec![],
            threshold,
            net_allocs: 0,
            heap_alive: true,
        }
    }

    fn reachable(&self) -> Vec<bool> {
        let mut mark = vec![false; self.objs.len()];
        let mut stack: Vec<u8> = Vec::new();
        for g in self.guards.iter().flatten() {
            for &o in g {
                if !self.objs[o as usize].dead {
                    stack.push(o);
                }
            }
        }
        while let Some(o) = stack.pop() {
            if mark[o as usize] {
                continue;
            }
            mark[o as usize] = true;
            for &l in &self.objs[o as usize].links {
                stack.push(l);
            }
        }
        mark
    }

    fn collect(&mut self) -> usize {
        let mark = self.reachable();
        let mut n = 0;
        for (i, o) in self.objs.iter_mut().enumerate() {
            if !o.dead && !mark[i] {
                o.dead = true;
                o.links.clear();
                n += 1;
            }
        }
        // a guard root naming a dead object is ignored by the collector (pooled) and
        // would name the next tenant after reuse; the model drops such roots, and the
        // generator never creates them (objects die only when no guard names them)
        self.net_allocs = 0;
        n
    }

    fn ops(&self, b: &Bounds) -> Vec<Op> {
        let mut v = Vec::new();
        let live_guards: Vec<u8> = (0..self.guards.len() as u8)
            .filter(|&g| self.guards[g as usize].is_some())
            .collect();
        let usable: Vec<u8> = (0..self.objs.len() as u8)
            .filter(|&o| !self.objs[o as usize].dead && self.objs[o as usize].handles > 0)
            .collect();
        if self.heap_alive {
            if self.guards.len() < b.max_guards {
                v.push(Op::NewGuard);
            }
            for &g in &live_guards {
                v.push(Op::DropGuard(g));
                if self.objs.len() < b.max_objs {
                    v.push(Op::Alloc(g));
                }
            }
            for &a in &usable {
                if self.objs[a as usize].links.len() < b.max_links {
                    for &t in &usable {
                        v.push(Op::Link(a, t));
                    }
                }
                if b.full_alphabet && !self.objs[a as usize].links.is_empty() {
                    v.push(Op::Unlink(a));
                }
            }
            if b.full_alphabet {
                for &g in &live_guards {
                    let roots = self.guards[g as usize].as_ref().unwrap();
                    for &o in &usable {
                        if roots.len() < 3 {
                            v.push(Op::GuardObj(g, o));
                        }
                        if roots.contains(&o) {
                            v.push(Op::Unguard(g, o));
                        }
                    }
                    if !roots.is_empty() {
                        v.push(Op::Clear(g));
                    }
                }
                for t in 0..3u8 {
                    if t as usize != self.threshold {
                        v.push(Op::Threshold(t));
                    }
                }
                v.push(Op::DropHeap);
            }
            v.push(Op::Collect);
        } else {
            for &g in &live_guards {
                v.push(Op::DropGuard(g));
            }
        }
        for o in 0..self.objs.len() as u8 {
            let h = self.objs[o as usize].handles;
            if h > 0 {
                v.push(Op::DropHandle(o));
                if h < b.max_handles {
                    v.push(Op::CloneHandle(o));
                }
            }
        }
        v
    }

    /// Apply an op to the model. Returns whether a collection is expected to run.
    fn apply(&mut self, op: Op, next_payload: i64) -> bool {
        match op {
            Op::NewGuard => {
                self.guards.push(Some(vec![]));
                false
            }
            Op::DropGuard(g) => {
                self.guards[g as usize] = None;
                false
            }
            Op::Alloc(g) => {
                let mut collected = false;
                self.net_allocs += 1;
                if self.threshold > 0 && self.net_allocs >= self.threshold as i64 {
                    self.collect();
                    collected = true;
                }
                let id = self.objs.len() as u8;
                self.objs.push(MObj {
                    payload: next_payload,
                    links: vec![],
                    dead: false,
                    handles: 1,
                });
                if let Some(r) = self.guards[g as usize].as_mut() {
                    r.push(id);
                }
                collected
            }
            Op::Link(a, t) => {
                self.objs[a as usize].links.push(t);
                false
            }
            Op::Unlink(a) => {
                self.objs[a as usize].links.pop();
                false
            }
            Op::GuardObj(g, o) => {
                if self.heap_alive
                    && let Some(r) = self.guards[g as usize].as_mut()
                {
                    r.push(o);
                }
                false
            }
            Op::Unguard(g, o) => {
                if let Some(r) = self.guards[g as usize].as_mut()
                    && let Some(p) = r.iter().position(|x| *x == o)
                {
                    r.swap_remove(p);
                }
                false
            }
            Op::Clear(g) => {
                if let Some(r) = self.guards[g as usize].as_mut() {
                    r.clear();
                }
                false
            }
            Op::CloneHandle(o) => {
                self.objs[o as usize].handles += 1;
                false
            }
            Op::DropHandle(o) => {
                self.objs[o as usize].handles -= 1;
                false
            }
            Op::Collect => {
                self.collect();
                true
            }
            Op::Threshold(t) => {
                self.threshold = t as usize;
                false
            }
            Op::DropHeap => {
                self.heap_alive = false;
                false
            }
        }
    }
}

impl Model {
    /// Whether `op` is applicable in this model state (used by the shrinker).
    fn valid(&self, op: Op) -> bool {
        let g_live = |g: u8| self.guards.get(g as usize).is_some_and(|x| x.is_some());
        let usable = |o: u8| self.objs.get(o as usize).is_some_and(|x| !x.dead && x.handles > 0);
        let has = |o: u8| self.objs.get(o as usize).is_some_and(|x| x.handles > 0);
        if !self.heap_alive {
            return match op {
                Op::DropGuard(g) => g_live(g),
                Op::DropHandle(o) | Op::CloneHandle(o) => has(o),
                _ => false,
            };
        }
        match op {
            Op::NewGuard | Op::Collect | Op::Threshold(_) | Op::DropHeap => true,
            Op::DropGuard(g) | Op::Alloc(g) | Op::Clear(g) => g_live(g),
            Op::Link(a, t) => usable(a) && usable(t),
            Op::Unlink(a) => usable(a) && !self.objs[a as usize].links.is_empty(),
            Op::GuardObj(g, o) => g_live(g) && usable(o),
            Op::Unguard(g, o) => g_live(g) && usable(o) && self.guards[g as usize].as_ref().unwrap().contains(&o),
            Op::CloneHandle(o) | Op::DropHandle(o) => has(o),
        }
    }
}

fn history_valid(hist: &[Op], threshold0: usize) -> bool {
    let mut m = Model::new(threshold0);
    for &op in hist {
        if !m.valid(op) {
            return false;
        }
        m.apply(op, 0);
    }
    true
}

/// Greedy one-op-at-a-time delta debugging under "still a valid history and still
/// fails with the same class".
fn shrink(hist: &[Op], threshold0: usize, class: &str) -> Vec<Op> {
    let mut cur = hist.to_vec();
    let mut changed = true;
    let mut budget = 20000;
    while changed && budget > 0 {
        changed = false;
        let mut i = cur.len();
        while i > 0 && budget > 0 {
            i -= 1;
            let mut cand = cur.clone();
            cand.remove(i);
            budget -= 1;
            if !history_valid(&cand, threshold0) {
                continue;
            }
            let mut s = Stats::default();
            if let Some(d) = execute(&cand, threshold0, true, &mut s)
                && d.class == class
            {
                cur = cand;
                changed = true;
            }
        }
    }
    cur
}

struct Real {
    heap: Option<Heap<TestObj>>,
    guards: Vec<Option<Guard<TestObj>>>,
    handles: Vec<Vec<Gc<TestObj>>>,
}

#[derive(Debug)]
pub struct Divergence {
    pub class: &'static str,
    pub detail: String,
    /// true when the H1 log shows a stale handle dropped onto the reused slot of the
    /// diverging object (the recorded finding C13/stale-drop)
    pub explained_by_stale_drop: bool,
}

/// Execute a history on the real heap in lock-step with the model. `check_every`:
/// run the full comparison after every op (true) or only after the last one.
fn execute(hist: &[Op], threshold0: usize, check_every: bool, stats: &mut Stats) -> Option<Divergence> {
    tsrun::verif::reset_thread();
    let heap: Heap<TestObj> = Heap::new();
    heap.set_gc_threshold(threshold0);
    let mut real = Real {
        heap: Some(heap),
        guards: vec![],
        handles: vec![],
    };
    let mut model = Model::new(threshold0);
    let mut payload = 1000i64;
    // slots that received a stale drop after being reused (from the H1 log)
    let mut stale_dropped_slots: Vec<usize> = Vec::new();
    for (step, &op) in hist.iter().enumerate() {
        let c0 = tsrun::verif::gc_counters();
        let total_before = real.heap.as_ref().map(|h| h.stats().total_objects);
        let pooled_before = real.heap.as_ref().map(|h| h.stats().pooled_objects);
        payload += 1;
        let expect_collect = model.apply(op, payload);
        match op {
            Op::NewGuard => {
                let g = real.heap.as_ref().unwrap().create_guard();
                real.guards.push(Some(g));
            }
            Op::DropGuard(g) => {
                real.guards[g as usize] = None;
            }
            Op::Alloc(g) => {
                let o = real.guards[g as usize].as_ref().unwrap().alloc();
                o.borrow_mut().value = payload;
                real.handles.push(vec![o]);
            }
            Op::Link(a, t) => {
                let th = real.handles[t as usize][0].clone();
                real.handles[a as usize][0].borrow_mut().refs.push(th);
            }
            Op::Unlink(a) => {
                let popped = real.handles[a as usize][0].borrow_mut().refs.pop();
                drop(popped);
            }
            Op::GuardObj(g, o) => {
                let h = real.handles[o as usize][0].clone();
                real.guards[g as usize].as_ref().unwrap().guard(h);
            }
            Op::Unguard(g, o) => {
                let h = &real.handles[o as usize][0];
                real.guards[g as usize].as_ref().unwrap().unguard(h);
            }
            Op::Clear(g) => {
                real.guards[g as usize].as_ref().unwrap().clear();
            }
            Op::CloneHandle(o) => {
                let h = real.handles[o as usize][0].clone();
                real.handles[o as usize].push(h);
            }
            Op::DropHandle(o) => {
                let h = real.handles[o as usize].pop();
                drop(h);
            }
            Op::Collect => {
                real.heap.as_ref().unwrap().collect();
            }
            Op::Threshold(t) => {
                real.heap.as_ref().unwrap().set_gc_threshold(t as usize);
            }
            Op::DropHeap => {
                real.heap = None;
            }
        }
        let c1 = tsrun::verif::gc_counters();
        stats.ops += 1;
        stats.collections += c1.collections - c0.collections;
        stats.swept += c1.swept - c0.swept;
        stats.reused += c1.slots_reused - c0.slots_reused;
        for e in tsrun::verif::take_gc_events() {
            if e.kind == "drop_reused" {
                // Gc::drop of a handle to a reclaimed object decrements the reference count
                // of the slot's *new tenant*: from here on a reachable object can be reset by
                // dropping its own handle (witness: t1 [G A0 g0 G A1 h0 h1 X]). This is the
                // recorded finding; the history is not judged beyond this event because the
                // heap's counts no longer mean anything.
                stats.stale_drops += 1;
                stale_dropped_slots.push(e.slot);
                return Some(Divergence {
                    class: "stale-drop",
                    detail: format!("step {} {}: handle of a reclaimed object dropped onto reused slot {} (gen {} -> {}), new tenant's ref_count decremented", step, op.enc(), e.slot, e.handle_gen, e.slot_gen),
                    explained_by_stale_drop: true,
                });
            } else if e.kind == "clone" {
                stats.stale_clones += 1; // tolerated by design (handle to a dead object)
            } else {
                // borrow/guard/trace through a stale handle: the driver only touches
                // objects the model calls alive, so this is a divergence by itself
                let explained = stale_dropped_slots.contains(&e.slot);
                return Some(Divergence {
                    class: "stale-use",
                    detail: format!("step {} {}: H1 reports {:?}", step, op.enc(), e),
                    explained_by_stale_drop: explained,
                });
            }
        }
        // model's prediction of the collect-before-allocate counter
        let collected = c1.collections > c0.collections;
        if model.heap_alive && collected != expect_collect {
            // (an eager pooling caused by the stale-drop finding also moves the allocation
            // counter; the mismatch is then a consequence of that finding)
            return Some(Divergence {
                class: "model-mismatch",
                detail: format!(
                    "step {} {}: model expected collection={}, real ran {}",
                    step,
                    op.enc(),
                    expect_collect,
                    c1.collections - c0.collections
                ),
                explained_by_stale_drop: !stale_dropped_slots.is_empty(),
            });
        }
        if !(check_every || step + 1 == hist.len()) {
            continue;
        }
        if !model.heap_alive {
            continue;
        }
        let reach = model.reachable();
        // (1) every reachable object we can get at keeps its contents
        for (i, mo) in model.objs.iter().enumerate() {
            if mo.dead || !reach[i] || mo.handles == 0 {
                continue;
            }
            let h = &real.handles[i][0];
            let slot = h.verif_slot();
            let explained = stale_dropped_slots.contains(&slot);
            if h.verif_is_stale() {
                return Some(Divergence {
                    class: "reachable-reclaimed",
                    detail: format!("step {} {}: object o{} is reachable from a live guard but its slot {} was reclaimed", step, op.enc(), i, slot),
                    explained_by_stale_drop: explained,
                });
            }
            let b = h.borrow();
            if b.value != mo.payload {
                return Some(Divergence {
                    class: "payload",
                    detail: format!("step {} {}: reachable o{} payload {} != model {}", step, op.enc(), i, b.value, mo.payload),
                    explained_by_stale_drop: explained,
                });
            }
            if b.refs.len() != mo.links.len() {
                return Some(Divergence {
                    class: "links",
                    detail: format!("step {} {}: reachable o{} has {} links, model {}", step, op.enc(), i, b.refs.len(), mo.links.len()),
                    explained_by_stale_drop: explained,
                });
            }
            for (k, &t) in mo.links.iter().enumerate() {
                let child = &b.refs[k];
                let cslot = child.verif_slot();
                let cexpl = explained || stale_dropped_slots.contains(&cslot);
                if child.verif_is_stale() {
                    return Some(Divergence {
                        class: "reachable-reclaimed",
                        detail: format!("step {} {}: o{} -> o{} is reachable but slot {} was reclaimed", step, op.enc(), i, t, cslot),
                        explained_by_stale_drop: cexpl,
                    });
                }
                let cv = child.borrow().value;
                if cv != model.objs[t as usize].payload {
                    return Some(Divergence {
                        class: "link-target",
                        detail: format!("step {} {}: o{}.refs[{}] payload {} != model o{} {}", step, op.enc(), i, k, cv, t, model.objs[t as usize].payload),
                        explained_by_stale_drop: cexpl,
                    });
                }
            }
        }
        let st = real.heap.as_ref().unwrap().stats();
        // (2) after a collection: exactly the reachable objects are live, the rest pooled
        if collected && matches!(op, Op::Collect) {
            let want = reach.iter().filter(|x| **x).count();
            if st.live_objects != want {
                let explained = !stale_dropped_slots.is_empty();
                return Some(Divergence {
                    class: "live-count",
                    detail: format!("step {} X: stats().live_objects = {} but {} objects are reachable from live guards", step, st.live_objects, want),
                    explained_by_stale_drop: explained,
                });
            }
            if st.pooled_objects + st.live_objects != st.total_objects {
                return Some(Divergence {
                    class: "accounting",
                    detail: format!("step {} X: {:?}", step, st),
                    explained_by_stale_drop: false,
                });
            }
            for (i, mo) in model.objs.iter().enumerate() {
                if mo.dead && mo.handles > 0 && !real.handles[i][0].verif_is_stale() {
                    return Some(Divergence {
                        class: "unreachable-not-reclaimed",
                        detail: format!("step {} X: o{} is unreachable but its slot was not reclaimed", step, i),
                        explained_by_stale_drop: false,
                    });
                }
            }
        }
        // (3) pooled slots are reusable: an allocation takes a pooled slot whenever one
        // exists and grows the arena by exactly one slot otherwise
        if let (Op::Alloc(_), Some(tb), Some(pb)) = (op, total_before, pooled_before) {
            let reused = c1.slots_reused > c0.slots_reused;
            let ok = if reused { st.total_objects == tb } else { st.total_objects == tb + 1 };
            let must_reuse = !collected && pb > 0;
            if !ok || (must_reuse && !reused) {
                return Some(Divergence {
                    class: "accounting",
                    detail: format!("step {} alloc: reused={} total {} -> {} pooled_before={}", step, reused, tb, st.total_objects, pb),
                    explained_by_stale_drop: false,
                });
            }
        }
    }
    // tear down in a fixed order: handles, guards, heap (exercises Gc::drop / Guard::drop paths)
    drop(real);
    None
}

#[derive(Default, Clone, Copy)]
struct Stats {
    ops: u64,
    collections: u64,
    swept: u64,
    reused: u64,
    stale_drops: u64,
    stale_clones: u64,
}

struct Family {
    name: &'static str,
    bounds: Bounds,
    threshold0: usize,
    depth: usize,
    prefix: usize,
}

fn families(ctx: &Ctx) -> Vec<Family> {
    let full = Bounds {
        max_guards: 3,
        max_objs: 4,
        max_handles: 2,
        max_links: 2,
        full_alphabet: true,
    };
    let core = Bounds {
        max_guards: 3,
        max_objs: 4,
        max_handles: 2,
        max_links: 1,
        full_alphabet: false,
    };
    match ctx.engine.as_str() {
        "miri" => vec![
            Family { name: "full-d5-miri", bounds: full, threshold0: 100, depth: if ctx.thorough() { 5 } else { 4 }, prefix: 2 },
            Family { name: "core-t1-d6-miri", bounds: core, threshold0: 1, depth: if ctx.thorough() { 7 } else { 5 }, prefix: 3 },
        ],
        "asan" => vec![
            Family { name: "full-d6-asan", bounds: full, threshold0: 100, depth: if ctx.thorough() { 6 } else { 5 }, prefix: 3 },
            Family { name: "core-t1-d8-asan", bounds: core, threshold0: 1, depth: if ctx.thorough() { 8 } else { 7 }, prefix: 3 },
        ],
        _ => vec![
            // the property's own bound: <=3 guards, <=4 objects, <=7 operations, full alphabet
            Family { name: "full-d7", bounds: full, threshold0: 100, depth: if ctx.thorough() { 8 } else { 7 }, prefix: 3 },
            // core alphabet, explicit collections only
            Family { name: "core-t0", bounds: core, threshold0: 0, depth: if ctx.thorough() { 10 } else { 9 }, prefix: 4 },
            // core alphabet, collect before every allocation
            Family { name: "core-t1", bounds: core, threshold0: 1, depth: if ctx.thorough() { 10 } else { 9 }, prefix: 4 },
        ],
    }
}

fn prefixes(f: &Family) -> Vec<Vec<Op>> {
    let mut out = Vec::new();
    fn rec(m: &Model, hist: &mut Vec<Op>, f: &Family, out: &mut Vec<Vec<Op>>) {
        if hist.len() == f.prefix {
            out.push(hist.clone());
            return;
        }
        let ops = m.ops(&f.bounds);
        if ops.is_empty() {
            // terminal shorter than the prefix length: covered as its own unit
            out.push(hist.clone());
            return;
        }
        for op in ops {
            let mut m2 = m.clone();
            m2.apply(op, 0);
            hist.push(op);
            rec(&m2, hist, f, out);
            hist.pop();
        }
    }
    rec(&Model::new(f.threshold0), &mut Vec::new(), f, &mut out);
    out
}

fn random_units(ctx: &Ctx) -> usize {
    match ctx.engine.as_str() {
        "miri" => if ctx.thorough() { 32 } else { 8 },
        _ => 32,
    }
}

pub struct C13;

impl C13 {
    fn layout(&self, ctx: &Ctx) -> Vec<(usize, Vec<Vec<Op>>)> {
        families(ctx).iter().enumerate().map(|(i, f)| (i, prefixes(f))).collect()
    }
}

fn report(r: &mut UnitResult, family: &str, threshold0: usize, hist: &[Op], d: Divergence) {
    let case = json!({"family": family, "threshold0": threshold0, "history": enc_hist(hist)});
    if d.class == "model-mismatch" && !d.explained_by_stale_drop {
        // the reference model, not tsrun, is wrong: inconclusive, never a violation
        r.inconclusive += 1;
        r.note(format!("model mismatch on [{}]: {}", enc_hist(hist), d.detail));
        return;
    }
    let sig = if d.explained_by_stale_drop {
        // site-keyed: Gc::drop of a stale handle onto a reused slot preceded the divergence
        "stale-drop-onto-reused-slot".to_string()
    } else {
        format!("{}|t{}|{}", d.class, threshold0, enc_hist(hist))
    };
    r.violate(sig, format!("[{}] {}: {}", enc_hist(hist), d.class, d.detail), case);
}

fn explore(r: &mut UnitResult, f: &Family, prefix: &[Op], stats: &mut Stats) {
    // rebuild the model at the prefix
    let mut m = Model::new(f.threshold0);
    for &op in prefix {
        m.apply(op, 0);
    }
    let mut hist = prefix.to_vec();
    // the prefix itself (and, for unit 0 of a family, shorter histories) are histories too
    fn rec(m: &Model, hist: &mut Vec<Op>, f: &Family, r: &mut UnitResult, stats: &mut Stats) {
        // run this history on the real heap
        r.evaluations += 1;
        let before = *stats;
        if let Some(d) = execute(hist, f.threshold0, false, stats) {
            report(r, f.name, f.threshold0, hist, d);
        }
        if stats.swept > before.swept {
            r.nontrivial += 1; // a collection reclaimed at least one object in this history
        }
        if hist.len() >= f.depth {
            return;
        }
        for op in m.ops(&f.bounds) {
            let mut m2 = m.clone();
            m2.apply(op, 0);
            hist.push(op);
            rec(&m2, hist, f, r, stats);
            hist.pop();
        }
    }
    rec(&m, &mut hist, f, r, stats);
}

fn random_history(r: &mut UnitResult, ctx: &Ctx, shard: u64, stats: &mut Stats) {
    // long histories crossing the 256-slot chunk and 16-entry guard-pool boundaries
    let (runs, len, max_objs) = match (ctx.engine.as_str(), ctx.thorough()) {
        ("miri", false) => (1, 120, 300usize),
        ("miri", true) => (2, 300, 600),
        ("asan", false) => (6, 3000, 1500),
        ("asan", true) => (20, 6000, 3000),
        (_, false) => (12, 4000, 2500),
        (_, true) => (60, 8000, 5000),
    };
    let fam = if ctx.thorough() { 0 } else { ctx.seed % 8 };
    for run in 0..runs {
        let mut rng = Rng::derive("c13-random", fam * 1000 + shard, run);
        let threshold0 = *rng.pick(&[0usize, 1, 2, 7, 100]);
        let b = Bounds {
            max_guards: 40,
            max_objs,
            max_handles: 3,
            max_links: 3,
            full_alphabet: true,
        };
        let mut m = Model::new(threshold0);
        // half of the runs never drop/clone handles of dead objects while the heap is alive,
        // so that the recorded stale-drop finding cannot cut those histories short
        let clean = run % 2 == 0;
        let mut hist: Vec<Op> = Vec::new();
        for _ in 0..len {
            // weighted choice without materialising all Link pairs
            let ops = m.ops_sampled(&b, &mut rng);
            let Some(op) = ops else { break };
            if clean && m.heap_alive {
                if let Op::DropHandle(o) | Op::CloneHandle(o) = op
                    && m.objs[o as usize].dead
                {
                    continue;
                }
            }
            m.apply(op, 0);
            hist.push(op);
            if !m.heap_alive && rng.chance(1, 4) {
                break;
            }
        }
        r.evaluations += 1;
        let before = *stats;
        if let Some(d) = execute(&hist, threshold0, true, stats) {
            // shrink by truncation: the first failing prefix
            let mut lo = 1;
            let mut hi = hist.len();
            while lo < hi {
                let mid = (lo + hi) / 2;
                let mut s2 = Stats::default();
                if execute(&hist[..mid], threshold0, true, &mut s2).is_some() {
                    hi = mid;
                } else {
                    lo = mid + 1;
                }
            }
            let mut s2 = Stats::default();
            let d2 = execute(&hist[..lo], threshold0, true, &mut s2).unwrap_or(d);
            let small = shrink(&hist[..lo], threshold0, d2.class);
            let mut s3 = Stats::default();
            let d3 = execute(&small, threshold0, true, &mut s3).unwrap_or(d2);
            report(r, "random", threshold0, &small, d3);
        }
        if stats.swept > before.swept {
            r.nontrivial += 1;
        }
        r.stat("max_random_history_len", hist.len() as i64);
        r.stat("max_objects_in_history", m.objs.len() as i64);
    }
}

impl Model {
    /// Pick one applicable op at random (object ids are u8 in the enumerated families;
    /// long random histories keep at most 250 objects *named*, but each name is re-used
    /// never — instead the run allocates in bursts through Alloc and most objects are
    /// reached through links).
    fn ops_sampled(&self, b: &Bounds, rng: &mut Rng) -> Option<Op> {
        let live_guards: Vec<u8> = (0..self.guards.len() as u8)
            .filter(|&g| self.guards[g as usize].is_some())
            .collect();
        let nobj = self.objs.len();
        let pick_usable = |rng: &mut Rng| -> Option<u8> {
            for _ in 0..8 {
                if nobj == 0 {
                    return None;
                }
                let o = rng.below(nobj);
                if !self.objs[o].dead && self.objs[o].handles > 0 {
                    return Some(o as u8);
                }
            }
            None
        };
        for _ in 0..32 {
            let k = rng.below(100);
            if !self.heap_alive {
                if let Some(&g) = live_guards.first()
                    && k < 30
                {
                    return Some(Op::DropGuard(g));
                }
                if nobj > 0 {
                    let o = rng.below(nobj);
                    if self.objs[o].handles > 0 {
                        return Some(if k < 70 || self.objs[o].handles >= b.max_handles {
                            Op::DropHandle(o as u8)
                        } else {
                            Op::CloneHandle(o as u8)
                        });
                    }
                }
                if live_guards.is_empty() && self.objs.iter().all(|o| o.handles == 0) {
                    return None;
                }
                continue;
            }
            match k {
                0..=5 if self.guards.len() < b.max_guards.min(250) => return Some(Op::NewGuard),
                6..=9 if !live_guards.is_empty() => return Some(Op::DropGuard(*rng.pick(&live_guards))),
                10..=44 if !live_guards.is_empty() && nobj < b.max_objs.min(250) => {
                    return Some(Op::Alloc(*rng.pick(&live_guards)));
                }
                45..=59 => {
                    if let (Some(a), Some(t)) = (pick_usable(rng), pick_usable(rng))
                        && self.objs[a as usize].links.len() < b.max_links
                    {
                        return Some(Op::Link(a, t));
                    }
                }
                60..=63 => {
                    if let Some(a) = pick_usable(rng)
                        && !self.objs[a as usize].links.is_empty()
                    {
                        return Some(Op::Unlink(a));
                    }
                }
                64..=68 if !live_guards.is_empty() => {
                    if let Some(o) = pick_usable(rng) {
                        let g = *rng.pick(&live_guards);
                        if self.guards[g as usize].as_ref().unwrap().len() < 40 {
                            return Some(Op::GuardObj(g, o));
                        }
                    }
                }
                69..=72 if !live_guards.is_empty() => {
                    let g = *rng.pick(&live_guards);
                    let roots = self.guards[g as usize].as_ref().unwrap();
                    if !roots.is_empty() {
                        let o = *rng.pick(roots);
                        if !self.objs[o as usize].dead && self.objs[o as usize].handles > 0 {
                            return Some(Op::Unguard(g, o));
                        }
                    }
                }
                73 if !live_guards.is_empty() => return Some(Op::Clear(*rng.pick(&live_guards))),
                74..=80 => {
                    if nobj > 0 {
                        let o = rng.below(nobj);
                        let h = self.objs[o].handles;
                        if h > 0 && h < b.max_handles {
                            return Some(Op::CloneHandle(o as u8));
                        }
                    }
                }
                81..=90 => {
                    if nobj > 0 {
                        let o = rng.below(nobj);
                        if self.objs[o].handles > 0 {
                            return Some(Op::DropHandle(o as u8));
                        }
                    }
                }
                91..=96 => return Some(Op::Collect),
                97..=98 => {
                    let t = rng.below(3) as u8;
                    if t as usize != self.threshold {
                        return Some(Op::Threshold(t));
                    }
                }
                99 if rng.chance(1, 40) => return Some(Op::DropHeap),
                _ => {}
            }
        }
        Some(Op::Collect)
    }
}

impl Check for C13 {
    fn units(&self, ctx: &Ctx) -> usize {
        let n: usize = self.layout(ctx).iter().map(|(_, p)| p.len()).sum();
        n + random_units(ctx) + churn_units(ctx) + guard_pool_units(ctx)
    }

    fn run_unit(&self, ctx: &Ctx, idx: usize) -> UnitResult {
        let mut r = UnitResult::default();
        let mut stats = Stats::default();
        let fams = families(ctx);
        let layout = self.layout(ctx);
        let mut base = 0;
        let mut done = false;
        for (fi, pfx) in &layout {
            if idx < base + pfx.len() {
                let f = &fams[*fi];
                let p = &pfx[idx - base];
                explore(&mut r, f, p, &mut stats);
                if idx == base {
                    // histories shorter than the prefix length (each exactly once)
                    let mut m = Model::new(f.threshold0);
                    let mut h: Vec<Op> = Vec::new();
                    fn shorter(m: &mut Model, h: &mut Vec<Op>, f: &Family, r: &mut UnitResult, stats: &mut Stats) {
                        if h.len() >= f.prefix {
                            return;
                        }
                        r.evaluations += 1;
                        if let Some(d) = execute(h, f.threshold0, false, stats) {
                            report(r, f.name, f.threshold0, h, d);
                        }
                        for op in m.ops(&f.bounds) {
                            let mut m2 = m.clone();
                            m2.apply(op, 0);
                            h.push(op);
                            shorter(&mut m2, h, f, r, stats);
                            h.pop();
                        }
                    }
                    shorter(&mut m, &mut h, f, &mut r, &mut stats);
                    r.stat(&format!("family_{}_depth", f.name), f.depth as i64);
                }
                r.stat(&format!("histories_{}", f.name), r.evaluations as i64);
                if r.samples.is_empty() {
                    r.sample(json!({"family": f.name, "prefix": enc_hist(p), "depth": f.depth}));
                }
                done = true;
                break;
            }
            base += pfx.len();
        }
        if !done {
            let k = idx - base;
            if k < random_units(ctx) {
                random_history(&mut r, ctx, k as u64, &mut stats);
                r.stat("random_histories", r.evaluations as i64);
            } else if k < random_units(ctx) + churn_units(ctx) {
                churn(&mut r, ctx, (k - random_units(ctx)) as u64, &mut stats);
            } else {
                guard_pool(&mut r, ctx, (k - random_units(ctx) - churn_units(ctx)) as u64, &mut stats);
            }
        }
        r.stat("heap_ops_executed", stats.ops as i64);
        r.stat("collections_observed", stats.collections as i64);
        r.stat("objects_swept", stats.swept as i64);
        r.stat("slots_reused", stats.reused as i64);
        r.stat("stale_drops_onto_reused_slot_observed", stats.stale_drops as i64);
        r.stat("stale_clones_tolerated", stats.stale_clones as i64);
        r
    }

    fn replay(&self, _ctx: &Ctx, case: &Value) -> UnitResult {
        let mut r = UnitResult::default();
        if case["family"].as_str() == Some("churn") {
            let mut stats = Stats::default();
            churn(&mut r, _ctx, case["shard"].as_u64().unwrap_or(0), &mut stats);
            return r;
        }
        let hist: Vec<Op> = case["history"]
            .as_str()
            .unwrap_or("")
            .split_whitespace()
            .filter_map(Op::dec)
            .collect();
        let t0 = case["threshold0"].as_u64().unwrap_or(100) as usize;
        let mut stats = Stats::default();
        r.evaluations = 1;
        if let Some(d) = execute(&hist, t0, true, &mut stats) {
            report(&mut r, case["family"].as_str().unwrap_or("replay"), t0, &hist, d);
        }
        r
    }
}

// ───────────────────── churn: thousands of objects, chunk and guard-pool boundaries ─────────────────────

fn churn_units(ctx: &Ctx) -> usize {
    match ctx.engine.as_str() {
        "miri" => 2,
        _ => 16,
    }
}

/// Large-scale variant with usize ids: a ring of guards, thousands of objects, chains and
/// cycles; after every collection the live count and the contents of every object kept
/// by the shadow model are verified. Exercises chunk growth (256 slots), the mark bitmap
/// across several chunks and the 16-entry guard pool.
fn churn(r: &mut UnitResult, ctx: &Ctx, shard: u64, stats: &mut Stats) {
    let (rounds, per_round) = match (ctx.engine.as_str(), ctx.thorough()) {
        ("miri", false) => (3, 150usize),
        ("miri", true) => (6, 300),
        ("asan", false) => (20, 700),
        ("asan", true) => (60, 1500),
        (_, false) => (40, 1200),
        (_, true) => (150, 3000),
    };
    let fam = if ctx.thorough() { 0 } else { ctx.seed % 8 };
    let mut rng = Rng::derive("c13-churn", fam * 1000 + shard, 0);
    tsrun::verif::reset_thread();
    let heap: Heap<TestObj> = Heap::new();
    let threshold = *rng.pick(&[0usize, 1, 3, 100, 1000]);
    heap.set_gc_threshold(threshold);
    // shadow: guard k keeps `kept[k]` = list of (handle, payload, link payloads)
    struct Kept {
        h: Gc<TestObj>,
        payload: i64,
        links: Vec<i64>,
    }
    let nguards = 20; // > 16 so dropping them overflows the guard pool
    let mut guards: Vec<Option<Guard<TestObj>>> = (0..nguards).map(|_| Some(heap.create_guard())).collect();
    let mut kept: Vec<Vec<Kept>> = (0..nguards).map(|_| Vec::new()).collect();
    let mut payload = 1i64;
    let mut max_total = 0usize;
    for round in 0..rounds {
        // allocate a burst into random guards, link some of them into chains/cycles within the guard
        for _ in 0..per_round {
            let g = rng.below(nguards);
            if guards[g].is_none() {
                guards[g] = Some(heap.create_guard());
            }
            let o = guards[g].as_ref().unwrap().alloc();
            payload += 1;
            o.borrow_mut().value = payload;
            let mut links = Vec::new();
            if !kept[g].is_empty() && rng.chance(2, 3) {
                let t = rng.below(kept[g].len());
                o.borrow_mut().refs.push(kept[g][t].h.clone());
                links.push(kept[g][t].payload);
                if rng.chance(1, 4) {
                    // back edge: cycle
                    kept[g][t].h.borrow_mut().refs.push(o.clone());
                    kept[g][t].links.push(payload);
                }
            }
            kept[g].push(Kept { h: o, payload, links });
            stats.ops += 1;
        }
        // drop a few guards completely (their objects become garbage, handles dropped too)
        for _ in 0..(nguards / 4) {
            let g = rng.below(nguards);
            guards[g] = None;
            kept[g].clear();
        }
        heap.collect();
        let st = heap.stats();
        max_total = max_total.max(st.total_objects);
        let want: usize = kept.iter().map(|k| k.len()).sum();
        r.evaluations += 1;
        if st.live_objects != want {
            r.violate(
                format!("churn-live-count|t{}|shard{}|round{}", threshold, shard, round),
                format!("after collect: live_objects {} != {} objects reachable from live guards (threshold {}, round {})", st.live_objects, want, threshold, round),
                json!({"family": "churn", "shard": shard, "round": round}),
            );
            break;
        }
        let mut bad = None;
        'outer: for (g, ks) in kept.iter().enumerate() {
            for k in ks {
                if k.h.verif_is_stale() {
                    bad = Some(format!("guard {} object payload {} reclaimed while guarded", g, k.payload));
                    break 'outer;
                }
                let b = k.h.borrow();
                if b.value != k.payload || b.refs.len() != k.links.len() {
                    bad = Some(format!("guard {} object {}: value {} links {} (want {})", g, k.payload, b.value, b.refs.len(), k.links.len()));
                    break 'outer;
                }
                for (i, l) in k.links.iter().enumerate() {
                    if b.refs[i].borrow().value != *l {
                        bad = Some(format!("guard {} object {} link {} -> {} want {}", g, k.payload, i, b.refs[i].borrow().value, l));
                        break 'outer;
                    }
                }
            }
        }
        if let Some(msg) = bad {
            r.violate(
                format!("churn-contents|t{}|shard{}|round{}", threshold, shard, round),
                msg,
                json!({"family": "churn", "shard": shard, "round": round}),
            );
            break;
        }
        r.nontrivial += 1;
    }
    let ev = tsrun::verif::take_gc_events();
    let bad_events: Vec<_> = ev.iter().filter(|e| e.kind != "clone").collect();
    if !bad_events.is_empty() {
        r.violate(
            format!("churn-stale|shard{}", shard),
            format!("H1 stale-handle events during churn: {:?}", &bad_events[..bad_events.len().min(3)]),
            json!({"family": "churn", "shard": shard}),
        );
    }
    let c = tsrun::verif::gc_counters();
    stats.collections += c.collections;
    stats.swept += c.swept;
    stats.reused += c.slots_reused;
    r.stat("max_arena_slots", max_total as i64);
    r.stat("churn_rounds", rounds as i64);
    if r.samples.is_empty() {
        r.sample(json!({"family": "churn", "shard": shard, "threshold": threshold, "rounds": rounds, "per_round": per_round, "max_arena_slots": max_total}));
    }
    // drop order variation: heap first, then handles and guards (Gc/Guard must tolerate a dead heap)
    if shard % 2 == 0 {
        drop(heap);
    }
    drop(kept);
    drop(guards);
}


// ───────────────────── guard pool: many guards created, dropped and re-created ─────────────────────

fn guard_pool_units(ctx: &Ctx) -> usize {
    match ctx.engine.as_str() {
        "miri" => 1,
        _ => 8,
    }
}

/// Histories built around the 16-entry pool of root lists: N guards (up to 40) with root
/// lists of different sizes are dropped in some order (some still holding roots), then M
/// fresh guards are created — possibly receiving a recycled root list — some allocate,
/// and collections are compared with the model: an object must be alive exactly when a
/// live guard reaches it, whatever a recycled list used to hold.
fn guard_pool(r: &mut UnitResult, ctx: &Ctx, shard: u64, stats: &mut Stats) {
    let runs = match (ctx.engine.as_str(), ctx.thorough()) {
        ("miri", _) => 3,
        (_, false) => 150,
        (_, true) => 600,
    };
    for run in 0..runs {
        let mut rng = Rng::derive("c13-guard-pool", shard, run);
        let threshold0 = *rng.pick(&[0usize, 1, 100]);
        let n_guards = 15 + rng.below(22); // 15..36: below, at and above the pool size
        let mut hist: Vec<Op> = Vec::new();
        let mut objs = 0usize;
        // phase 1: guards with root lists of different lengths (0..7 objects each)
        for g in 0..n_guards {
            hist.push(Op::NewGuard);
            let k = match rng.below(4) {
                0 => 0,
                1 => 1,
                2 => 2 + rng.below(3),
                _ => 5 + rng.below(3),
            };
            for _ in 0..k {
                if objs < 200 {
                    hist.push(Op::Alloc(g as u8));
                    objs += 1;
                }
            }
        }
        if rng.chance(1, 2) {
            hist.push(Op::Collect);
        }
        // phase 2: drop them (some cleared first, most still holding their roots) in a chosen order
        let mut order: Vec<usize> = (0..n_guards).collect();
        match rng.below(4) {
            0 => {}
            1 => order.reverse(),
            _ => rng.shuffle(&mut order),
        }
        let keep_alive = rng.below(3); // a few guards stay alive across the phase
        for (i, g) in order.iter().enumerate() {
            if i < keep_alive {
                continue;
            }
            if rng.chance(1, 5) {
                hist.push(Op::Clear(*g as u8));
            }
            hist.push(Op::DropGuard(*g as u8));
        }
        if rng.chance(1, 2) {
            hist.push(Op::Collect);
        }
        // phase 3: fresh guards (they may be handed a pooled root list), some allocate
        let m_guards = 1 + rng.below(20);
        for j in 0..m_guards {
            hist.push(Op::NewGuard);
            let gid = (n_guards + j) as u8;
            if rng.chance(1, 3) && objs < 240 {
                hist.push(Op::Alloc(gid));
                objs += 1;
            }
            if rng.chance(1, 4) {
                hist.push(Op::Collect);
            }
        }
        hist.push(Op::Collect);
        // phase 4: drop a few of the fresh ones and collect again
        for j in 0..m_guards {
            if rng.chance(1, 2) {
                hist.push(Op::DropGuard((n_guards + j) as u8));
            }
        }
        hist.push(Op::Collect);
        if !history_valid(&hist, threshold0) {
            continue;
        }
        r.evaluations += 1;
        let before = *stats;
        if let Some(d) = execute(&hist, threshold0, true, stats) {
            let small = shrink(&hist, threshold0, d.class);
            let mut s3 = Stats::default();
            let d3 = execute(&small, threshold0, true, &mut s3).unwrap_or(d);
            report(r, "guard-pool", threshold0, &small, d3);
        }
        if stats.swept > before.swept {
            r.nontrivial += 1;
        }
        r.stat("guard_pool_histories", 1);
        r.stat("max_guards_in_history", (n_guards + m_guards) as i64);
        if run == 0 && shard == 0 {
            r.sample(json!({"family": "guard-pool", "history": enc_hist(&hist)}));
        }
    }
}
