//! C11 — an interpreter stays usable and clean after failed or abandoned runs.
//!
//! History = 1..3 "dead" runs on one interpreter (ended by an uncaught error at some
//! nesting kind, abandoned by the host after s steps — every s for short programs —, or
//! completed), followed by observer programs. Oracle: each observer's outcome and the H4
//! quiescence summary after it must equal what the same observer yields on a FRESH
//! interpreter. Dead runs confine their declarations to block/function scope under unique
//! names, so any visible difference is a leak, not a deliberate global effect.

use crate::isolate::{self, Exit, Limits};
use crate::runner::{self, RunConfig};
use crate::util::*;
use serde_json::{Value, json};
use std::cell::RefCell;
use std::rc::Rc;
use tsrun::{Interpreter, ModulePath, StepResult};

pub struct C11;

/// (name, body) — bodies are wrapped in a block at the script top level or in a function
const NESTS: &[(&str, &str)] = &[
    ("plain", "let dead_a = 1; FAULT"),
    ("block2", "let dead_a = 1; { let dead_b = 2; { const dead_c = [dead_a, dead_b]; FAULT } }"),
    ("loop", "for (let dead_i = 0; dead_i < 3; dead_i++) { let dead_b = dead_i; if (dead_i === 1) { let dead_c = 3; FAULT } }"),
    ("while-switch", "let dead_n = 0; while (dead_n < 2) { dead_n++; switch (dead_n) { case 2: { let dead_s = 's'; FAULT } } }"),
    ("call", "function dead_f(dead_p){ let dead_l = dead_p; FAULT } dead_f(1);"),
    ("call3", "function dead_f1(){ let dead_x = 1; dead_f2(); } function dead_f2(){ let dead_y = 2; { let dead_z = 3; dead_f3(); } } function dead_f3(){ let dead_w = 4; FAULT } dead_f1();"),
    ("try-finally", "try { let dead_t = 1; FAULT } finally { let dead_u = 2; }"),
    ("catch-rethrow", "try { null.dead_prop; } catch (dead_e) { let dead_v = 1; FAULT }"),
    ("finally-fault", "try { let dead_t = 1; } finally { let dead_u = 2; FAULT }"),
    ("nested-try", "try { try { let dead_t = 1; FAULT } finally { let dead_u = 2; } } finally { let dead_v = 3; }"),
    ("return-pending", "function dead_f(){ try { return 'pending-return'; } finally { let dead_u = 2; FAULT } } dead_f();"),
    ("generator", "function* dead_g(){ let dead_a = 1; yield 1; { let dead_b = 2; FAULT } } let dead_it = dead_g(); dead_it.next(); dead_it.next();"),
    ("generator-forof", "function* dead_g(){ let dead_a = 1; yield 1; FAULT } for (const dead_x of dead_g()) { let dead_y = dead_x; }"),
    ("native-callback", "[1, 2].forEach(function(dead_x){ let dead_y = dead_x; if (dead_x === 2) { FAULT } });"),
    ("sort-callback", "[3, 1, 2].sort(function(dead_p, dead_q){ let dead_r = 1; FAULT });"),
    ("getter", "let dead_o = { get dead_g(){ let dead_t = 1; FAULT } }; dead_o.dead_g;"),
    ("ctor", "class dead_K { constructor(){ let dead_t = 1; { let dead_u = 2; FAULT } } } new dead_K();"),
    ("method-super", "class dead_A { m(){ let dead_t = 1; FAULT } } class dead_B extends dead_A { m(){ let dead_u = 2; return super.m(); } } new dead_B().m();"),
    ("static-block", "class dead_K { static { let dead_t = 1; FAULT } }"),
    ("closure", "let dead_mk = function(){ let dead_cap = 1; return function(){ let dead_in = dead_cap; FAULT }; }; dead_mk()();"),
    ("tostring", "let dead_o = { toString(){ let dead_t = 1; FAULT } }; '' + dead_o;"),
    ("proxy", "let dead_p = new Proxy({}, { get(){ let dead_t = 1; FAULT } }); dead_p.x;"),
    ("destructure-default", "function dead_f({dead_a = (function(){ FAULT })()} = {}){ return dead_a; } dead_f();"),
    ("template", "let dead_t = `${(function(){ let dead_i = 1; FAULT })()}`;"),
    ("async-fn", "let dead_af = async function(){ let dead_a = 1; { let dead_b = 2; FAULT } }; dead_af();"),
    ("labeled", "dead_outer: for (let dead_i = 0; dead_i < 2; dead_i++) { for (let dead_j = 0; dead_j < 2; dead_j++) { let dead_k = 1; if (dead_j === 1) { FAULT } } }"),
];

/// bodies that run at the bare top level of the script (no enclosing block or function): nothing
/// but the interpreter itself unwinds their scopes when the run dies. They declare nothing at
/// the top level except under `keep_*` names, which no observer probes.
const BARE: &[(&str, &str)] = &[
    ("generator-spread", "[...(function*(){ let dead_a = 1; yield 1; { let dead_b = 2; FAULT } })()];"),
    ("generator-from", "Array.from((function*(){ let dead_a = 1; yield 1; FAULT })());"),
    ("generator-next2", "globalThis.keep_it = (function*(){ let dead_a = 1; yield 1; { let dead_b = 2; FAULT } })(); keep_it.next(); keep_it.next();"),
    ("generator-next3-loop", "globalThis.keep_it4 = (function*(){ for (let dead_i = 0; dead_i < 5; dead_i++) { let dead_b = dead_i; yield dead_b; if (dead_i === 1) { FAULT } } })(); keep_it4.next(); keep_it4.next(); keep_it4.next();"),
    ("generator-forof", "for (const dead_x of (function*(){ let dead_a = 1; yield 1; FAULT })()) { }"),
    ("generator-return-finally", "globalThis.keep_it2 = (function*(){ let dead_a = 1; try { yield 1; yield 2; } finally { let dead_b = 2; FAULT } })(); keep_it2.next(); keep_it2.return(5);"),
    ("generator-throw-method", "globalThis.keep_it3 = (function*(){ let dead_a = 1; try { yield 1; } catch (dead_e) { let dead_b = 2; FAULT } })(); keep_it3.next(); keep_it3.throw(new Error('in'));"),
    ("yield-star", "[...(function*(){ let dead_a = 1; yield* (function*(){ let dead_b = 2; yield 1; FAULT })(); })()];"),
    ("call", "(function(dead_p){ let dead_l = dead_p; FAULT })(1);"),
    ("native-callback", "[1, 2].forEach(function(dead_x){ let dead_y = dead_x; if (dead_x === 2) { FAULT } });"),
    ("getter", "({ get dead_g(){ let dead_t = 1; FAULT } }).dead_g;"),
    ("tostring", "'' + ({ toString(){ let dead_t = 1; FAULT } });"),
    ("ctor", "new (class { constructor(){ let dead_t = 1; { let dead_u = 2; FAULT } } })();"),
    ("async", "(async function(){ let dead_a = 1; { let dead_b = 2; FAULT } })();"),
    ("try-finally", "try { let dead_t = 1; FAULT } finally { let dead_u = 2; }"),
    ("loop", "for (let dead_i = 0; dead_i < 3; dead_i++) { let dead_b = dead_i; if (dead_i === 1) { FAULT } }"),
    ("switch", "switch (2) { case 2: { let dead_s = 's'; FAULT } }"),
    ("labeled-block", "dead_lbl: { let dead_k = 1; FAULT }"),
];

const FAULTS: &[(&str, &str)] = &[
    ("throw", "throw new Error('dead');"),
    ("typeerror", "null.dead_property;"),
    ("reference", "dead_not_defined_anywhere;"),
];

/// programs that are *abandoned* (host stops stepping) rather than failing; `FAULT` = nothing
const ABANDON_FAULT: &str = "dead_sink.push(1);";

struct Dead {
    id: String,
    src: String,
    module_path: Option<String>,
    /// for these programs the history parameter is "answer that many orders, then stop"
    stall: bool,
}

fn dead_programs() -> Vec<Dead> {
    let mut v = Vec::new();
    for (n, body) in NESTS {
        for (fname, fault) in FAULTS {
            let b = body.replace("FAULT", fault);
            v.push(Dead { id: format!("err.{}.{}.top", n, fname), src: format!("'use strict';\n{{ {} }}", b), module_path: None, stall: false });
            v.push(Dead { id: format!("err.{}.{}.fn", n, fname), src: format!("'use strict';\n(function(){{ {} }})();", b), module_path: None, stall: false });
        }
        // module body variant (one fault kind)
        let b = body.replace("FAULT", FAULTS[0].1);
        v.push(Dead { id: format!("err.{}.throw.module", n), src: format!("export const dead_exported = 1;\n{{ {} }}", b), module_path: Some("/dead/main.ts".into()), stall: false });
    }
    for (n, body) in BARE {
        for (fname, fault) in FAULTS {
            v.push(Dead { id: format!("err.bare-{}.{}", n, fname), src: format!("'use strict';\n{}", body.replace("FAULT", fault)), module_path: None, stall: false });
        }
        v.push(Dead { id: format!("err.bare-{}.throw.module", n), src: format!("export const dead_exported = 1;\n{}", body.replace("FAULT", FAULTS[0].1)), module_path: Some("/dead/bare.ts".into()), stall: false });
    }
    // orders issued without the run ever suspending on them (`order` reached through a native
    // higher-order function), then the run dies: nothing has handed them to the host yet
    for (fname, fault) in FAULTS {
        v.push(Dead {
            id: format!("err.indirect-orders.{}", fname),
            src: format!("import {{ order }} from \"tsrun:host\";\n[{{dead: 5}}, {{dead: 6}}].forEach(order);\nconst dead_ps = [{{dead: 7}}].map(order);\n{}", fault),
            module_path: None,
            stall: false,
        });
        v.push(Dead {
            id: format!("err.indirect-orders-in-fn.{}.module", fname),
            src: format!("import {{ order }} from \"tsrun:host\";\nexport const dead_exported = 1;\nfunction dead_f(){{ [{{dead: 8}}].forEach(order); return [{{dead: 9}}, {{dead: 10}}].map(order).length; }}\ndead_f();\n{}", fault),
            module_path: Some("/dead/indirect.ts".into()),
            stall: false,
        });
    }
    v
}

/// runs that stop at a host interaction the host never answers
fn stalled_programs() -> Vec<Dead> {
    vec![
        Dead { id: "stall.order".into(), src: "import { order } from \"tsrun:host\";\n{ let dead_a = 1; const dead_r = await order({dead: 1}); dead_r; }".into(), module_path: None, stall: false },
        Dead { id: "stall.order-in-fn".into(), src: "import { order } from \"tsrun:host\";\n{ let dead_f = async function(){ let dead_a = 1; { let dead_b = await order({dead: 2}); return dead_b; } };\nawait dead_f(); }".into(), module_path: None, stall: false },
        Dead { id: "stall.never-settles".into(), src: "{ let dead_a = 1; const dead_p = new Promise(function(){}); await dead_p; }".into(), module_path: None, stall: false },
        Dead { id: "stall.two-orders".into(), src: "import { order } from \"tsrun:host\";\nconst dead_x = order({dead: 3}); const dead_y = order({dead: 4}); await Promise.all([dead_x, dead_y]);".into(), module_path: Some("/dead/orders.ts".into()), stall: false },
        Dead { id: "stall.need-imports".into(), src: "import { dead_dep } from './never-supplied.ts';\n{ let dead_a = dead_dep; }".into(), module_path: Some("/dead/importer.ts".into()), stall: false },
        Dead { id: "stall.syntax-error".into(), src: "{ let dead_a = ; }".into(), module_path: None, stall: false },
        Dead { id: "stall.rejected-unhandled".into(), src: "{ let dead_a = 1; Promise.reject(new Error('dead')); async function dead_f(){ throw new TypeError('dead2'); } dead_f(); }".into(), module_path: None, stall: false },
    ]
}

fn abandon_programs() -> Vec<Dead> {
    NESTS
        .iter()
        .map(|(n, body)| Dead {
            id: format!("abandon.{}", n),
            src: format!("'use strict';\n{{ let dead_sink = []; {} dead_sink.length; }}", body.replace("FAULT", ABANDON_FAULT)),
            module_path: None,
            stall: false,
        })
        .chain(std::iter::once(Dead {
            id: "abandon.indirect-orders".into(),
            src: "import { order } from \"tsrun:host\";\n{ [{dead: 11}, {dead: 12}].forEach(order);\nlet dead_sink = [];\nfor (let dead_i = 0; dead_i < 12; dead_i++) { dead_sink.push([{dead: 13}].map(order).length); }\ndead_sink.length; }".into(),
            module_path: None,
            stall: false,
        }))
        .collect()
}

/// composed corpus programs whose numeric literals are read from the host (C07's generated
/// family): the host answers the first k orders and then walks away, for every k
fn stall_composed_programs(ctx: &Ctx) -> Vec<Dead> {
    use super::c07;
    let picks: Vec<(u64, u64)> = if ctx.thorough() { (0..c07::COMPOSED_SHARDS).flat_map(|sh| (0..3).map(move |i| (sh, i * 5 + sh % 5))).collect() } else { (0..6).map(|i| (ctx.seed % c07::COMPOSED_SHARDS, i * 7)).collect() };
    let mut v = Vec::new();
    for (sh, i) in picks {
        if let Some(c) = c07::composed_case(sh, i, 0) {
            v.push(Dead { id: format!("stall-{}", c.id), src: crate::asynchost::program(&c.body, true), module_path: if i % 2 == 0 { None } else { Some("/dead/composed.ts".into()) }, stall: true });
        }
    }
    v
}

const DEAD_NAMES: &[&str] = &[
    "dead_a", "dead_b", "dead_c", "dead_i", "dead_n", "dead_s", "dead_f", "dead_p", "dead_l", "dead_x", "dead_y", "dead_z", "dead_w", "dead_t",
    "dead_u", "dead_v", "dead_e", "dead_g", "dead_it", "dead_o", "dead_K", "dead_A", "dead_B", "dead_mk", "dead_cap", "dead_in", "dead_af",
    "dead_j", "dead_k", "dead_sink", "dead_f1", "dead_f2", "dead_f3", "dead_r", "dead_q", "dead_exported",
];

fn observers() -> Vec<(String, String, Option<String>)> {
    let typeofs: Vec<String> = DEAD_NAMES.iter().map(|n| format!("typeof {}", n)).collect();
    vec![
        ("names".into(), format!("[{}].join(',')", typeofs.join(", ")), None),
        ("redeclare".into(), "{ let dead_a = 'fresh'; const dead_t = 'fresh2'; let dead_f = function(){ return 'fresh3'; }; dead_a + dead_t + dead_f(); }".into(), None),
        (
            "control".into(),
            "(function(){ var log = []; function f(){ try { log.push('t'); return 'r'; } finally { log.push('f'); } } var r = f(); try { throw new RangeError('x'); } catch (e) { log.push(e.name); } finally { log.push('fin'); } out: for (var i = 0; i < 3; i++) { for (var j = 0; j < 3; j++) { if (j === 1) continue out; if (i === 2) break out; log.push(i + '' + j); } } return r + '|' + log.join(','); })()".into(),
            None,
        ),
        (
            "gen-async".into(),
            "(function(){ function* g(){ var x = yield 1; try { yield x + 1; } finally { } return 'done'; } var it = g(); var a = [it.next().value, it.next(5).value, it.next().value]; var af = async function(){ return 7; }; var p = af(); return a.join(',') + '|' + (p instanceof Promise); })()".into(),
            None,
        ),
        ("throwing".into(), "(function(){ function deep(n){ if (n === 0) { throw new TypeError('obs'); } return deep(n - 1); } return deep(5); })()".into(), None),
        ("module".into(), "export const obs = 1;\nlet dead_a = 'm'; [typeof dead_b, typeof dead_exported, dead_a].join(',')".into(), Some("/dead/main.ts".into())),
        ("await".into(), "const obs_v = await Promise.resolve(5); const obs_w = await (async function(){ return obs_v + 1; })(); [obs_v, obs_w].join(',')".into(), Some("/obs/await.ts".into())),
        ("order".into(), "import { order } from \"tsrun:host\";\nconst obs_r = await order({obs: 1}); 'answer:' + obs_r".into(), Some("/obs/order.ts".into())),
        // a later program imports the paths of dead entry modules: they were never loaded, so the host must be asked for them
        ("import-dead".into(), "import * as d1 from '/dead/main.ts';\nimport * as d2 from '/dead/bare.ts';\nimport * as d3 from '/dead/orders.ts';\n[Object.keys(d1).join(), Object.keys(d2).join(), Object.keys(d3).join()].join('|')".into(), Some("/obs/importer.ts".into())),
        ("import-dead-named".into(), "import { dead_exported } from '/dead/bare.ts';\ntypeof dead_exported".into(), Some("/obs/importer2.ts".into())),
    ]
}

fn run_to_end(interp: &mut Interpreter, src: &str, path: Option<&str>, max_steps: u64) -> String {
    let mut steps = 0u64;
    let mut res = interp.prepare(src, path.map(ModulePath::new));
    loop {
        match res {
            Err(e) => {
                let (c, _) = runner::error_class(&e);
                return format!("error:{}", c);
            }
            Ok(StepResult::Complete(v)) => return format!("value:{}", runner::show_value(v.value())),
            Ok(StepResult::Done) => return "done".into(),
            Ok(StepResult::Suspended { pending, .. }) => {
                // the host answers only orders of the current (observer) program, with 42
                let mut responses = Vec::new();
                let mut foreign = 0;
                for o in &pending {
                    let is_obs = tsrun::api::get_property(o.payload.value(), "obs").map(|v| !v.is_undefined()).unwrap_or(false);
                    if is_obs {
                        responses.push(tsrun::OrderResponse { id: o.id, result: Ok(tsrun::RuntimeValue::unguarded(tsrun::JsValue::from(42.0))) });
                    } else {
                        foreign += 1;
                    }
                }
                if responses.is_empty() {
                    return format!("suspended(pending={},foreign={})", pending.len(), foreign);
                }
                interp.fulfill_orders(responses);
            }
            Ok(StepResult::NeedImports(reqs)) => {
                let mut ps: Vec<String> = reqs.iter().map(|r| r.resolved_path.as_str().to_string()).collect();
                ps.sort();
                return format!("need-imports:{}", ps.join(","));
            }
            Ok(StepResult::Continue) => {}
        }
        if steps >= max_steps {
            return "limit".into();
        }
        steps += 1;
        res = interp.step();
    }
}

/// prepare + at most `s` steps, then the host simply stops
fn run_abandon(interp: &mut Interpreter, src: &str, s: u64) -> bool {
    if interp.prepare(src, None).is_err() {
        return false;
    }
    for _ in 0..s {
        match interp.step() {
            Ok(StepResult::Continue) => {}
            _ => return false, // finished before s: not an abandonment
        }
    }
    true
}

/// prepare, step, answer the first `k` orders of the program (payload k -> 2k, as the
/// scripted host of C07 does), then stop stepping while the run is still suspended.
/// Returns false when the program finished before the host could walk away.
fn run_stall(interp: &mut Interpreter, src: &str, path: Option<&str>, k: u64) -> bool {
    let mut res = interp.prepare(src, path.map(ModulePath::new));
    let mut answered = 0u64;
    let mut steps = 0u64;
    loop {
        match res {
            Ok(StepResult::Continue) => {}
            Ok(StepResult::Suspended { pending, .. }) => {
                if pending.is_empty() {
                    return false;
                }
                let mut responses = Vec::new();
                for o in &pending {
                    if answered >= k {
                        break;
                    }
                    let kv = tsrun::api::get_property(o.payload.value(), "k").ok().and_then(|v| v.as_number()).unwrap_or(0.0);
                    responses.push(tsrun::OrderResponse { id: o.id, result: Ok(tsrun::RuntimeValue::unguarded(tsrun::JsValue::from(kv * 2.0))) });
                    answered += 1;
                }
                if responses.len() < pending.len() {
                    if !responses.is_empty() {
                        interp.fulfill_orders(responses);
                    }
                    return true; // the host walks away with orders outstanding
                }
                interp.fulfill_orders(responses);
            }
            _ => return false,
        }
        steps += 1;
        if steps > 2_000_000 {
            return false;
        }
        res = interp.step();
    }
}

fn orders_of(src: &str, path: Option<&str>) -> u64 {
    // the number of orders the program issues when every one is answered
    let mut n = 0;
    while n < 200 {
        let mut i = fresh_interp();
        if !run_stall(&mut i, src, path, n) {
            break;
        }
        n += 1;
    }
    n
}

fn observe(interp: &mut Interpreter) -> Vec<String> {
    let mut out = Vec::new();
    // what the host sees of the dead runs before any further program: no export table
    let mut names = tsrun::api::get_export_names(interp);
    names.sort();
    out.push(format!("host-exports=>[{}] dead_exported={}", names.join(","), tsrun::api::get_export(interp, "dead_exported").is_some()));
    for (name, src, path) in observers() {
        let depth0 = {
            // call depth right after prepare, before the first step
            match interp.prepare(&src, path.as_deref().map(ModulePath::new)) {
                Ok(_) => interp.call_depth(),
                Err(_) => usize::MAX,
            }
        };
        let r = run_to_end(interp, &src, path.as_deref(), 200_000);
        let q = interp.verif_quiescence();
        out.push(format!(
            "{}=>{} depth0={} q[env_global={} guards={} stack={} vm={} orders={} wait={} pendprog={} pendmods={}]",
            name, r, depth0, q.env_is_global, q.env_guards, q.call_stack, q.active_vm, q.pending_orders, q.wait_contexts, q.pending_program, q.pending_module_sources
        ));
    }
    out
}

fn fresh_interp() -> Interpreter {
    let log = Rc::new(RefCell::new(Vec::new()));
    let interp = runner::new_interp(&log);
    interp.set_gc_threshold(1);
    interp
}

fn steps_of(src: &str) -> u64 {
    let mut i = fresh_interp();
    if i.prepare(src, None).is_err() {
        return 0;
    }
    let mut n = 0;
    while let Ok(StepResult::Continue) = i.step() {
        n += 1;
        if n > 5000 {
            break;
        }
    }
    n
}

struct Case {
    id: String,
    /// (dead program index into the combined list, abandonment step or None)
    history: Vec<(usize, Option<u64>)>,
}

fn all_dead(ctx: &Ctx) -> Vec<Dead> {
    let mut v = dead_programs();
    v.extend(stalled_programs());
    v.extend(abandon_programs());
    v.extend(stall_composed_programs(ctx));
    v
}

fn cases(ctx: &Ctx) -> Vec<Case> {
    let dead = all_dead(ctx);
    let nerr = dead_programs().len() + stalled_programs().len();
    let nstep = nerr + abandon_programs().len();
    let mut v = Vec::new();
    for (i, d) in dead.iter().enumerate() {
        if i < nerr {
            v.push(Case { id: d.id.clone(), history: vec![(i, None)] });
        }
    }
    // abandonment at every step (quick: every 3rd step offset by the seed)
    // composed programs: the host answers k orders and walks away, for every k (capped)
    for (i, d) in dead.iter().enumerate().skip(nstep) {
        let n = orders_of(&d.src, d.module_path.as_deref()).min(if ctx.thorough() { 60 } else { 25 });
        for k in 0..n {
            v.push(Case { id: format!("{}@{}", d.id, k), history: vec![(i, Some(k))] });
        }
    }
    for (i, d) in dead.iter().enumerate().skip(nerr).take(nstep - nerr) {
        let n = steps_of(&d.src);
        let stride = 1; // every abandonment step, in both tiers (cheap)
        let mut s = 0;
        while s < n {
            v.push(Case { id: format!("{}@{}", d.id, s), history: vec![(i, Some(s))] });
            s += stride;
        }
    }
    // sequences of 2-3 dead runs before the observers
    let mut rng = Rng::derive("c11-seq", if ctx.thorough() { 0 } else { ctx.seed % 8 }, 0);
    let nseq = if ctx.thorough() { 3000 } else { 600 };
    for k in 0..nseq {
        let len = 2 + rng.below(2);
        let mut h = Vec::new();
        let mut name = format!("seq{}", k);
        for _ in 0..len {
            let i = rng.below(dead.len());
            let s = if i >= nstep { Some(rng.below(6) as u64) } else if i >= nerr { Some(rng.below(40) as u64 + 1) } else { None };
            name.push_str(&format!("+{}{}", dead[i].id, s.map(|x| format!("@{}", x)).unwrap_or_default()));
            h.push((i, s));
        }
        v.push(Case { id: name, history: h });
    }
    v
}

const PER_UNIT: usize = 120;

fn judge(r: &mut UnitResult, cs: &[Case], ctx: &Ctx) {
    let dead = all_dead(ctx);
    let lim = Limits { wall: std::time::Duration::from_secs(300), address_space: 3 << 30, stack: 0 };
    let exit = isolate::run(&lim, || {
        let reference = observe(&mut fresh_interp());
        isolate::emit(&format!("ref\u{2}{}\u{3}", reference.join("\u{4}")));
        for (ci, c) in cs.iter().enumerate() {
            let mut interp = fresh_interp();
            let mut real = true;
            let mut ends = Vec::new();
            for (di, s) in &c.history {
                let d = &dead[*di];
                match s {
                    None => ends.push(run_to_end(&mut interp, &d.src, d.module_path.as_deref(), 200_000)),
                    Some(k) if d.stall => {
                        if !run_stall(&mut interp, &d.src, d.module_path.as_deref(), *k) {
                            real = false;
                        }
                        ends.push(format!("abandoned-after-{}-answers", k));
                    }
                    Some(s) => {
                        if !run_abandon(&mut interp, &d.src, *s) {
                            real = false;
                        }
                        ends.push(format!("abandoned@{}", s));
                    }
                }
            }
            let obs = observe(&mut interp);
            isolate::emit(&format!("{}\u{2}{}\u{2}{}\u{2}{}\u{3}", ci, real, ends.join(","), obs.join("\u{4}")));
        }
        String::new()
    });
    let text = match exit {
        Exit::Ok(t) | Exit::Signal(_, t) | Exit::Status(_, t) | Exit::Timeout(t) => t,
    };
    let mut reference: Vec<String> = Vec::new();
    for rec in text.split('\u{3}') {
        let f: Vec<&str> = rec.split('\u{2}').collect();
        if f.first() == Some(&"ref") && f.len() >= 2 {
            reference = f[1].split('\u{4}').map(|s| s.to_string()).collect();
            continue;
        }
        if f.len() < 4 {
            continue;
        }
        let Ok(ci) = f[0].parse::<usize>() else { continue };
        r.evaluations += 1;
        if f[1] != "true" {
            r.inconclusive += 1; // the run finished before the abandonment step
            continue;
        }
        r.nontrivial += 1;
        if f[2].contains("error:") {
            r.stat("histories_with_uncaught_error", 1);
        }
        if f[2].contains("abandoned") {
            r.stat("histories_with_abandonment", 1);
        }
        let obs: Vec<&str> = f[3].split('\u{4}').collect();
        for (k, o) in obs.iter().enumerate() {
            let want = reference.get(k).map(|s| s.as_str()).unwrap_or("");
            let oname = o.split("=>").next().unwrap_or("?");
            // a run of the history that *completed* (e.g. an async function whose rejection
            // nobody handles) legitimately leaves its module loaded and its exports visible
            let completed = f[2].split(',').any(|e| e.starts_with("value:") || e == "done");
            if completed && (oname == "host-exports" || oname.starts_with("import-dead")) {
                continue;
            }
            if *o != want {
                // signature: class of the dead run (without abandonment step / sequence index) + observer
                let class = cs[ci].id.split('@').next().unwrap_or("").to_string();
                let class = if class.starts_with("seq") { "sequence".to_string() } else { class };
                r.violate(
                    format!("residue|{}|{}", class, oname),
                    format!("after [{}] (ended: {}), observer differs from a fresh interpreter:\n      reused: {}\n      fresh:  {}", cs[ci].id, f[2], o, want),
                    json!({"id": cs[ci].id}),
                );
                break;
            }
        }
    }
}

impl Check for C11 {
    fn units(&self, ctx: &Ctx) -> usize {
        cases(ctx).len().div_ceil(PER_UNIT)
    }

    fn run_unit(&self, ctx: &Ctx, idx: usize) -> UnitResult {
        let mut r = UnitResult::default();
        let cs = cases(ctx);
        let lo = idx * PER_UNIT;
        let hi = (lo + PER_UNIT).min(cs.len());
        judge(&mut r, &cs[lo..hi], ctx);
        if let Some(c) = cs.get(lo) {
            r.sample(json!({"history": c.id, "observers": observers().iter().map(|o| o.0.clone()).collect::<Vec<_>>()}));
        }
        r
    }

    fn replay(&self, ctx: &Ctx, case: &Value) -> UnitResult {
        let mut r = UnitResult::default();
        let id = case["id"].as_str().unwrap_or("");
        let thorough = Ctx { tier: Tier::Thorough, ..ctx.clone() };
        // (history indices refer to the program list of the tier that produced them)
        let cs: Vec<Case> = cases(&thorough).into_iter().filter(|c| c.id == id).collect();
        if cs.is_empty() {
            let cs: Vec<Case> = cases(ctx).into_iter().filter(|c| c.id == id).collect();
            judge(&mut r, &cs, ctx);
        } else {
            judge(&mut r, &cs, &thorough);
        }
        r
    }
}
