//! C16 — data crosses the JSON boundary without loss or corruption.
//!
//! Documents (enumerated feature families + seeded random trees + deep/wide extremes) and
//! JS value graphs are pushed through every path across the boundary:
//!
//!   parse+read     JSON.parse(text) read back member by member by an in-script serializer
//!   roundtrip      JSON.stringify(JSON.parse(text)) — compact, indent 2, indent '\t'
//!   host->json     api::create_from_json(d) -> js_value_to_json
//!   host->script   api::create_from_json(d) as a global -> JSON.stringify(g) / in-script serializer / returned as is
//!   literal->host  the document as a JS literal -> completion value -> js_value_to_json ; JSON.stringify(literal)
//!   export         module `export const v = JSON.parse(text)` -> api::get_export -> js_value_to_json
//!   c-api          tsrun_json_parse -> tsrun_json_stringify
//!
//! Oracle: every path must end in text that `serde_json` parses / a `serde_json::Value`
//! that equals the document (object member order is not part of C16; numbers compare as
//! doubles; -0 may become 0, as ECMAScript's JSON.stringify does). For JS value graphs the
//! expectation follows the statement: undefined / functions / symbols omitted from objects
//! and null in arrays, non-finite numbers null. Cyclic values must be refused with an error.
//! Cases run in forked children: a crash (stack overflow on deep documents, panic) is a
//! violation attributed to the case that was running.

use crate::isolate::{self, Exit, Limits};
use crate::runner::{self, RunConfig};
use crate::util::*;
use serde_json::{Map, Value, json};
use std::cell::RefCell;
use std::rc::Rc;
use tsrun::{JsValue, api};

pub struct C16;

const SER: &str = r#"
function qs(str){ var s = '"'; for (var i = 0; i < str.length; i++) { var c = str.charAt(i); var n = str.charCodeAt(i); if (c === '"') { s += '\\"'; } else if (c === '\\') { s += '\\\\'; } else if (n < 32) { var h = n.toString(16); s += '\\u' + '0000'.slice(h.length) + h; } else { s += c; } } return s + '"'; }
function ser(v){
  if (v === null) { return 'null'; }
  var t = typeof v;
  if (t === 'boolean') { return v ? 'true' : 'false'; }
  if (t === 'number') { return (v !== v || v === Infinity || v === -Infinity) ? 'null' : String(v); }
  if (t === 'string') { return qs(v); }
  if (t === 'undefined') { return 'null'; }
  var s, i;
  if (Array.isArray(v)) { s = '['; for (i = 0; i < v.length; i++) { if (i) { s += ','; } s += ser(v[i]); } return s + ']'; }
  if (t === 'object') { var ks = Object.keys(v); s = '{'; for (i = 0; i < ks.length; i++) { if (i) { s += ','; } s += qs(ks[i]) + ':' + ser(v[ks[i]]); } return s + '}'; }
  return 'null';
}
"#;

// ───────────────────────────── JS value graphs ─────────────────────────────

#[derive(Clone, Debug, PartialEq)]
enum JV {
    Null,
    Bool(bool),
    Num(f64),
    Str(String),
    Arr(Vec<JV>),
    Obj(Vec<(String, JV)>),
    // leaves that exist only on the script side
    Undefined,
    Function,
    Symbol,
    NaN,
    PosInf,
    NegInf,
}

impl JV {
    fn from_serde(v: &Value) -> JV {
        match v {
            Value::Null => JV::Null,
            Value::Bool(b) => JV::Bool(*b),
            Value::Number(n) => JV::Num(n.as_f64().unwrap_or(0.0)),
            Value::String(s) => JV::Str(s.clone()),
            Value::Array(a) => JV::Arr(a.iter().map(JV::from_serde).collect()),
            Value::Object(m) => JV::Obj(m.iter().map(|(k, v)| (k.clone(), JV::from_serde(v))).collect()),
        }
    }
    fn is_pure(&self) -> bool {
        match self {
            JV::Undefined | JV::Function | JV::Symbol | JV::NaN | JV::PosInf | JV::NegInf => false,
            JV::Arr(a) => a.iter().all(|x| x.is_pure()),
            JV::Obj(m) => m.iter().all(|(_, x)| x.is_pure()),
            _ => true,
        }
    }
    /// what a conforming serializer + parser make of the value (the statement's rules)
    fn expected(&self) -> Value {
        match self {
            JV::Null | JV::Undefined | JV::Function | JV::Symbol | JV::NaN | JV::PosInf | JV::NegInf => Value::Null,
            JV::Bool(b) => Value::Bool(*b),
            JV::Num(n) => serde_json::Number::from_f64(*n).map(Value::Number).unwrap_or(Value::Null),
            JV::Str(s) => Value::String(s.clone()),
            JV::Arr(a) => Value::Array(a.iter().map(|x| x.expected()).collect()),
            JV::Obj(m) => {
                let mut out = Map::new();
                for (k, v) in m {
                    if matches!(v, JV::Undefined | JV::Function | JV::Symbol) {
                        continue;
                    }
                    out.insert(k.clone(), v.expected());
                }
                Value::Object(out)
            }
        }
    }
    fn js_literal(&self) -> String {
        match self {
            JV::Null => "null".into(),
            JV::Bool(b) => b.to_string(),
            JV::Num(n) => {
                if *n == 0.0 && n.is_sign_negative() {
                    "-0".into()
                } else {
                    format!("{:e}", n)
                }
            }
            JV::Str(s) => js_string(s),
            JV::Arr(a) => format!("[{}]", a.iter().map(|x| x.js_literal()).collect::<Vec<_>>().join(",")),
            JV::Obj(m) => format!("{{{}}}", m.iter().map(|(k, v)| format!("[{}]:{}", js_string(k), v.js_literal())).collect::<Vec<_>>().join(",")),
            JV::Undefined => "undefined".into(),
            JV::Function => "function(){ return 1; }".into(),
            JV::Symbol => "Symbol('s')".into(),
            JV::NaN => "NaN".into(),
            JV::PosInf => "Infinity".into(),
            JV::NegInf => "-Infinity".into(),
        }
    }
}

/// a JS string literal denoting exactly `s` (JSON string syntax + U+2028/9 escaped)
fn js_string(s: &str) -> String {
    serde_json::to_string(s).unwrap_or_default().replace('\u{2028}', "\\u2028").replace('\u{2029}', "\\u2029")
}

/// structural equality: numbers as doubles (-0 == 0), object member order ignored
fn same(a: &Value, b: &Value) -> bool {
    match (a, b) {
        (Value::Number(x), Value::Number(y)) => x.as_f64() == y.as_f64(),
        (Value::Array(x), Value::Array(y)) => x.len() == y.len() && x.iter().zip(y.iter()).all(|(p, q)| same(p, q)),
        (Value::Object(x), Value::Object(y)) => x.len() == y.len() && x.iter().all(|(k, v)| y.get(k).is_some_and(|w| same(v, w))),
        _ => a == b,
    }
}

fn max_width(v: &Value) -> usize {
    match v {
        Value::Array(a) => a.iter().map(max_width).max().unwrap_or(0).max(a.len()),
        Value::Object(m) => m.values().map(max_width).max().unwrap_or(0).max(m.len()),
        _ => 0,
    }
}

/// a member named __proto__ cannot be written as an object literal with the same meaning
/// (`{"__proto__": v}` sets the prototype): such documents cross the boundary as text / host values only
fn has_proto_key(v: &Value) -> bool {
    match v {
        Value::Array(a) => a.iter().any(has_proto_key),
        Value::Object(m) => m.contains_key("__proto__") || m.values().any(has_proto_key),
        _ => false,
    }
}

fn describe_diff(exp: &Value, got: &Value) -> String {
    format!("expected {} — got {}", truncate(&exp.to_string(), 160), truncate(&got.to_string(), 160))
}

// ───────────────────────────── paths ─────────────────────────────

#[derive(Debug)]
enum PathOut {
    Json(Value),
    /// the path produced text that is not well-formed JSON
    BadText(String),
    /// the path produced text nested deeper than the oracle's parser reads (compared textually)
    DeepText(String),
    /// the path raised an error (class, message)
    Error(String, String),
    /// not applicable to this case
    Skip,
}

fn run_script(src: &str, module: bool) -> (runner::Outcome, Option<Value>) {
    // returns the outcome and, when the completion value is a JS value, its js_value_to_json
    let log = Rc::new(RefCell::new(Vec::new()));
    let mut interp = runner::new_interp(&log);
    let cfg = RunConfig { max_steps: 50_000_000, module_path: if module { Some("/app/doc.ts".into()) } else { None }, ..Default::default() };
    let o = runner::run_on(&mut interp, &log, src, &cfg);
    (o, None)
}

fn text_result(o: &runner::Outcome) -> PathOut {
    match o.kind.as_str() {
        "value" => parse_text(&o.value),
        "error" => PathOut::Error(o.error_class.clone(), o.error_msg.clone()),
        other => PathOut::Error(other.to_string(), o.value.clone()),
    }
}

/// read emitted text with the oracle's parser; text nested beyond the parser's own recursion
/// limit is kept as text (the oracle compares it with the expected compact text instead)
fn parse_text(t: &str) -> PathOut {
    match serde_json::from_str::<Value>(t) {
        Ok(j) => PathOut::Json(j),
        Err(e) if e.to_string().contains("recursion limit") => PathOut::DeepText(t.to_string()),
        Err(e) => PathOut::BadText(format!("{} in {}", e, truncate(t, 120))),
    }
}

fn p_parse_read(text: &str) -> PathOut {
    let (o, _) = run_script(&format!("{}\nvar T = {};\nser(JSON.parse(T))", SER, js_string(text)), false);
    text_result(&o)
}

fn p_roundtrip(text: &str, indent: &str) -> PathOut {
    let (o, _) = run_script(&format!("var T = {};\nJSON.stringify(JSON.parse(T){})", js_string(text), indent), false);
    text_result(&o)
}

/// run a script against an interpreter on which `g` is the host-created document; `want_value`
/// selects between the completion string (parsed as JSON text) and js_value_to_json(completion)
fn with_host_global(d: &Value, script: &str, want_value: bool) -> PathOut {
    let log = Rc::new(RefCell::new(Vec::new()));
    let mut interp = runner::new_interp(&log);
    let guard = api::create_guard(&interp);
    let v = match api::create_from_json(&mut interp, &guard, d) {
        Ok(v) => v,
        Err(e) => {
            let (c, m) = runner::error_class(&e);
            return PathOut::Error(c, m);
        }
    };
    if script.is_empty() {
        return match tsrun::js_value_to_json(&v) {
            Ok(j) => PathOut::Json(j),
            Err(e) => {
                let (c, m) = runner::error_class(&e);
                PathOut::Error(c, m)
            }
        };
    }
    let global = JsValue::Object(interp.global.clone());
    if let Err(e) = api::set_property(&global, "g", v) {
        let (c, m) = runner::error_class(&e);
        return PathOut::Error(c, m);
    }
    complete(&mut interp, script, None, want_value)
}

/// prepare+step to completion; the completion value either as JSON text or through js_value_to_json
fn complete(interp: &mut tsrun::Interpreter, script: &str, path: Option<&str>, want_value: bool) -> PathOut {
    use tsrun::StepResult;
    let mp = path.map(|p| tsrun::ModulePath::new(p.to_string()));
    let mut r = interp.prepare(script, mp);
    let mut steps = 0u64;
    loop {
        match r {
            Err(e) => {
                let (c, m) = runner::error_class(&e);
                return PathOut::Error(c, m);
            }
            Ok(StepResult::Complete(v)) => {
                if want_value {
                    return match tsrun::js_value_to_json(v.value()) {
                        Ok(j) => PathOut::Json(j),
                        Err(e) => {
                            let (c, m) = runner::error_class(&e);
                            PathOut::Error(c, m)
                        }
                    };
                }
                return match v.value() {
                    JsValue::String(s) => parse_text(s.as_str()),
                    other => PathOut::Error("not-a-string".into(), runner::show_value(other)),
                };
            }
            Ok(StepResult::Continue) => {}
            Ok(other) => return PathOut::Error("unexpected-step-result".into(), format!("{:?}", std::mem::discriminant(&other))),
        }
        steps += 1;
        if steps > 50_000_000 {
            return PathOut::Error("limit".into(), String::new());
        }
        r = interp.step();
    }
}

fn p_export(text: &str) -> PathOut {
    use tsrun::StepResult;
    let log = Rc::new(RefCell::new(Vec::new()));
    let mut interp = runner::new_interp(&log);
    let src = format!("export const v = JSON.parse({});\nexport default 1;", js_string(text));
    let mut r = interp.prepare(&src, Some(tsrun::ModulePath::new("/app/doc.ts".to_string())));
    let mut steps = 0u64;
    loop {
        match r {
            Err(e) => {
                let (c, m) = runner::error_class(&e);
                return PathOut::Error(c, m);
            }
            Ok(StepResult::Complete(_)) | Ok(StepResult::Done) => break,
            Ok(StepResult::Continue) => {}
            Ok(_) => return PathOut::Error("unexpected-step-result".into(), String::new()),
        }
        steps += 1;
        if steps > 50_000_000 {
            return PathOut::Error("limit".into(), String::new());
        }
        r = interp.step();
    }
    match api::get_export(&interp, "v") {
        Some(v) => match tsrun::js_value_to_json(&v) {
            Ok(j) => PathOut::Json(j),
            Err(e) => {
                let (c, m) = runner::error_class(&e);
                PathOut::Error(c, m)
            }
        },
        None => PathOut::Error("no-export".into(), String::new()),
    }
}

fn p_capi(text: &str) -> PathOut {
    use crate::ffi::*;
    if text.contains('\0') {
        return PathOut::Skip;
    }
    unsafe {
        let ctx = tsrun_new();
        let c = cstr(text);
        let r = tsrun_json_parse(ctx, c.as_ptr());
        let out = if r.value.is_null() {
            let msg = read_cstr(r.error).ok().flatten().unwrap_or_default();
            PathOut::Error("c-api".into(), msg)
        } else {
            let s = tsrun_json_stringify(ctx, r.value);
            let out = if s.is_null() {
                PathOut::Error("c-api".into(), "tsrun_json_stringify returned NULL".into())
            } else {
                match read_cstr(s) {
                    Ok(Some(t)) => parse_text(&t),
                    Ok(None) => PathOut::Error("c-api".into(), "NULL".into()),
                    Err(e) => PathOut::BadText(e),
                }
            };
            if !s.is_null() {
                tsrun_free_string(s);
            }
            tsrun_value_free(r.value);
            out
        };
        tsrun_free(ctx);
        out
    }
}

/// all paths for a document given as text (expected = what serde_json reads from the text)
fn text_paths(text: &str, deep: bool) -> Vec<(&'static str, PathOut)> {
    let mut v = Vec::new();
    if !deep {
        v.push(("parse+read", p_parse_read(text)));
    }
    v.push(("roundtrip", p_roundtrip(text, "")));
    v.push(("roundtrip-indent2", p_roundtrip(text, ", null, 2")));
    v.push(("roundtrip-indent-tab", p_roundtrip(text, ", null, '\\t'")));
    v.push(("export", p_export(text)));
    v.push(("c-api", p_capi(text)));
    v
}

/// all paths for a document given as a tree
fn tree_paths(d: &Value, deep: bool) -> Vec<(&'static str, PathOut)> {
    let mut v = Vec::new();
    v.push(("host->json", with_host_global(d, "", true)));
    v.push(("host->script-stringify", with_host_global(d, "JSON.stringify(g)", false)));
    v.push(("host->script-stringify-indent", with_host_global(d, "JSON.stringify(g, null, 3)", false)));
    v.push(("host->script-identity", with_host_global(d, "g", true)));
    if !deep {
        v.push(("host->script-read", with_host_global(d, &format!("{}\nser(g)", SER), false)));
    }
    v
}

/// paths for a JS value graph written as a literal
fn literal_paths(jv: &JV, deep: bool) -> Vec<(&'static str, PathOut)> {
    let lit = jv.js_literal();
    let mut v = Vec::new();
    let log = Rc::new(RefCell::new(Vec::new()));
    let mut interp = runner::new_interp(&log);
    v.push(("literal->host", complete(&mut interp, &format!("({})", lit), None, true)));
    let mut interp = runner::new_interp(&log);
    v.push(("literal->stringify", complete(&mut interp, &format!("JSON.stringify({})", lit), None, false)));
    let mut interp = runner::new_interp(&log);
    v.push(("literal->stringify-indent", complete(&mut interp, &format!("JSON.stringify({}, null, 1)", lit), None, false)));
    if !deep && jv.is_pure() {
        let mut interp = runner::new_interp(&log);
        v.push(("literal->read", complete(&mut interp, &format!("{}\nser({})", SER, lit), None, false)));
    }
    v
}

// ───────────────────────────── cases ─────────────────────────────

#[derive(Clone, Debug)]
enum Doc {
    /// raw JSON text (expected value = serde_json's reading of it)
    Text(String),
    /// a pure tree: exercised as text (compact) and as host-created value and as literal
    Tree(Value),
    /// a JS value graph (literal paths only; expectation by the statement's rules)
    Graph(JV),
    /// a script that must raise TypeError (cyclic value), given as statements ending in an expression
    Cycle(String),
}

#[derive(Clone, Debug)]
struct Case {
    id: String,
    doc: Doc,
    deep: bool,
}

fn key_palette() -> Vec<String> {
    let mut v: Vec<String> = [
        "a", "", "0", "1", "2", "10", "01", "007", "4294967294", "4294967295", "4294967296", "9007199254740993", "-0", "-1", "1e3", "1.5", "0x10", " 1", "1 ", "+1", "Infinity", "NaN",
        "__proto__", "constructor", "prototype", "toString", "valueOf", "hasOwnProperty", "length", "toJSON", "then", "name", "null", "undefined", "true", "key with spaces", "\"quoted\"",
        "back\\slash", "new\nline", "tab\t", "nul\u{0}byte", "\u{1f}", "\u{7f}", "\u{80}", "\u{e9}", "\u{2028}", "\u{2029}", "\u{feff}", "\u{ffff}", "\u{65e5}\u{672c}", "\u{1F600}", "\u{10FFFF}", "a.b", "a[0]",
        "$", "_", "\u{3b1}\u{3b2}",
    ]
    .iter()
    .map(|s| s.to_string())
    .collect();
    v.push("k".repeat(300));
    v
}

fn string_palette() -> Vec<String> {
    let mut v: Vec<String> = Vec::new();
    for cp in (0u32..0x0300).chain([0x7ff, 0x800, 0xfff, 0x2028, 0x2029, 0xd7ff, 0xe000, 0xfeff, 0xfffd, 0xfffe, 0xffff, 0x10000, 0x1f600, 0x1f680, 0x2f800, 0xe0001, 0x10fffe, 0x10ffff]) {
        if let Some(c) = char::from_u32(cp) {
            v.push(c.to_string());
            if cp < 0x40 || cp > 0x2000 {
                v.push(format!("a{}b", c));
            }
        }
    }
    for s in ["", " ", "  lead and trail  ", "\"", "\\", "\\\\", "\\\"", "/", "\\/", "</script>", "\\u0041", "\\n", "a\"b\\c/d\u{8}\u{c}\n\r\t", "\u{1F600}\u{1F600}", "e\u{301}", "\u{200d}", "\r\n", "'", "`${x}`"] {
        v.push(s.to_string());
    }
    v.push("long ".repeat(20_000));
    v
}

fn number_texts() -> Vec<String> {
    let mut v: Vec<String> = [
        "0", "-0", "1", "-1", "0.0", "-0.0", "0e0", "0E+5", "1e0", "1E2", "1e+2", "1e-2", "-1.50e-3", "1.0", "1.10", "100", "1e21", "1e22", "1e-7", "1e-6", "123456789012345680000", "0.000001",
        "0.0000001", "9007199254740991", "9007199254740992", "9007199254740993", "-9007199254740991", "-9007199254740993", "18446744073709551615", "18446744073709551616", "12345678901234567890",
        "123456789012345678901234567890", "1.7976931348623157e308", "2.2250738585072014e-308", "5e-324", "4.9e-324", "2.5e-324", "1e-400", "0.1", "0.2", "0.30000000000000004", "1.5", "3.141592653589793",
        "4.35", "0.5", "2147483647", "2147483648", "4294967295", "4294967296", "-2147483648", "1e15", "1e16", "123456789.12345678", "4.3499999999999995e235", "1.0000000000000002",
        "0.1e1", "10e-1", "1e300", "-1e-300",
    ]
    .iter()
    .map(|s| s.to_string())
    .collect();
    v.push(format!("1{}", "0".repeat(300)));
    v.push(format!("0.{}1", "0".repeat(300)));
    v
}

fn enumerated_cases() -> Vec<Case> {
    let mut v = Vec::new();
    // keys: as the only member, next to a plain member, and nested
    for (i, k) in key_palette().iter().enumerate() {
        v.push(Case { id: format!("key/{}/alone", i), doc: Doc::Tree(json!({k.clone(): 1})), deep: false });
        v.push(Case { id: format!("key/{}/with-sibling", i), doc: Doc::Tree(json!({"first": "x", k.clone(): [1, {"n": null}], "last": true})), deep: false });
        v.push(Case { id: format!("key/{}/nested", i), doc: Doc::Tree(json!({"o": {k.clone(): {k.clone(): "v"}}})), deep: false });
    }
    // pairs of index-like / colliding keys
    let ks = ["0", "1", "2", "10", "01", "1.0", "1e0", "-0", "a", "__proto__", ""];
    for (i, a) in ks.iter().enumerate() {
        for (j, b) in ks.iter().enumerate() {
            if i != j {
                v.push(Case { id: format!("keypair/{}/{}", a, b), doc: Doc::Tree(json!({*a: "A", *b: "B"})), deep: false });
            }
        }
    }
    // strings: as value, as array element, as key
    for (i, s) in string_palette().iter().enumerate() {
        v.push(Case { id: format!("string/{}/value", i), doc: Doc::Tree(json!({"s": s})), deep: false });
        if i % 4 == 0 {
            v.push(Case { id: format!("string/{}/element", i), doc: Doc::Tree(json!([s, s])), deep: false });
            v.push(Case { id: format!("string/{}/key", i), doc: Doc::Tree(json!({s.clone(): s})), deep: false });
            v.push(Case { id: format!("string/{}/toplevel", i), doc: Doc::Tree(json!(s)), deep: false });
        }
    }
    // escape spellings in text
    let escapes = [
        "\\\"", "\\\\", "\\/", "\\b", "\\f", "\\n", "\\r", "\\t", "\\u0000", "\\u001f", "\\u001F", "\\u0041", "\\u00e9", "\\u00E9", "\\u2028", "\\u2029", "\\uFFFF", "\\ud83d\\ude00", "\\uD83D\\uDE00",
        "\\udbff\\udfff", "\\u0022", "\\u005c", "\\u002F",
    ];
    for (i, e) in escapes.iter().enumerate() {
        for (j, tmpl) in ["\"@\"", "\"a@\"", "\"@b\"", "\"@@\"", "{\"@\":\"@\"}", "[\"@\",\"x@y\"]"].iter().enumerate() {
            v.push(Case { id: format!("escape/{}/{}", i, j), doc: Doc::Text(tmpl.replace('@', e)), deep: false });
        }
    }
    // number spellings
    for (i, n) in number_texts().iter().enumerate() {
        v.push(Case { id: format!("number/{}/toplevel", i), doc: Doc::Text(n.clone()), deep: false });
        v.push(Case { id: format!("number/{}/member", i), doc: Doc::Text(format!("{{\"n\":{},\"a\":[{},-{}]}}", n, n, n.trim_start_matches('-'))), deep: false });
    }
    // whitespace and structure spellings
    let texts = [
        " \t\r\n{ \"a\" : [ 1 , 2 , { } , [ ] ] , \"b\" : null }\n ", "[]", "{}", "[[]]", "[{}]", "{\"a\":{}}", "[[],[[]],[[],[]]]", "null", "true", "false", "\"\"", "[null,true,false]",
        "{\"a\":1,\"a\":2}", "{\"a\":1,\"b\":2,\"a\":3}", "{\"a\":{\"x\":1},\"a\":{\"y\":2}}", "{\"0\":\"a\",\"0\":\"b\"}", "{\"\":1,\"\":2}", "[1,[2,[3,[4,[5,[6,[7]]]]]]]",
        "{\"a\":{\"b\":{\"c\":{\"d\":{\"e\":{\"f\":{}}}}}}}", "[{\"a\":[{\"b\":[{\"c\":[]}]}]}]",
    ];
    for (i, t) in texts.iter().enumerate() {
        v.push(Case { id: format!("text/{}", i), doc: Doc::Text(t.to_string()), deep: false });
    }
    // array shapes
    for n in [0usize, 1, 2, 3, 10, 255, 256, 257, 1000, 65_536] {
        v.push(Case { id: format!("array/len-{}", n), doc: Doc::Tree(Value::Array((0..n).map(|i| json!(i)).collect())), deep: n > 1000 });
        if n <= 1000 {
            v.push(Case { id: format!("array/mixed-{}", n), doc: Doc::Tree(Value::Array((0..n).map(|i| match i % 5 { 0 => json!(null), 1 => json!(i as f64 + 0.5), 2 => json!(format!("s{}", i)), 3 => json!([i]), _ => json!({"i": i}) }).collect())), deep: false });
        }
    }
    for n in [1usize, 2, 3, 16, 100, 1000, 20_000] {
        let mut m = Map::new();
        for i in 0..n {
            m.insert(format!("key{}", (i * 7919) % n.max(1) + i * n), json!(i));
        }
        v.push(Case { id: format!("object/members-{}", n), doc: Doc::Tree(Value::Object(m)), deep: n > 1000 });
        let mut m2 = Map::new();
        for i in 0..n.min(3000) {
            m2.insert(((i * 7919) % 100_003).to_string(), json!(i));
        }
        v.push(Case { id: format!("object/index-like-members-{}", n), doc: Doc::Tree(Value::Object(m2)), deep: n > 1000 });
    }
    // deep nesting: text and tree
    for depth in [8usize, 32, 64, 100, 127, 128, 129, 200, 500, 1000, 5000, 20_000] {
        v.push(Case { id: format!("deep/arrays-{}", depth), doc: Doc::Text(format!("{}1{}", "[".repeat(depth), "]".repeat(depth))), deep: true });
        v.push(Case { id: format!("deep/objects-{}", depth), doc: Doc::Text(format!("{}1{}", "{\"a\":".repeat(depth), "}".repeat(depth))), deep: true });
        if depth <= 5000 {
            let mut t = json!(1);
            for i in 0..depth {
                t = if i % 2 == 0 { json!([t]) } else { json!({"k": t}) };
            }
            v.push(Case { id: format!("deep/tree-{}", depth), doc: Doc::Tree(t), deep: true });
        }
    }
    // JS value graphs: every script-only leaf in every container position
    let leaves = [JV::Undefined, JV::Function, JV::Symbol, JV::NaN, JV::PosInf, JV::NegInf, JV::Num(-0.0), JV::Null];
    for (i, l) in leaves.iter().enumerate() {
        v.push(Case { id: format!("graph/leaf-{}/member", i), doc: Doc::Graph(JV::Obj(vec![("a".into(), JV::Num(1.0)), ("x".into(), l.clone()), ("z".into(), JV::Str("s".into()))])), deep: false });
        v.push(Case { id: format!("graph/leaf-{}/only-member", i), doc: Doc::Graph(JV::Obj(vec![("x".into(), l.clone())])), deep: false });
        v.push(Case { id: format!("graph/leaf-{}/element", i), doc: Doc::Graph(JV::Arr(vec![JV::Num(1.0), l.clone(), JV::Str("s".into())])), deep: false });
        v.push(Case { id: format!("graph/leaf-{}/nested", i), doc: Doc::Graph(JV::Obj(vec![("o".into(), JV::Arr(vec![JV::Obj(vec![("x".into(), l.clone()), ("y".into(), JV::Arr(vec![l.clone()]))])]))])), deep: false });
    }
    // shared (acyclic) substructure and cycles, built by scripts
    let shared = [
        ("shared/empty-array-twice", "var s = []; JSON.stringify({a: s, b: s})", json!({"a": [], "b": []})),
        ("shared/array-twice", "var s = [1, 2]; JSON.stringify({a: s, b: s, c: [s, s]})", json!({"a": [1, 2], "b": [1, 2], "c": [[1, 2], [1, 2]]})),
        ("shared/empty-object-twice", "var s = {}; JSON.stringify([s, s, {k: s}])", json!([{}, {}, {"k": {}}])),
        ("shared/object-in-siblings", "var s = {v: 1}; JSON.stringify({a: {p: s}, b: {p: s}})", json!({"a": {"p": {"v": 1}}, "b": {"p": {"v": 1}}})),
        ("shared/diamond", "var leaf = {l: []}; var l = {x: leaf}; var r = {x: leaf}; JSON.stringify({l: l, r: r, again: [l, r]})", json!({"l": {"x": {"l": []}}, "r": {"x": {"l": []}}, "again": [{"x": {"l": []}}, {"x": {"l": []}}]})),
        ("shared/after-error", "var c = {}; c.c = c; try { JSON.stringify(c); } catch (e) { } var s = [1]; JSON.stringify({a: s, b: s})", json!({"a": [1], "b": [1]})),
    ];
    for (id, script, exp) in shared {
        v.push(Case { id: id.to_string(), doc: Doc::Text(format!("\u{1}SCRIPT\u{1}{}\u{1}{}", script, exp)), deep: false });
    }
    let cycles = [
        ("cycle/self", "var a = {}; a.self = a; JSON.stringify(a)"),
        ("cycle/array-self", "var a = []; a.push(a); JSON.stringify(a)"),
        ("cycle/two-step", "var a = {}; var b = {a: a}; a.b = b; JSON.stringify({root: a})"),
        ("cycle/through-array", "var a = {list: []}; a.list.push({back: a}); JSON.stringify(a)"),
        ("cycle/deep", "var a = {}; var c = a; for (var i = 0; i < 50; i++) { c.n = {}; c = c.n; } c.n = a; JSON.stringify(a)"),
        ("cycle/indent", "var a = {}; a.self = a; JSON.stringify(a, null, 2)"),
    ];
    for (id, script) in cycles {
        v.push(Case { id: id.to_string(), doc: Doc::Cycle(script.to_string()), deep: false });
    }
    v
}

// seeded random trees

fn random_tree(rng: &mut Rng, depth: usize, keys: &[String], strings: &[String]) -> Value {
    let leaf = depth == 0 || rng.chance(1, 3);
    if leaf {
        match rng.below(8) {
            0 => Value::Null,
            1 => Value::Bool(rng.chance(1, 2)),
            2 => json!(rng.range(-1000, 1000)),
            3 => json!((rng.next() % (1u64 << 53)) as i64 * if rng.chance(1, 2) { 1 } else { -1 }),
            4 => {
                let f = f64::from_bits(rng.next());
                if f.is_finite() { json!(f) } else { json!(0.5) }
            }
            5 => json!(rng.f64() * 10f64.powi(rng.range(-20, 20) as i32)),
            _ => Value::String(rng.pick(strings).clone()),
        }
    } else if rng.chance(1, 2) {
        let n = rng.below(5);
        Value::Array((0..n).map(|_| random_tree(rng, depth - 1, keys, strings)).collect())
    } else {
        let n = rng.below(5);
        let mut m = Map::new();
        for _ in 0..n {
            let k = if rng.chance(1, 4) { rng.pick(strings).clone() } else { rng.pick(keys).clone() };
            m.insert(k, random_tree(rng, depth - 1, keys, strings));
        }
        Value::Object(m)
    }
}

const R_SHARDS: u64 = 8;
const R_PER_UNIT: u64 = 120;

fn random_cases(shard: u64, unit: u64) -> Vec<Case> {
    let keys = key_palette();
    let mut strings = string_palette();
    strings.truncate(strings.len() - 1); // not the 100 kB one
    (0..R_PER_UNIT)
        .map(|n| {
            let mut rng = Rng::derive("c16.random", shard * 1000 + unit, n);
            let depth = 1 + rng.below(6);
            Case { id: format!("random/{}/{}/{}", shard, unit, n), doc: Doc::Tree(random_tree(&mut rng, depth, &keys, &strings)), deep: false }
        })
        .collect()
}

// ───────────────────────────── judging ─────────────────────────────

/// Evaluate one case in-process; returns (path, problem-kind, detail) for every failing path
/// and the number of paths exercised.
fn evaluate(case: &Case) -> (usize, Vec<(String, String, String)>) {
    let mut bad = Vec::new();
    let mut n = 0usize;
    let mut check = |paths: Vec<(&'static str, PathOut)>, exp: &Value, bad: &mut Vec<(String, String, String)>| {
        for (name, out) in paths {
            match out {
                PathOut::Skip => {}
                PathOut::Json(got) => {
                    n += 1;
                    if !same(exp, &got) {
                        bad.push((name.to_string(), "mismatch".to_string(), describe_diff(exp, &got)));
                    }
                }
                PathOut::BadText(e) => {
                    n += 1;
                    bad.push((name.to_string(), "ill-formed-text".to_string(), e));
                }
                PathOut::DeepText(t) => {
                    n += 1;
                    let strip = |x: &str| x.chars().filter(|c| !c.is_whitespace()).collect::<String>();
                    if strip(&t) != strip(&exp.to_string()) {
                        bad.push((name.to_string(), "mismatch".to_string(), format!("deep text differs: {}", truncate(&t, 120))));
                    }
                }
                PathOut::Error(c, m) => {
                    n += 1;
                    bad.push((name.to_string(), format!("error:{}", c), truncate(&m, 160)));
                }
            }
        }
    };
    match &case.doc {
        Doc::Text(t) if t.starts_with("\u{1}SCRIPT\u{1}") => {
            let parts: Vec<&str> = t.split('\u{1}').collect();
            let script = parts.get(2).copied().unwrap_or("");
            let exp: Value = serde_json::from_str(parts.get(3).copied().unwrap_or("null")).unwrap_or(Value::Null);
            let log = Rc::new(RefCell::new(Vec::new()));
            let mut interp = runner::new_interp(&log);
            check(vec![("script-built->stringify", complete(&mut interp, script, None, false))], &exp, &mut bad);
            let mut interp = runner::new_interp(&log);
            let as_value = script.replace("JSON.stringify(", "(");
            check(vec![("script-built->host", complete(&mut interp, &as_value, None, true))], &exp, &mut bad);
        }
        Doc::Text(t) => {
            match serde_json::from_str::<Value>(t) {
                Ok(exp) => check(text_paths(t, case.deep), &exp, &mut bad),
                Err(e) if e.to_string().contains("recursion limit") => {
                    // deeper than the oracle's parser reads: every path must reproduce the text itself
                    for (name, out) in text_paths(t, true) {
                        n += 1;
                        match out {
                            PathOut::DeepText(g) | PathOut::BadText(g) => {
                                let strip = |x: &str| x.chars().filter(|c| !c.is_whitespace()).collect::<String>();
                                if strip(&g) != strip(t) {
                                    bad.push((name.to_string(), "mismatch".to_string(), format!("deep text differs: {}", truncate(&g, 120))));
                                }
                            }
                            PathOut::Json(_) => {
                                // host-side values of deep documents are compared through text only
                            }
                            PathOut::Error(c, m) => bad.push((name.to_string(), format!("error:{}", c), truncate(&m, 160))),
                            PathOut::Skip => {}
                        }
                    }
                }
                Err(_) => return (0, bad),
            }
        }
        Doc::Tree(d) => {
            let text = d.to_string();
            check(text_paths(&text, case.deep), d, &mut bad);
            check(tree_paths(d, case.deep), d, &mut bad);
            if !case.deep && max_width(d) <= 200 && !has_proto_key(d) {
                check(literal_paths(&JV::from_serde(d), false), d, &mut bad);
            }
        }
        Doc::Graph(g) => {
            check(literal_paths(g, case.deep), &g.expected(), &mut bad);
        }
        Doc::Cycle(script) => {
            let log = Rc::new(RefCell::new(Vec::new()));
            let mut interp = runner::new_interp(&log);
            n += 1;
            match complete(&mut interp, script, None, false) {
                PathOut::Error(c, _) if c == "TypeError" => {}
                other => bad.push(("cycle->stringify".to_string(), "cycle-not-refused".to_string(), format!("{:?}", other))),
            }
            // the same value handed to the host
            let mut interp = runner::new_interp(&log);
            n += 1;
            let as_value = script.replace("JSON.stringify(", "(").replace(", null, 2)", ")");
            match complete(&mut interp, &as_value, None, true) {
                PathOut::Error(c, _) if c == "TypeError" => {}
                other => bad.push(("cycle->host".to_string(), "cycle-not-refused".to_string(), format!("{:?}", other))),
            }
            // catchable inside the script
            let mut interp = runner::new_interp(&log);
            n += 1;
            let stmts: Vec<&str> = script.rsplitn(2, ';').collect();
            let (last, before) = (stmts[0], stmts.get(1).copied().unwrap_or(""));
            match complete(&mut interp, &format!("{}; var r; try {{ r = {}; }} catch (e) {{ r = '\"caught ' + e.name + '\"'; }} r", before, last), None, false) {
                PathOut::Json(Value::String(s)) if s == "caught TypeError" => {}
                other => bad.push(("cycle->catch".to_string(), "cycle-not-catchable".to_string(), format!("{:?}", other))),
            }
        }
    }
    (n, bad)
}

/// greedy shrink of a tree while `pred` (the same path fails the same way) holds
fn shrink(d: &Value, pred: &dyn Fn(&Value) -> bool) -> Value {
    let mut cur = d.clone();
    let mut budget = 300;
    loop {
        let mut progressed = false;
        for cand in shrink_candidates(&cur) {
            if budget == 0 {
                return cur;
            }
            budget -= 1;
            if pred(&cand) {
                cur = cand;
                progressed = true;
                break;
            }
        }
        if !progressed {
            return cur;
        }
    }
}

fn shrink_candidates(v: &Value) -> Vec<Value> {
    let mut out = Vec::new();
    match v {
        Value::Array(a) => {
            for x in a {
                out.push(x.clone());
            }
            for i in 0..a.len() {
                let mut b = a.clone();
                b.remove(i);
                out.push(Value::Array(b));
            }
            for i in 0..a.len() {
                for c in shrink_candidates(&a[i]) {
                    let mut b = a.clone();
                    b[i] = c;
                    out.push(Value::Array(b));
                }
            }
        }
        Value::Object(m) => {
            for (_, x) in m {
                out.push(x.clone());
            }
            for k in m.keys() {
                let mut b = m.clone();
                b.remove(k);
                out.push(Value::Object(b));
            }
            for (k, x) in m {
                for c in shrink_candidates(x) {
                    let mut b = m.clone();
                    b.insert(k.clone(), c);
                    out.push(Value::Object(b));
                }
                if k != "a" && !m.contains_key("a") {
                    let mut b = Map::new();
                    for (k2, x2) in m {
                        b.insert(if k2 == k { "a".to_string() } else { k2.clone() }, x2.clone());
                    }
                    out.push(Value::Object(b));
                }
            }
        }
        Value::String(s) if s.chars().count() > 1 => {
            out.push(json!("a"));
            for (i, _) in s.char_indices() {
                let mut t = s.clone();
                let c = t.remove(i);
                let _ = c;
                out.push(Value::String(t));
                if out.len() > 40 {
                    break;
                }
            }
        }
        Value::String(s) if s != "a" => out.push(json!("a")),
        Value::Number(n) if n.as_f64() != Some(0.0) => {
            out.push(json!(0));
            out.push(json!(1));
        }
        _ => {}
    }
    out
}

fn judge_cases(r: &mut UnitResult, cases: &[Case], random: bool) {
    // run in a forked child; emit one record per case
    let lim = Limits { wall: std::time::Duration::from_secs(400), address_space: 6 << 30, stack: 0 };
    let todo: Vec<Case> = cases.to_vec();
    let exit = isolate::run(&lim, move || {
        for (i, c) in todo.iter().enumerate() {
            isolate::emit(&format!("S{}\u{3}", i));
            let (n, mut bad) = evaluate(c);
            if random && !bad.is_empty() {
                // shrink per failing (path, kind) and report the shrunk document
                if let Doc::Tree(d) = &c.doc {
                    let mut shrunk_bad = Vec::new();
                    for (p, k, _) in bad.iter() {
                        let (p0, k0) = (p.clone(), k.clone());
                        let pred = |cand: &Value| {
                            let cc = Case { id: String::new(), doc: Doc::Tree(cand.clone()), deep: false };
                            evaluate(&cc).1.iter().any(|(p2, k2, _)| *p2 == p0 && *k2 == k0)
                        };
                        let s = shrink(d, &pred);
                        let cc = Case { id: String::new(), doc: Doc::Tree(s.clone()), deep: false };
                        let detail = evaluate(&cc).1.into_iter().find(|(p2, k2, _)| p2 == p && k2 == k).map(|x| x.2).unwrap_or_default();
                        shrunk_bad.push((p.clone(), k.clone(), format!("shrunk document {} :: {}", truncate(&s.to_string(), 200), detail)));
                    }
                    bad = shrunk_bad;
                }
            }
            let rec = json!({"n": n, "bad": bad});
            isolate::emit(&format!("R{}\u{2}{}\u{3}", i, rec));
        }
        String::new()
    });
    let (text, death) = match exit {
        Exit::Ok(t) => (t, None),
        Exit::Status(c, t) => {
            let d = if t.contains("\u{1}PANIC") { format!("panic: {}", truncate(t.split("\u{1}PANIC ").nth(1).unwrap_or(""), 140)) } else { format!("exit status {}", c) };
            (t, Some(d))
        }
        Exit::Signal(s, t) => (t, Some(isolate::signal_name(s).to_string())),
        Exit::Timeout(t) => (t, Some("timeout".to_string())),
    };
    let mut started: Option<usize> = None;
    let mut done = vec![false; cases.len()];
    for rec in text.split('\u{3}') {
        if let Some(x) = rec.strip_prefix('S') {
            started = x.parse().ok();
        } else if let Some(x) = rec.strip_prefix('R') {
            let Some((i, js)) = x.split_once('\u{2}') else { continue };
            let Ok(i) = i.parse::<usize>() else { continue };
            let Ok(v) = serde_json::from_str::<Value>(js) else { continue };
            if i >= cases.len() {
                continue;
            }
            done[i] = true;
            started = None;
            r.evaluations += 1;
            let n = v["n"].as_u64().unwrap_or(0);
            if n > 0 {
                r.nontrivial += 1;
            }
            r.stat("paths_exercised", n as i64);
            for b in v["bad"].as_array().cloned().unwrap_or_default() {
                let (p, k, d) = (b[0].as_str().unwrap_or(""), b[1].as_str().unwrap_or(""), b[2].as_str().unwrap_or(""));
                let feature = if random {
                    // signature on the shrunk document
                    let doc = d.split(" :: ").next().unwrap_or("");
                    format!("shrunk:{}", hash_hex(doc))
                } else {
                    case_feature(&cases[i].id)
                };
                r.violate(format!("{}|{}|{}", p, k, feature), format!("{} via {}: {}: {}", cases[i].id, p, k, d), json!({"id": cases[i].id}));
            }
        }
    }
    if let Some(d) = death {
        let culprit = started.unwrap_or_else(|| done.iter().position(|x| !*x).unwrap_or(0));
        if culprit < cases.len() {
            r.evaluations += 1;
            if d == "timeout" {
                r.inconclusive += 1;
                r.note(format!("{}: wall-clock watchdog", cases[culprit].id));
            } else {
                r.nontrivial += 1;
                r.violate(
                    format!("crash|{}|{}", if d.starts_with("SIG") { d.as_str() } else { "panic" }, case_feature(&cases[culprit].id)),
                    format!("{}: the process did not survive ({})", cases[culprit].id, d),
                    json!({"id": cases[culprit].id}),
                );
            }
            if culprit + 1 < cases.len() {
                judge_cases(r, &cases[culprit + 1..], random);
            }
        }
    }
}

/// the feature class of an enumerated case id: the id itself for keys / structures; the family for bulk palettes
fn case_feature(id: &str) -> String {
    id.to_string()
}

const PER_UNIT: usize = 60;

impl Check for C16 {
    fn units(&self, ctx: &Ctx) -> usize {
        enumerated_cases().len().div_ceil(PER_UNIT) + if ctx.thorough() { (R_SHARDS * 8) as usize } else { 8 }
    }

    fn run_unit(&self, ctx: &Ctx, idx: usize) -> UnitResult {
        let mut r = UnitResult::default();
        let all = enumerated_cases();
        let ne = all.len().div_ceil(PER_UNIT);
        if idx < ne {
            // strided so that the expensive deep cases spread over units
            let mine: Vec<Case> = all.into_iter().enumerate().filter(|(i, _)| i % ne == idx).map(|(_, c)| c).collect();
            judge_cases(&mut r, &mine, false);
            if let Some(c) = mine.iter().find(|c| !c.deep) {
                let doc = match &c.doc {
                    Doc::Text(t) => truncate(t, 300),
                    Doc::Tree(v) => truncate(&v.to_string(), 300),
                    Doc::Graph(g) => truncate(&g.js_literal(), 300),
                    Doc::Cycle(sx) => truncate(sx, 300),
                };
                r.sample(json!({"case": c.id, "document": doc, "paths": ["parse+read", "roundtrip", "roundtrip-indent2", "roundtrip-indent-tab", "export", "c-api", "host->json", "host->script-stringify", "host->script-identity", "host->script-read", "literal->host", "literal->stringify", "literal->read"]}));
            }
        } else {
            let k = (idx - ne) as u64;
            let (shard, unit) = if ctx.thorough() { (k / 8, k % 8) } else { (ctx.seed % R_SHARDS, k) };
            let cases = random_cases(shard, unit);
            judge_cases(&mut r, &cases, true);
            let first = cases.first().map(|c| match &c.doc { Doc::Tree(v) => truncate(&v.to_string(), 300), _ => String::new() }).unwrap_or_default();
            r.sample(json!({"random_shard": shard, "unit": unit, "documents": cases.len(), "first_document": first}));
        }
        r
    }

    fn replay(&self, _ctx: &Ctx, case: &Value) -> UnitResult {
        let mut r = UnitResult::default();
        let id = case["id"].as_str().unwrap_or("");
        let cases: Vec<Case> = if let Some(rest) = id.strip_prefix("random/") {
            let p: Vec<u64> = rest.split('/').filter_map(|x| x.parse().ok()).collect();
            random_cases(p.first().copied().unwrap_or(0), p.get(1).copied().unwrap_or(0)).into_iter().filter(|c| c.id == id).collect()
        } else {
            enumerated_cases().into_iter().filter(|c| c.id == id).collect()
        };
        let random = id.starts_with("random/");
        judge_cases(&mut r, &cases, random);
        r
    }
}
