//! C06 — the host keeps control: bounded steps, no script can abort the process.
//!
//! Every program runs in a forked child (8 MiB main-thread stack, RLIMIT_AS 4 GiB) under a
//! host loop that behaves like a careful embedder: it counts steps, reads call_depth()
//! before every step and stops the script when either budget is exceeded. Oracles:
//!
//!  * H3 counter: VM instructions executed inside ONE host-visible step() (> B is a
//!    violation: the step ran script code to completion instead of returning);
//!  * H3 re-entry sites: native functions through which the VM was re-entered;
//!  * process exit status (SIGSEGV = native stack overflow, SIGABRT = abort / allocation
//!    failure, panic);
//!  * an in-child watchdog thread that decides on the instruction counter, not on time
//!    (a step that has executed > 5e7 instructions without returning).
//!
//! Workloads: every call path x {control, long loop in the callee, unbounded recursion
//! through the path, deep-but-finite recursion through the path}; size arguments up to
//! 2^53 into every length/count-taking built-in; deeply nested data through recursive
//! built-ins.

use crate::isolate::{self, Exit, Limits};
use crate::runner;
use crate::util::*;
use serde_json::{Value, json};
use std::cell::RefCell;
use std::rc::Rc;
use std::sync::atomic::{AtomicU64, Ordering};
use tsrun::StepResult;

pub struct C06;

/// instructions one host-visible step may execute (the VM executes one per step; natives
/// that do not call back into script execute none)
const B: u64 = 10_000;
const LOOP_ITERS: u64 = 200_000;
const HOST_DEPTH_BUDGET: usize = 500;

static STEP_BASE: AtomicU64 = AtomicU64::new(u64::MAX);

// ───────────────────────────── call paths ─────────────────────────────

/// (name, declaration of `via(n)` which invokes `cb(n)` through the path and returns its result)
const PATHS: &[(&str, &str)] = &[
    ("plain-call", "function via(n){ return cb(n); }"),
    ("function-expression", "var viaf = function(n){ return cb(n); }; function via(n){ return viaf(n); }"),
    ("arrow", "var viaa = (n) => cb(n); function via(n){ return viaa(n); }"),
    ("closure", "function mk(){ var k = 0; return function(n){ k++; return cb(n); }; } var viac = mk(); function via(n){ return viac(n); }"),
    ("method", "var om = { m(n){ return cb(n); } }; function via(n){ return om.m(n); }"),
    ("computed-method", "var oc = { ['m' + 1](n){ return cb(n); } }; function via(n){ return oc['m1'](n); }"),
    ("class-method", "class CMv { m(n){ return cb(n); } } var cmv = new CMv(); function via(n){ return cmv.m(n); }"),
    ("static-method", "class CSv { static m(n){ return cb(n); } } function via(n){ return CSv.m(n); }"),
    ("constructor-function", "function Kf(n){ this.v = cb(n); } function via(n){ return new Kf(n).v; }"),
    ("class-constructor", "class Kc { constructor(n){ this.v = cb(n); } } function via(n){ return new Kc(n).v; }"),
    ("derived-constructor", "class Kb { constructor(n){ this.v = cb(n); } } class Kd extends Kb { constructor(n){ super(n); } } function via(n){ return new Kd(n).v; }"),
    ("super-method", "class Sb { m(n){ return cb(n); } } class Sd extends Sb { m(n){ return super.m(n); } } var sd = new Sd(); function via(n){ return sd.m(n); }"),
    ("field-initializer", "var fiN = 0; class Fi { f = cb(fiN); } function via(n){ fiN = n; return new Fi().f; }"),
    ("bound-function", "var viab = (function(n){ return cb(n); }).bind(null); function via(n){ return viab(n); }"),
    ("bound-with-args", "var viab2 = (function(a, n){ return cb(n); }).bind(null, 1); function via(n){ return viab2(n); }"),
    ("function-call", "function via(n){ return cb.call(null, n); }"),
    ("function-apply", "function via(n){ return cb.apply(null, [n]); }"),
    ("reflect-apply", "function via(n){ return Reflect.apply(cb, null, [n]); }"),
    ("reflect-construct", "function Rk(n){ this.v = cb(n); } function via(n){ return Reflect.construct(Rk, [n]).v; }"),
    ("getter", "var gN = 0; var og = { get g(){ return cb(gN); } }; function via(n){ gN = n; return og.g; }"),
    ("setter", "var sOut = 0; var os = { set s(n){ sOut = cb(n); } }; function via(n){ os.s = n; return sOut; }"),
    ("class-getter", "var cgN = 0; class Cg { get g(){ return cb(cgN); } } var cg = new Cg(); function via(n){ cgN = n; return cg.g; }"),
    ("define-property-getter", "var dgN = 0; var dg = {}; Object.defineProperty(dg, 'g', { get: function(){ return cb(dgN); } }); function via(n){ dgN = n; return dg.g; }"),
    ("valueOf-coercion", "var vN = 0; var ov = { valueOf(){ return cb(vN); } }; function via(n){ vN = n; return +ov; }"),
    ("valueOf-arithmetic", "var v2N = 0; var ov2 = { valueOf(){ return cb(v2N); } }; function via(n){ v2N = n; return ov2 * 1; }"),
    ("toString-coercion", "var tN = 0; var ot = { toString(){ return '' + cb(tN); } }; function via(n){ tN = n; return Number('' + ot); }"),
    ("toString-template", "var t2N = 0; var ot2 = { toString(){ return '' + cb(t2N); } }; function via(n){ t2N = n; return Number(`${ot2}`); }"),
    ("toPrimitive", "var pN = 0; var op = { [Symbol.toPrimitive](h){ return cb(pN); } }; function via(n){ pN = n; return op - 0; }"),
    ("toString-property-key", "var kN = 0; var kout = 0; var ok = { toString(){ kout = cb(kN); return 'k'; } }; function via(n){ kN = n; var t = {}; t[ok] = 1; return kout; }"),
    ("proxy-get", "var pgN = 0; var pg = new Proxy({}, { get(t, k){ return cb(pgN); } }); function via(n){ pgN = n; return pg.x; }"),
    ("proxy-set", "var psOut = 0; var ps = new Proxy({}, { set(t, k, v){ psOut = cb(v); return true; } }); function via(n){ ps.x = n; return psOut; }"),
    ("proxy-has", "var phN = 0; var phOut = 0; var ph = new Proxy({}, { has(t, k){ phOut = cb(phN); return true; } }); function via(n){ phN = n; 'x' in ph; return phOut; }"),
    ("proxy-apply", "var pa = new Proxy(function(){}, { apply(t, th, args){ return cb(args[0]); } }); function via(n){ return pa(n); }"),
    ("proxy-construct", "var pc = new Proxy(function(){}, { construct(t, args){ return { v: cb(args[0]) }; } }); function via(n){ return new pc(n).v; }"),
    ("proxy-ownKeys", "var poN = 0; var poOut = 0; var po = new Proxy({}, { ownKeys(t){ poOut = cb(poN); return []; } }); function via(n){ poN = n; Object.keys(po); return poOut; }"),
    ("array-forEach", "function via(n){ var out; [n].forEach(function(x){ out = cb(x); }); return out; }"),
    ("array-map", "function via(n){ return [n].map(function(x){ return cb(x); })[0]; }"),
    ("array-filter", "function via(n){ var out; [n].filter(function(x){ out = cb(x); return true; }); return out; }"),
    ("array-reduce", "function via(n){ return [n].reduce(function(a, x){ return cb(x); }, 0); }"),
    ("array-reduceRight", "function via(n){ return [n].reduceRight(function(a, x){ return cb(x); }, 0); }"),
    ("array-find", "function via(n){ var out; [n].find(function(x){ out = cb(x); return true; }); return out; }"),
    ("array-findIndex", "function via(n){ var out; [n].findIndex(function(x){ out = cb(x); return true; }); return out; }"),
    ("array-some", "function via(n){ var out; [n].some(function(x){ out = cb(x); return true; }); return out; }"),
    ("array-every", "function via(n){ var out; [n].every(function(x){ out = cb(x); return true; }); return out; }"),
    ("array-flatMap", "function via(n){ return [n].flatMap(function(x){ return [cb(x)]; })[0]; }"),
    ("array-sort", "function via(n){ var out; [n, n].sort(function(a, b){ out = cb(a); return 0; }); return out; }"),
    ("array-from-mapfn", "function via(n){ return Array.from([n], function(x){ return cb(x); })[0]; }"),
    ("array-from-iterable", "function via(n){ var it = { [Symbol.iterator](){ var d = false; return { next(){ if (d) { return { done: true, value: undefined }; } d = true; return { done: false, value: cb(n) }; } }; } }; return Array.from(it)[0]; }"),
    ("string-replace-fn", "function via(n){ var out; 'a'.replace('a', function(m){ out = cb(n); return 'b'; }); return out; }"),
    ("string-replace-regex-fn", "function via(n){ var out; 'a'.replace(/a/g, function(m){ out = cb(n); return 'b'; }); return out; }"),
    ("string-replaceAll-fn", "function via(n){ var out; 'a'.replaceAll('a', function(m){ out = cb(n); return 'b'; }); return out; }"),
    ("json-parse-reviver", "function via(n){ var out; JSON.parse('[1]', function(k, v){ if (k === '0') { out = cb(n); } return v; }); return out; }"),
    ("json-stringify-replacer", "function via(n){ var out; JSON.stringify({a: 1}, function(k, v){ if (k === 'a') { out = cb(n); } return v; }); return out; }"),
    ("json-toJSON", "function via(n){ var out; JSON.stringify({ toJSON(){ out = cb(n); return 1; } }); return out; }"),
    ("map-forEach", "function via(n){ var out; new Map([[1, n]]).forEach(function(v){ out = cb(v); }); return out; }"),
    ("set-forEach", "function via(n){ var out; new Set([n]).forEach(function(v){ out = cb(v); }); return out; }"),
    ("promise-executor", "function via(n){ var out; new Promise(function(res){ out = cb(n); res(1); }); return out; }"),
    ("promise-then", "function via(n){ var out; Promise.resolve(n).then(function(v){ out = cb(v); }); return out; }"),
    ("tagged-template", "function tagf(s, v){ return cb(v); } function via(n){ return tagf`a${n}b`; }"),
    ("for-of-custom-iterator", "function via(n){ var it = { [Symbol.iterator](){ var d = false; return { next(){ if (d) { return { done: true, value: undefined }; } d = true; return { done: false, value: cb(n) }; } }; } }; var out; for (var x of it) { out = x; } return out; }"),
    ("spread-custom-iterator", "function via(n){ var it = { [Symbol.iterator](){ var d = false; return { next(){ if (d) { return { done: true, value: undefined }; } d = true; return { done: false, value: cb(n) }; } }; } }; return [...it][0]; }"),
    ("destructure-custom-iterator", "function via(n){ var it = { [Symbol.iterator](){ var d = false; return { next(){ if (d) { return { done: true, value: undefined }; } d = true; return { done: false, value: cb(n) }; } }; } }; var [x] = it; return x; }"),
    ("generator-next", "function* gen(n){ yield cb(n); } function via(n){ return gen(n).next().value; }"),
    ("generator-for-of", "function* gen2(n){ yield cb(n); } function via(n){ var out; for (var x of gen2(n)) { out = x; } return out; }"),
    ("generator-spread", "function* gen3(n){ yield cb(n); } function via(n){ return [...gen3(n)][0]; }"),
    ("yield-star", "function* inner(n){ yield cb(n); } function* outer(n){ yield* inner(n); } function via(n){ return outer(n).next().value; }"),
    ("default-parameter", "function dp(n, v = cb(n)){ return v; } function via(n){ return dp(n); }"),
    ("destructuring-default", "function via(n){ var { v = cb(n) } = {}; return v; }"),
    ("computed-key", "function via(n){ var out; var o = { [(out = cb(n), 'k')]: 1 }; return out; }"),
    ("instanceof-hasInstance", "var hiN = 0; var hiOut = 0; var hi = { [Symbol.hasInstance](x){ hiOut = cb(hiN); return true; } }; function via(n){ hiN = n; ({}) instanceof hi; return hiOut; }"),
    ("optional-call", "function via(n){ return cb?.(n); }"),
    ("callback-in-object-assign-getter", "function via(n){ var src = { get g(){ return cb(n); } }; return Object.assign({}, src).g; }"),
    ("object-entries-getter", "function via(n){ var src = { get g(){ return cb(n); } }; return Object.entries(src)[0][1]; }"),
    ("spread-getter", "function via(n){ var src = { get g(){ return cb(n); } }; return ({ ...src }).g; }"),
    ("array-join-toString", "function via(n){ var out; [{ toString(){ out = cb(n); return 's'; } }].join(','); return out; }"),
    ("string-concat-method", "function via(n){ var out; 'a'.concat({ toString(){ out = cb(n); return 's'; } }); return out; }"),
    ("async-function", "async function af(n){ return cb(n); } function via(n){ var out; af(n).then(function(v){ out = v; }); return out; }"),
    ("async-arrow-await", "var aw = async (n) => { var v = await cb(n); return v; }; function via(n){ var out; aw(n).then(function(v){ out = v; }); return out; }"),
];

fn body(variant: &str, deep: usize) -> String {
    match variant {
        "control" => "var r = n + 1;".to_string(),
        "loop" => format!("for (var i = 0; i < {}; i++) {{ }} var r = n + 1;", LOOP_ITERS),
        "rec" => "var r = via(n + 1);".to_string(),
        "deep" => format!("var r = n >= {} ? n : via(n + 1);", deep),
        _ => unreachable!(),
    }
}

fn path_program(path: usize, variant: &str, deep: usize) -> String {
    format!("function cb(n){{ {} return r; }}\n{}\nvia(0)", body(variant, deep), PATHS[path].1)
}

// ───────────────────────────── plain non-terminating programs ─────────────────────────────

const ENDLESS: &[(&str, &str)] = &[
    ("for-ever", "for (;;) { }"),
    ("while-true", "var i = 0; while (true) { i++; }"),
    ("do-while", "var i = 0; do { i++; } while (i > 0);"),
    ("loop-in-function", "function f(){ while (true) { } } f();"),
    ("loop-in-method", "var o = { m(){ for (;;) { } } }; o.m();"),
    ("loop-in-constructor", "class K { constructor(){ for (;;) { } } } new K();"),
    ("loop-in-generator", "function* g(){ for (;;) { yield 1; } } var it = g(); for (;;) { it.next(); }"),
    ("loop-allocating", "var a = []; for (;;) { a = [a.length]; }"),
    ("loop-string-growth-bounded", "var s = ''; for (;;) { s = s.length > 100 ? '' : s + 'x'; }"),
    ("loop-try-finally", "for (;;) { try { continue; } finally { } }"),
    ("loop-labeled", "a: for (;;) { b: for (;;) { continue a; } }"),
    ("mutual-recursion", "function a(n){ return b(n + 1); } function b(n){ return a(n + 1); } a(0);"),
    ("recursion-no-tail", "function f(n){ return 1 + f(n + 1); } f(0);"),
    ("recursion-in-try", "function f(n){ try { return f(n + 1); } finally { } } f(0);"),
    ("recursion-through-closure", "function f(n){ return (function(){ return f(n + 1); })(); } f(0);"),
    ("async-loop", "async function f(){ for (;;) { await 1; } } f();"),
    ("promise-chain-loop", "function f(){ return Promise.resolve().then(f); } f();"),
    // every way of writing a loop that does nothing (16) in every kind of frame (8): the
    // bytecode of an empty loop is a cycle of jumps, the shortest path around the step counter
    ("tight.for-empty.top", "for (;;);"),
    ("tight.for-empty.fn", "function f(){ for (;;); } f();"),
    ("tight.for-empty.arrow", "(() => { for (;;); })();"),
    ("tight.for-empty.method", "class K { m(){ for (;;); } } new K().m();"),
    ("tight.for-empty.generator", "function* g(){ for (;;); yield 1; } g().next();"),
    ("tight.for-empty.async", "async function f(){ for (;;); } f();"),
    ("tight.for-empty.getter", "var o = { get g(){ for (;;); return 1; } }; o.g;"),
    ("tight.for-empty.callback", "[1].forEach(function(){ for (;;); });"),
    ("tight.for-empty-block.top", "for (;;) {}"),
    ("tight.for-empty-block.fn", "function f(){ for (;;) {} } f();"),
    ("tight.for-empty-block.arrow", "(() => { for (;;) {} })();"),
    ("tight.for-empty-block.method", "class K { m(){ for (;;) {} } } new K().m();"),
    ("tight.for-empty-block.generator", "function* g(){ for (;;) {} yield 1; } g().next();"),
    ("tight.for-empty-block.async", "async function f(){ for (;;) {} } f();"),
    ("tight.for-empty-block.getter", "var o = { get g(){ for (;;) {} return 1; } }; o.g;"),
    ("tight.for-empty-block.callback", "[1].forEach(function(){ for (;;) {} });"),
    ("tight.for-continue.top", "for (;;) continue;"),
    ("tight.for-continue.fn", "function f(){ for (;;) continue; } f();"),
    ("tight.for-continue.arrow", "(() => { for (;;) continue; })();"),
    ("tight.for-continue.method", "class K { m(){ for (;;) continue; } } new K().m();"),
    ("tight.for-continue.generator", "function* g(){ for (;;) continue; yield 1; } g().next();"),
    ("tight.for-continue.async", "async function f(){ for (;;) continue; } f();"),
    ("tight.for-continue.getter", "var o = { get g(){ for (;;) continue; return 1; } }; o.g;"),
    ("tight.for-continue.callback", "[1].forEach(function(){ for (;;) continue; });"),
    ("tight.for-true-empty.top", "for (;true;);"),
    ("tight.for-true-empty.fn", "function f(){ for (;true;); } f();"),
    ("tight.for-true-empty.arrow", "(() => { for (;true;); })();"),
    ("tight.for-true-empty.method", "class K { m(){ for (;true;); } } new K().m();"),
    ("tight.for-true-empty.generator", "function* g(){ for (;true;); yield 1; } g().next();"),
    ("tight.for-true-empty.async", "async function f(){ for (;true;); } f();"),
    ("tight.for-true-empty.getter", "var o = { get g(){ for (;true;); return 1; } }; o.g;"),
    ("tight.for-true-empty.callback", "[1].forEach(function(){ for (;true;); });"),
    ("tight.for-init-empty.top", "for (var q = 0;;);"),
    ("tight.for-init-empty.fn", "function f(){ for (var q = 0;;); } f();"),
    ("tight.for-init-empty.arrow", "(() => { for (var q = 0;;); })();"),
    ("tight.for-init-empty.method", "class K { m(){ for (var q = 0;;); } } new K().m();"),
    ("tight.for-init-empty.generator", "function* g(){ for (var q = 0;;); yield 1; } g().next();"),
    ("tight.for-init-empty.async", "async function f(){ for (var q = 0;;); } f();"),
    ("tight.for-init-empty.getter", "var o = { get g(){ for (var q = 0;;); return 1; } }; o.g;"),
    ("tight.for-init-empty.callback", "[1].forEach(function(){ for (var q = 0;;); });"),
    ("tight.for-update-only.top", "var u = 0; for (;;u++);"),
    ("tight.for-update-only.fn", "function f(){ var u = 0; for (;;u++); } f();"),
    ("tight.for-update-only.arrow", "(() => { var u = 0; for (;;u++); })();"),
    ("tight.for-update-only.method", "class K { m(){ var u = 0; for (;;u++); } } new K().m();"),
    ("tight.for-update-only.generator", "function* g(){ var u = 0; for (;;u++); yield 1; } g().next();"),
    ("tight.for-update-only.async", "async function f(){ var u = 0; for (;;u++); } f();"),
    ("tight.for-update-only.getter", "var o = { get g(){ var u = 0; for (;;u++); return 1; } }; o.g;"),
    ("tight.for-update-only.callback", "[1].forEach(function(){ var u = 0; for (;;u++); });"),
    ("tight.while-empty.top", "while (true);"),
    ("tight.while-empty.fn", "function f(){ while (true); } f();"),
    ("tight.while-empty.arrow", "(() => { while (true); })();"),
    ("tight.while-empty.method", "class K { m(){ while (true); } } new K().m();"),
    ("tight.while-empty.generator", "function* g(){ while (true); yield 1; } g().next();"),
    ("tight.while-empty.async", "async function f(){ while (true); } f();"),
    ("tight.while-empty.getter", "var o = { get g(){ while (true); return 1; } }; o.g;"),
    ("tight.while-empty.callback", "[1].forEach(function(){ while (true); });"),
    ("tight.while-one-block.top", "while (1) {}"),
    ("tight.while-one-block.fn", "function f(){ while (1) {} } f();"),
    ("tight.while-one-block.arrow", "(() => { while (1) {} })();"),
    ("tight.while-one-block.method", "class K { m(){ while (1) {} } } new K().m();"),
    ("tight.while-one-block.generator", "function* g(){ while (1) {} yield 1; } g().next();"),
    ("tight.while-one-block.async", "async function f(){ while (1) {} } f();"),
    ("tight.while-one-block.getter", "var o = { get g(){ while (1) {} return 1; } }; o.g;"),
    ("tight.while-one-block.callback", "[1].forEach(function(){ while (1) {} });"),
    ("tight.while-continue.top", "while (true) { continue; }"),
    ("tight.while-continue.fn", "function f(){ while (true) { continue; } } f();"),
    ("tight.while-continue.arrow", "(() => { while (true) { continue; } })();"),
    ("tight.while-continue.method", "class K { m(){ while (true) { continue; } } } new K().m();"),
    ("tight.while-continue.generator", "function* g(){ while (true) { continue; } yield 1; } g().next();"),
    ("tight.while-continue.async", "async function f(){ while (true) { continue; } } f();"),
    ("tight.while-continue.getter", "var o = { get g(){ while (true) { continue; } return 1; } }; o.g;"),
    ("tight.while-continue.callback", "[1].forEach(function(){ while (true) { continue; } });"),
    ("tight.do-empty.top", "do ; while (true);"),
    ("tight.do-empty.fn", "function f(){ do ; while (true); } f();"),
    ("tight.do-empty.arrow", "(() => { do ; while (true); })();"),
    ("tight.do-empty.method", "class K { m(){ do ; while (true); } } new K().m();"),
    ("tight.do-empty.generator", "function* g(){ do ; while (true); yield 1; } g().next();"),
    ("tight.do-empty.async", "async function f(){ do ; while (true); } f();"),
    ("tight.do-empty.getter", "var o = { get g(){ do ; while (true); return 1; } }; o.g;"),
    ("tight.do-empty.callback", "[1].forEach(function(){ do ; while (true); });"),
    ("tight.do-block.top", "do {} while (true);"),
    ("tight.do-block.fn", "function f(){ do {} while (true); } f();"),
    ("tight.do-block.arrow", "(() => { do {} while (true); })();"),
    ("tight.do-block.method", "class K { m(){ do {} while (true); } } new K().m();"),
    ("tight.do-block.generator", "function* g(){ do {} while (true); yield 1; } g().next();"),
    ("tight.do-block.async", "async function f(){ do {} while (true); } f();"),
    ("tight.do-block.getter", "var o = { get g(){ do {} while (true); return 1; } }; o.g;"),
    ("tight.do-block.callback", "[1].forEach(function(){ do {} while (true); });"),
    ("tight.labeled-continue.top", "a: for (;;) continue a;"),
    ("tight.labeled-continue.fn", "function f(){ a: for (;;) continue a; } f();"),
    ("tight.labeled-continue.arrow", "(() => { a: for (;;) continue a; })();"),
    ("tight.labeled-continue.method", "class K { m(){ a: for (;;) continue a; } } new K().m();"),
    ("tight.labeled-continue.generator", "function* g(){ a: for (;;) continue a; yield 1; } g().next();"),
    ("tight.labeled-continue.async", "async function f(){ a: for (;;) continue a; } f();"),
    ("tight.labeled-continue.getter", "var o = { get g(){ a: for (;;) continue a; return 1; } }; o.g;"),
    ("tight.labeled-continue.callback", "[1].forEach(function(){ a: for (;;) continue a; });"),
    ("tight.nested-empty.top", "for (;;) for (;;);"),
    ("tight.nested-empty.fn", "function f(){ for (;;) for (;;); } f();"),
    ("tight.nested-empty.arrow", "(() => { for (;;) for (;;); })();"),
    ("tight.nested-empty.method", "class K { m(){ for (;;) for (;;); } } new K().m();"),
    ("tight.nested-empty.generator", "function* g(){ for (;;) for (;;); yield 1; } g().next();"),
    ("tight.nested-empty.async", "async function f(){ for (;;) for (;;); } f();"),
    ("tight.nested-empty.getter", "var o = { get g(){ for (;;) for (;;); return 1; } }; o.g;"),
    ("tight.nested-empty.callback", "[1].forEach(function(){ for (;;) for (;;); });"),
    ("tight.if-in-loop.top", "var z = 0; for (;;) { if (z) continue; }"),
    ("tight.if-in-loop.fn", "function f(){ var z = 0; for (;;) { if (z) continue; } } f();"),
    ("tight.if-in-loop.arrow", "(() => { var z = 0; for (;;) { if (z) continue; } })();"),
    ("tight.if-in-loop.method", "class K { m(){ var z = 0; for (;;) { if (z) continue; } } } new K().m();"),
    ("tight.if-in-loop.generator", "function* g(){ var z = 0; for (;;) { if (z) continue; } yield 1; } g().next();"),
    ("tight.if-in-loop.async", "async function f(){ var z = 0; for (;;) { if (z) continue; } } f();"),
    ("tight.if-in-loop.getter", "var o = { get g(){ var z = 0; for (;;) { if (z) continue; } return 1; } }; o.g;"),
    ("tight.if-in-loop.callback", "[1].forEach(function(){ var z = 0; for (;;) { if (z) continue; } });"),
    ("tight.try-finally-empty.top", "for (;;) try {} finally {}"),
    ("tight.try-finally-empty.fn", "function f(){ for (;;) try {} finally {} } f();"),
    ("tight.try-finally-empty.arrow", "(() => { for (;;) try {} finally {} })();"),
    ("tight.try-finally-empty.method", "class K { m(){ for (;;) try {} finally {} } } new K().m();"),
    ("tight.try-finally-empty.generator", "function* g(){ for (;;) try {} finally {} yield 1; } g().next();"),
    ("tight.try-finally-empty.async", "async function f(){ for (;;) try {} finally {} } f();"),
    ("tight.try-finally-empty.getter", "var o = { get g(){ for (;;) try {} finally {} return 1; } }; o.g;"),
    ("tight.try-finally-empty.callback", "[1].forEach(function(){ for (;;) try {} finally {} });"),
    ("tight.switch-in-loop.top", "for (;;) { switch (0) { default: continue; } }"),
    ("tight.switch-in-loop.fn", "function f(){ for (;;) { switch (0) { default: continue; } } } f();"),
    ("tight.switch-in-loop.arrow", "(() => { for (;;) { switch (0) { default: continue; } } })();"),
    ("tight.switch-in-loop.method", "class K { m(){ for (;;) { switch (0) { default: continue; } } } } new K().m();"),
    ("tight.switch-in-loop.generator", "function* g(){ for (;;) { switch (0) { default: continue; } } yield 1; } g().next();"),
    ("tight.switch-in-loop.async", "async function f(){ for (;;) { switch (0) { default: continue; } } } f();"),
    ("tight.switch-in-loop.getter", "var o = { get g(){ for (;;) { switch (0) { default: continue; } } return 1; } }; o.g;"),
    ("tight.switch-in-loop.callback", "[1].forEach(function(){ for (;;) { switch (0) { default: continue; } } });"),
];

// ───────────────────────────── size arguments ─────────────────────────────

const SIZES: &[&str] = &[
    "0", "1", "65536", "16777216", "2147483647", "2147483648", "4294967295", "4294967296", "9007199254740991", "1e10", "NaN", "-1", "1.5", "Infinity", "-Infinity",
];

/// (name, expression in N)
const SIZED: &[(&str, &str)] = &[
    ("new-Array", "new Array($N)"),
    ("Array-call", "Array($N)"),
    ("length-assign", "(function(){ var a = []; a.length = $N; return a; })()"),
    ("length-assign-shrink-grow", "(function(){ var a = [1, 2, 3]; a.length = 1; a.length = $N; return a; })()"),
    ("index-assign", "(function(){ var a = []; a[$N] = 1; return a.length; })()"),
    ("Array-fill", "new Array($N).fill(0)"),
    ("fill-range", "[1, 2, 3].fill(0, 0, $N)"),
    ("Array-from-length", "Array.from({ length: $N })"),
    ("Array-from-length-mapfn", "Array.from({ length: $N }, function(x, i){ return i; })"),
    ("Array-join", "new Array($N).join('x')"),
    ("Array-toString", "String(new Array($N))"),
    ("Array-concat", "new Array($N).concat([1])"),
    ("concat-into", "[1].concat(new Array($N))"),
    ("Array-slice", "new Array($N).slice()"),
    ("slice-arg", "[1, 2, 3].slice(0, $N)"),
    ("splice-count", "[1, 2, 3].splice(0, $N)"),
    ("Array-reverse", "new Array($N).reverse()"),
    ("Array-indexOf", "new Array($N).indexOf(1)"),
    ("Array-includes", "new Array($N).includes(1)"),
    ("Array-map", "new Array($N).map(function(x){ return 1; })"),
    ("Array-spread", "[...new Array($N)]"),
    ("apply-array-like", "Math.max.apply(null, { length: $N })"),
    ("fromCharCode-apply", "String.fromCharCode.apply(null, new Array($N))"),
    ("Array-at", "[1, 2, 3].at($N)"),
    ("Array-flat-depth", "[[1, [2]]].flat($N)"),
    ("Array-copyWithin", "[1, 2, 3].copyWithin(0, 1, $N)"),
    ("Array-keys-spread", "[...new Array($N).keys()]"),
    ("Object-keys-array", "Object.keys(new Array($N))"),
    ("JSON-stringify-array", "JSON.stringify(new Array($N))"),
    ("Set-from-array", "new Set(new Array($N)).size"),
    ("string-repeat", "'x'.repeat($N)"),
    ("string-repeat-long", "'0123456789abcdef'.repeat($N)"),
    ("string-repeat-empty", "''.repeat($N)"),
    ("string-padStart", "'x'.padStart($N)"),
    ("string-padEnd", "'x'.padEnd($N, 'ab')"),
    ("string-padStart-empty-fill", "'x'.padStart($N, '')"),
    ("string-substring", "'abc'.substring(0, $N)"),
    ("string-substr", "'abc'.substr(0, $N)"),
    ("string-slice", "'abc'.slice(0, $N)"),
    ("string-at", "'abc'.at($N)"),
    ("string-charAt", "'abc'.charAt($N)"),
    ("string-charCodeAt", "'abc'.charCodeAt($N)"),
    ("string-codePointAt", "'abc'.codePointAt($N)"),
    ("string-split-limit", "'a,b,c'.split(',', $N)"),
    ("string-indexOf-pos", "'abc'.indexOf('c', $N)"),
    ("string-lastIndexOf-pos", "'abc'.lastIndexOf('c', $N)"),
    ("string-startsWith-pos", "'abc'.startsWith('c', $N)"),
    ("string-endsWith-pos", "'abc'.endsWith('c', $N)"),
    ("string-includes-pos", "'abc'.includes('c', $N)"),
    ("number-toFixed", "(1.5).toFixed($N)"),
    ("number-toPrecision", "(1.5).toPrecision($N)"),
    ("number-toExponential", "(1.5).toExponential($N)"),
    ("number-toString-radix", "(255).toString($N)"),
    ("parseInt-radix", "parseInt('11', $N)"),
    ("JSON-stringify-indent", "JSON.stringify({ a: [1] }, null, $N)"),
    ("Date-from-number", "new Date($N).getTime()"),
    ("Date-setters", "(function(){ var d = new Date(0); d.setUTCDate($N); return d.getTime(); })()"),
    ("fromCharCode", "String.fromCharCode($N)"),
    ("fromCodePoint", "String.fromCodePoint($N)"),
    ("Math-pow-shift", "(1 << $N) + (1 >>> $N) + Math.pow(2, $N)"),
    ("array-length-define", "(function(){ var a = []; Object.defineProperty(a, 'length', { value: $N }); return a.length; })()"),
    ("arraybuffer-like-typed", "typeof Uint8Array === 'function' ? new Uint8Array($N).length : 0"),
    ("string-localeCompare-normalize", "'abc'.normalize().length + $N"),
    ("array-lastIndexOf-from", "[1, 2, 3].lastIndexOf(3, $N)"),
    ("array-with-toSpliced", "typeof [].toSpliced === 'function' ? [1, 2, 3].toSpliced(0, $N).length : 0"),
];

/// built-ins taking two (or three) numeric arguments: every ordered pair of a 12-value palette
const PAIR_SIZES: &[&str] = &["0", "1", "2", "-1", "-2", "1.5", "2147483647", "2147483648", "4294967294", "4294967295", "4294967296", "9007199254740991", "Infinity", "-Infinity", "NaN"];

const SIZED2: &[(&str, &str)] = &[
    ("splice", "[1, 2, 3, 4].splice($A, $B)"),
    ("splice-insert", "[1, 2, 3, 4].splice($A, $B, 'x', 'y')"),
    ("toSpliced", "typeof [].toSpliced === 'function' ? [1, 2, 3, 4].toSpliced($A, $B, 'x') : 0"),
    ("slice", "[1, 2, 3, 4].slice($A, $B)"),
    ("fill", "[1, 2, 3, 4].fill(0, $A, $B)"),
    ("copyWithin", "[1, 2, 3, 4].copyWithin($A, $B)"),
    ("copyWithin-3", "[1, 2, 3, 4].copyWithin(1, $A, $B)"),
    ("indexOf-from", "[1, 2, 3, 4].indexOf($A, $B)"),
    ("lastIndexOf-from", "[1, 2, 3, 4].lastIndexOf($A, $B)"),
    ("includes-from", "[1, 2, 3, 4].includes($A, $B)"),
    ("with", "typeof [].with === 'function' ? [1, 2, 3, 4].with($A, $B) : 0"),
    ("flat-after-length", "(function(){ var a = [1, [2]]; a.length = Math.min(Math.max($A, 0) || 0, 100); return a.flat($B); })()"),
    ("str-substring", "'abcdef'.substring($A, $B)"),
    ("str-substr", "'abcdef'.substr($A, $B)"),
    ("str-slice", "'abcdef'.slice($A, $B)"),
    ("str-padStart-fill", "'ab'.padStart(Math.min($A, 100) || 0, String($B))"),
    ("str-indexOf", "'abcabc'.indexOf('c', $A) + 'abcabc'.lastIndexOf('c', $B)"),
    ("str-split-limit", "'a,b,c,d'.split(',', $A).length + $B"),
    ("str-at-codePoint", "String('abc'.at($A)) + 'abc'.codePointAt($B)"),
    ("str-startsWith-endsWith", "'abcdef'.startsWith('c', $A) + '' + 'abcdef'.endsWith('c', $B)"),
    ("str-repeat-small-times", "'ab'.repeat(Math.min(Math.max($A, 0) || 0, 50)).slice($B)"),
    ("num-toFixed-toPrecision", "(123.456).toFixed(Math.min(Math.max($A, 0) || 0, 20)) + (123.456).toString(Math.min(Math.max($B, 2) || 2, 36))"),
    ("array-from-length-slice", "Array.from({ length: Math.min(Math.max($A, 0) || 0, 50) }).slice($B).length"),
    ("array-length-then-splice", "(function(){ var a = [1, 2, 3]; a.length = Math.min(Math.max($A, 0) || 0, 50); return a.splice(1, $B).length; })()"),
    ("typed-subarray-like", "[1, 2, 3, 4].slice($A).concat([1, 2, 3, 4].slice(0, $B)).length"),
    ("date-utc", "new Date(Date.UTC(2000, $A, $B)).getTime()"),
    ("date-utc-year", "Date.UTC($A, $B, 1) + Date.UTC($A, 0, $B)"),
    ("date-ctor-components", "new Date($A, $B).getTime() + new Date(2000, $A, $B, $A, $B).getTime()"),
    ("date-setters", "(function(){ var d = new Date(0); d.setUTCFullYear($A); d.setUTCMonth($B); d.setUTCDate($A); d.setUTCHours($B); d.setUTCMinutes($A); d.setUTCSeconds($B); d.setUTCMilliseconds($A); d.setTime($B); return d.getTime(); })()"),
    ("date-getters-after-set", "(function(){ var d = new Date($A); return [d.getUTCFullYear(), d.getUTCMonth(), d.getUTCDay(), d.toISOString === undefined ? 0 : 1, String(d).length, d.getTimezoneOffset()].join() + new Date($B).toJSON; })()"),
    ("math-pow-shift", "Math.pow($A, $B) + ($A << $B) + ($A >>> $B) + ($A % $B)"),
    ("string-fromCharCode-2", "String.fromCharCode($A, $B).length"),
    ("array-reduce-init", "[1, 2, 3].reduce(function(a, b){ return a + b; }, $A) + $B"),
];

// ───────────────────────────── deep data through recursive built-ins ─────────────────────────────

/// (name, setup building `d` nested DEPTH deep, expression)
const DEEP_DATA: &[(&str, &str, &str)] = &[
    ("JSON.stringify-nested-arrays", "var d = []; for (var i = 0; i < DEPTH; i++) { d = [d]; }", "JSON.stringify(d).length"),
    ("JSON.stringify-nested-objects", "var d = {}; for (var i = 0; i < DEPTH; i++) { d = { a: d }; }", "JSON.stringify(d).length"),
    ("JSON.parse-nested-arrays", "var d = '['.repeat(DEPTH) + ']'.repeat(DEPTH);", "JSON.parse(d).length"),
    ("JSON.parse-nested-objects", "var d = '{\"a\":'.repeat(DEPTH) + '1' + '}'.repeat(DEPTH);", "typeof JSON.parse(d)"),
    ("String-of-nested-arrays", "var d = [1]; for (var i = 0; i < DEPTH; i++) { d = [d]; }", "String(d).length"),
    ("join-nested-arrays", "var d = [1]; for (var i = 0; i < DEPTH; i++) { d = [d, 2]; }", "d.join('-').length"),
    ("flat-Infinity", "var d = [1]; for (var i = 0; i < DEPTH; i++) { d = [d]; }", "d.flat(Infinity).length"),
    ("prototype-chain-lookup", "var d = { base: 1 }; for (var i = 0; i < DEPTH; i++) { d = Object.create(d); }", "d.base + ('base' in d ? 1 : 0)"),
    ("prototype-chain-instanceof", "function K(){} var d = new K(); for (var i = 0; i < DEPTH; i++) { d = Object.create(d); }", "d instanceof K"),
    ("linked-closures", "var d = function(){ return 0; }; for (var i = 0; i < DEPTH; i++) { d = (function(p){ return function(){ return p; }; })(d); }", "typeof d()"),
    ("bound-chain", "var d = function(){ return 7; }; for (var i = 0; i < DEPTH; i++) { d = d.bind(null); }", "d()"),
    ("promise-resolve-chain", "var d = Promise.resolve(1); for (var i = 0; i < DEPTH; i++) { d = Promise.resolve(d); }", "typeof d"),
    ("then-chain", "var d = Promise.resolve(0); for (var i = 0; i < DEPTH; i++) { d = d.then(function(v){ return v + 1; }); }", "typeof d"),
    ("nested-proxies", "var d = { v: 1 }; for (var i = 0; i < DEPTH; i++) { d = new Proxy(d, {}); }", "d.v"),
    ("string-concat-rope", "var d = 'a'; for (var i = 0; i < DEPTH; i++) { d = d + 'b'; }", "d.length"),
    ("error-cause-chain", "var d = new Error('e'); for (var i = 0; i < DEPTH; i++) { var e2 = new Error('w'); e2.cause = d; d = e2; }", "String(d).length"),
    ("object-spread-nested", "var d = {}; for (var i = 0; i < DEPTH; i++) { d = { ...d, k: d }; }", "typeof d.k"),
    ("nested-generators-yield-star", "function* leaf(){ yield 1; } var mk = function(g){ return function*(){ yield* g(); }; }; var d = leaf; for (var i = 0; i < DEPTH; i++) { d = mk(d); }", "d().next().value"),
    ("regexp-nested-groups", "var d = '('.repeat(Math.min(DEPTH, 5000)) + 'a' + ')'.repeat(Math.min(DEPTH, 5000));", "(function(){ try { return new RegExp(d).test('a'); } catch (e) { return 'caught ' + e.name; } })()"),
];

fn deep_depths(ctx: &Ctx) -> Vec<usize> {
    if ctx.thorough() { vec![100, 1000, 10_000, 100_000, 1_000_000] } else { vec![100, 1000, 10_000, 100_000] }
}

// ───────────────────────────── the careful host ─────────────────────────────

struct HostRun {
    /// value | error | host-stopped-steps | host-stopped-depth | suspended | done
    kind: String,
    value: String,
    error_class: String,
    steps: u64,
    max_step_instr: u64,
    max_call_depth: usize,
    reentry_sites: Vec<(String, u64)>,
    reentry_max: usize,
}

fn careful_host(src: &str, max_steps: u64, depth_budget: usize) -> HostRun {
    tsrun::verif::reset_thread();
    tsrun::verif::reset_vm_counters();
    let log = Rc::new(RefCell::new(Vec::new()));
    let mut interp = runner::new_interp(&log);
    let mut steps = 0u64;
    let mut max_step = 0u64;
    let mut max_depth = 0usize;
    STEP_BASE.store(tsrun::verif::VM_INSTRUCTIONS.load(Ordering::Relaxed), Ordering::Relaxed);
    let mut result = interp.prepare(src, None);
    let (kind, value, class) = loop {
        let now = tsrun::verif::VM_INSTRUCTIONS.load(Ordering::Relaxed);
        let spent = now - STEP_BASE.load(Ordering::Relaxed);
        if spent > max_step {
            max_step = spent;
        }
        match result {
            Err(e) => {
                let (c, m) = runner::error_class(&e);
                break ("error".to_string(), m, c);
            }
            Ok(StepResult::Complete(v)) => break ("value".to_string(), runner::show_value(v.value()), String::new()),
            Ok(StepResult::Done) => break ("done".into(), String::new(), String::new()),
            Ok(StepResult::Suspended { .. }) => break ("suspended".into(), String::new(), String::new()),
            Ok(StepResult::NeedImports(_)) => break ("need-imports".into(), String::new(), String::new()),
            Ok(StepResult::Continue) => {}
        }
        let d = interp.call_depth();
        if d > max_depth {
            max_depth = d;
        }
        if d > depth_budget {
            break ("host-stopped-depth".into(), String::new(), String::new());
        }
        if steps >= max_steps {
            break ("host-stopped-steps".into(), String::new(), String::new());
        }
        steps += 1;
        STEP_BASE.store(now, Ordering::Relaxed);
        result = interp.step();
    };
    STEP_BASE.store(u64::MAX, Ordering::Relaxed);
    let sites: Vec<(String, u64)> = tsrun::verif::reentry_sites().into_iter().collect();
    HostRun {
        kind,
        value,
        error_class: class,
        steps,
        max_step_instr: max_step,
        max_call_depth: max_depth,
        reentry_sites: sites,
        reentry_max: tsrun::verif::REENTRY_MAX.load(Ordering::Relaxed),
    }
}

/// Outcome of one isolated program.
struct Iso {
    /// Some(run) when the child answered
    run: Option<HostRun>,
    /// crash description (signal / panic / watchdog-by-counter) when it did not
    death: Option<String>,
    timeout: bool,
}

fn process_cpu_ns() -> u64 {
    let mut ts = libc::timespec { tv_sec: 0, tv_nsec: 0 };
    unsafe {
        libc::clock_gettime(libc::CLOCK_PROCESS_CPUTIME_ID, &mut ts);
    }
    ts.tv_sec as u64 * 1_000_000_000 + ts.tv_nsec as u64
}

fn isolated(src: String, max_steps: u64, depth_budget: usize, wall: u64) -> Iso {
    isolated_with(src, max_steps, depth_budget, wall, 0)
}

/// `cpu_rule_secs` > 0: a step that has not returned, has executed (almost) no VM instruction
/// and has consumed that many seconds of the child's own CPU time is spinning in native code.
/// CPU time is the child's consumption, not a wall-clock deadline: machine load does not move
/// it. Used for the non-terminating programs only, whose steps are single VM instructions.
fn isolated_with(src: String, max_steps: u64, depth_budget: usize, wall: u64, cpu_rule_secs: u64) -> Iso {
    let lim = Limits { wall: std::time::Duration::from_secs(wall), address_space: 4 << 30, stack: 0 };
    let exit = isolate::run(&lim, move || {
        // watchdog on the instruction counter: a step that executed > 5e7 instructions and did not return
        std::thread::spawn(move || {
            let mut seen: (u64, u64) = (u64::MAX, 0);
            loop {
                std::thread::sleep(std::time::Duration::from_millis(5));
                let base = STEP_BASE.load(Ordering::Relaxed);
                if base != u64::MAX {
                    let now = tsrun::verif::VM_INSTRUCTIONS.load(Ordering::Relaxed);
                    if now.saturating_sub(base) > 50_000_000 {
                        isolate::emit(&format!("\u{4}WATCHDOG {}", now - base));
                        isolate::child_exit(3);
                    }
                    if cpu_rule_secs > 0 {
                        let cpu = process_cpu_ns();
                        if seen.0 != base {
                            seen = (base, cpu);
                        } else if cpu.saturating_sub(seen.1) > cpu_rule_secs * 1_000_000_000 {
                            isolate::emit(&format!("\u{4}WATCHDOG {} (and {} s of CPU time)", now - base, cpu_rule_secs));
                            isolate::child_exit(3);
                        }
                    }
                }
            }
        });
        let h = careful_host(&src, max_steps, depth_budget);
        let sites: Vec<String> = h.reentry_sites.iter().map(|(s, c)| format!("{}={}", if s.is_empty() { "<vm>" } else { s }, c)).collect();
        format!(
            "{}\u{2}{}\u{2}{}\u{2}{}\u{2}{}\u{2}{}\u{2}{}\u{2}{}",
            h.kind,
            h.value,
            h.error_class,
            h.steps,
            h.max_step_instr,
            h.max_call_depth,
            sites.join(","),
            h.reentry_max
        )
    });
    match exit {
        Exit::Ok(t) => {
            let f: Vec<&str> = t.split('\u{2}').collect();
            if f.len() < 8 {
                return Iso { run: None, death: Some("malformed child answer".into()), timeout: false };
            }
            let sites = f[6]
                .split(',')
                .filter(|x| !x.is_empty())
                .filter_map(|x| x.rsplit_once('=').map(|(a, b)| (a.to_string(), b.parse().unwrap_or(0))))
                .collect();
            Iso {
                run: Some(HostRun {
                    kind: f[0].into(),
                    value: f[1].into(),
                    error_class: f[2].into(),
                    steps: f[3].parse().unwrap_or(0),
                    max_step_instr: f[4].parse().unwrap_or(0),
                    max_call_depth: f[5].parse().unwrap_or(0),
                    reentry_sites: sites,
                    reentry_max: f[7].parse().unwrap_or(0),
                }),
                death: None,
                timeout: false,
            }
        }
        Exit::Status(3, t) if t.contains("\u{4}WATCHDOG") => {
            let n = t.split("\u{4}WATCHDOG ").nth(1).unwrap_or("?").to_string();
            Iso { run: None, death: Some(format!("step-never-returned: one step() executed {} instructions and had not returned", n)), timeout: false }
        }
        Exit::Status(c, t) => {
            let d = if t.contains("\u{1}PANIC") { format!("panic: {}", truncate(t.split("\u{1}PANIC ").nth(1).unwrap_or(""), 140)) } else { format!("exit status {}", c) };
            Iso { run: None, death: Some(d), timeout: false }
        }
        Exit::Signal(s, _) => Iso { run: None, death: Some(isolate::signal_name(s).to_string()), timeout: false },
        Exit::Timeout(_) => Iso { run: None, death: None, timeout: true },
    }
}

fn death_class(d: &str) -> &str {
    if d.starts_with("SIG") {
        d
    } else if d.starts_with("panic") {
        "panic"
    } else if d.starts_with("step-never-returned") {
        "step-never-returned"
    } else {
        "died"
    }
}

fn record_reentries(r: &mut UnitResult, run: &HostRun, origin: &str, what: &str, case: &Value) {
    for (site, n) in &run.reentry_sites {
        r.stat("native_reentries_observed", *n as i64);
        r.violate(
            format!("reentry|{}|{}", site, origin),
            format!("the VM was re-entered natively through '{}' (first seen in {}): script code called from there runs to completion inside one host-visible step() and its frames are invisible to call_depth()", site, what),
            case.clone(),
        );
    }
    r.stat("max_native_reentry_depth", run.reentry_max as i64);
}

// ───────────────────────────── judging ─────────────────────────────

/// returns false when the control variant shows that the path does not reach the callee at all
fn judge_path(r: &mut UnitResult, ctx: &Ctx, p: usize, variant: &str) -> bool {
    let name = PATHS[p].0;
    let deep = if ctx.thorough() { 100_000 } else { 20_000 };
    let src = path_program(p, variant, deep);
    let case = json!({"kind": "path", "path": name, "variant": variant});
    let (max_steps, budget) = match variant {
        "rec" => (5_000_000, HOST_DEPTH_BUDGET),
        "deep" => (60 * deep as u64 + 1_000_000, usize::MAX),
        _ => (20 * LOOP_ITERS + 1_000_000, usize::MAX),
    };
    r.evaluations += 1;
    let iso = isolated(src, max_steps, budget, 120);
    if iso.timeout {
        r.inconclusive += 1;
        r.note(format!("{} {}: wall-clock watchdog", name, variant));
        return true;
    }
    r.nontrivial += 1;
    if let Some(d) = &iso.death {
        r.violate(
            format!("{}|{}|{}", death_class(d), name, variant),
            format!("call path '{}', variant {}: the process did not survive ({}) — the host lost control", name, variant, d),
            case,
        );
        return true;
    }
    let Some(run) = iso.run else { return true };
    r.stat("max_instructions_in_one_step", run.max_step_instr as i64);
    r.stat("max_call_depth_seen_by_host", run.max_call_depth as i64);
    if variant == "control" {
        record_reentries(r, &run, name, &format!("call path {}", name), &case);
    }
    if run.max_step_instr > B {
        r.violate(
            format!("unbounded-step|{}|{}", name, variant),
            format!(
                "call path '{}', variant {}: one step() executed {} VM instructions (bound {}); re-entered through: {}",
                name,
                variant,
                run.max_step_instr,
                B,
                run.reentry_sites.iter().map(|(s, _)| s.as_str()).collect::<Vec<_>>().join(",")
            ),
            case.clone(),
        );
    }
    match variant {
        "control" if !(run.kind == "value" && run.value == "num:1") => {
            // the built-in does not invoke the hook at all on this tree (a C01 matter): the
            // path cannot be judged for host control
            r.nontrivial -= 1;
            r.inconclusive += 1;
            r.violations.retain(|v| v.case != case);
            r.note(format!("call path '{}' does not reach its callee on this tree ({} {}): not judged", name, run.kind, run.value));
            r.stat("paths_not_reaching_callee", 1);
            return false;
        }
        "control" | "loop" => {
            if !(run.kind == "value" && run.value == "num:1") {
                r.violate(
                    format!("wrong-outcome|{}|{}", name, variant),
                    format!("call path '{}', variant {}: expected completion value 1, got {} {} {}", name, variant, run.kind, run.value, run.error_class),
                    case,
                );
            } else {
                r.stat("paths_completed", 1);
            }
        }
        "rec" => match run.kind.as_str() {
            "host-stopped-depth" => r.stat("recursions_stopped_by_host_depth_budget", 1),
            "error" => r.stat("recursions_ended_by_script_error", 1),
            "host-stopped-steps" => {
                // the host did regain control through its step budget, but call_depth() never showed the recursion
                r.violate(
                    format!("depth-invisible|{}|{}", name, variant),
                    format!(
                        "call path '{}': unbounded recursion ran for {} steps while call_depth() never exceeded {} — the host's depth budget cannot see it",
                        name, run.steps, run.max_call_depth
                    ),
                    case,
                );
            }
            other => {
                r.violate(format!("wrong-outcome|{}|{}", name, variant), format!("call path '{}': unbounded recursion ended with {} {}", name, other, run.value), case);
            }
        },
        "deep" => match run.kind.as_str() {
            "value" if run.value == format!("num:{}", deep) => r.stat("deep_recursions_completed", 1),
            "error" if run.error_class == "RangeError" || run.error_class == "InternalError" => r.stat("deep_recursions_refused_by_script_error", 1),
            _ => {
                r.violate(
                    format!("wrong-outcome|{}|{}", name, variant),
                    format!("call path '{}': recursion to depth {} ended with {} {} {}", name, deep, run.kind, run.value, run.error_class),
                    case,
                );
            }
        },
        _ => {}
    }
    true
}

fn judge_endless(r: &mut UnitResult, i: usize) {
    let (name, src) = ENDLESS[i];
    let case = json!({"kind": "endless", "name": name});
    r.evaluations += 1;
    let iso = isolated_with(src.to_string(), 400_000, HOST_DEPTH_BUDGET, 120, 20);
    if iso.timeout {
        r.inconclusive += 1;
        return;
    }
    r.nontrivial += 1;
    if let Some(d) = &iso.death {
        r.violate(format!("{}|endless.{}", death_class(d), name), format!("non-terminating program '{}': the process did not survive ({})", name, d), case);
        return;
    }
    let Some(run) = iso.run else { return };
    r.stat("max_instructions_in_one_step", run.max_step_instr as i64);
    record_reentries(r, &run, &format!("endless.{}", name), &format!("endless program {}", name), &case);
    if run.max_step_instr > B {
        r.violate(format!("unbounded-step|endless.{}", name), format!("'{}': one step() executed {} instructions", name, run.max_step_instr), case.clone());
    }
    match run.kind.as_str() {
        "host-stopped-steps" | "host-stopped-depth" => r.stat("endless_programs_stopped_by_host", 1),
        // a promise chain that the interpreter parks is also under host control
        "suspended" | "done" | "value" if name.contains("async") || name.contains("promise") => r.stat("endless_programs_stopped_by_host", 1),
        other => r.violate(format!("wrong-outcome|endless.{}", name), format!("'{}' ended with {} {} {} although it never terminates", name, other, run.value, run.error_class), case),
    }
}

fn judge_sized(r: &mut UnitResult, i: usize) {
    let (name, expr) = SIZED[i];
    for size in SIZES {
        let e = expr.replace("$N", size);
        let src = format!(
            "var out; try {{ var v = {}; out = (typeof v === 'string' || Array.isArray(v)) ? 'len ' + v.length : typeof v; }} catch (e) {{ out = 'caught ' + e.name; }} out",
            e
        );
        let case = json!({"kind": "sized", "name": name, "size": size});
        r.evaluations += 1;
        let iso = isolated(src, 50_000_000, HOST_DEPTH_BUDGET, 30);
        if iso.timeout {
            r.inconclusive += 1;
            r.stat("size_arguments_cut_by_wall_clock", 1);
            continue;
        }
        r.nontrivial += 1;
        if let Some(d) = &iso.death {
            r.violate(
                format!("{}|sized.{}|{}", death_class(d), name, size),
                format!("size argument {} into {} ({}): the process did not survive ({}) instead of a catchable error", size, name, e, d),
                case,
            );
            continue;
        }
        let Some(run) = iso.run else { continue };
        if std::env::var("C06_DEBUG").is_ok() {
            eprintln!("{} {} -> {} {} {}", name, size, run.kind, run.value, run.error_class);
        }
        match run.kind.as_str() {
            "value" => {
                if run.value.starts_with("caught") {
                    r.stat("size_arguments_refused_by_catchable_error", 1);
                } else {
                    r.stat("size_arguments_served", 1);
                }
            }
            "error" => r.stat("size_arguments_refused_by_err_result", 1),
            "host-stopped-steps" => r.stat("size_arguments_stopped_by_host", 1),
            other => r.violate(format!("wrong-outcome|sized.{}|{}", name, size), format!("{} with {}: {}", name, size, other), case),
        }
    }
}

fn judge_sized2(r: &mut UnitResult, i: usize) {
    let (name, expr) = SIZED2[i];
    // all pairs run in ONE child per first argument (the outcome wanted is only "survives");
    // a death is attributed by re-running that row pair by pair
    for a in PAIR_SIZES {
        let row: Vec<String> = PAIR_SIZES
            .iter()
            .map(|b| {
                let e = expr.replace("$A", a).replace("$B", b);
                format!("try {{ var v = {}; }} catch (e) {{ }}", e)
            })
            .collect();
        r.evaluations += 1;
        let iso = isolated(row.join("\n") + "\n'ok'", 50_000_000, HOST_DEPTH_BUDGET, 60);
        if iso.timeout {
            r.inconclusive += 1;
            continue;
        }
        r.nontrivial += 1;
        r.stat("size_argument_pairs", PAIR_SIZES.len() as i64);
        if iso.death.is_none() {
            continue;
        }
        for b in PAIR_SIZES {
            let e = expr.replace("$A", a).replace("$B", b);
            let one = isolated(format!("try {{ var v = {}; }} catch (e) {{ }} 'ok'", e), 50_000_000, HOST_DEPTH_BUDGET, 30);
            if let Some(d) = &one.death {
                r.violate(
                    format!("{}|sized2.{}|{}|{}", death_class(d), name, a, b),
                    format!("size arguments ({}, {}) into {} ({}): the process did not survive ({}) instead of a catchable error", a, b, name, e, d),
                    json!({"kind": "sized2", "name": name, "a": a, "b": b}),
                );
            }
        }
    }
}

fn judge_deep_data(r: &mut UnitResult, ctx: &Ctx, i: usize) {
    let (name, setup, expr) = DEEP_DATA[i];
    for depth in deep_depths(ctx) {
        let src = format!(
            "{}\nvar out; try {{ out = '' + ({}); }} catch (e) {{ out = 'caught ' + e.name; }} out",
            setup.replace("DEPTH", &depth.to_string()),
            expr.replace("DEPTH", &depth.to_string())
        );
        let case = json!({"kind": "deep-data", "name": name, "depth": depth});
        r.evaluations += 1;
        let iso = isolated(src, 200_000_000, HOST_DEPTH_BUDGET, 60);
        if iso.timeout {
            r.inconclusive += 1;
            r.stat("deep_data_cut_by_wall_clock", 1);
            break;
        }
        r.nontrivial += 1;
        if let Some(d) = &iso.death {
            r.violate(
                // the exact depth at which the native stack runs out depends on frame sizes of
                // the build; the signature only distinguishes shallow data from deep data
                format!("{}|deep.{}|{}", death_class(d), name, if depth <= 1000 { "depth<=1000" } else { "depth>1000" }),
                format!("{} on data nested {} deep: the process did not survive ({}) instead of a catchable error", name, depth, d),
                case,
            );
            break;
        }
        if let Some(run) = iso.run {
            match run.kind.as_str() {
                "value" | "error" | "host-stopped-steps" | "host-stopped-depth" | "suspended" => r.stat("deep_data_cases_survived", 1),
                other => r.violate(format!("wrong-outcome|deep.{}|{}", name, depth), format!("{} depth {}: {}", name, depth, other), case),
            }
        }
    }
}

const VARIANTS: &[&str] = &["control", "loop", "rec", "deep"];

impl Check for C06 {
    fn units(&self, _ctx: &Ctx) -> usize {
        PATHS.len() + ENDLESS.len() + SIZED.len() + DEEP_DATA.len() + SIZED2.len()
    }

    fn run_unit(&self, ctx: &Ctx, idx: usize) -> UnitResult {
        let mut r = UnitResult::default();
        let (np, ne, ns) = (PATHS.len(), ENDLESS.len(), SIZED.len());
        if idx < np {
            for v in VARIANTS {
                if !judge_path(&mut r, ctx, idx, v) {
                    break;
                }
            }
            if idx % 20 == 0 {
                r.sample(json!({"call_path": PATHS[idx].0, "variants": VARIANTS, "loop_variant_source": path_program(idx, "loop", 0), "rec_variant_source": path_program(idx, "rec", 0)}));
            }
        } else if idx < np + ne {
            judge_endless(&mut r, idx - np);
        } else if idx < np + ne + ns {
            judge_sized(&mut r, idx - np - ne);
            if (idx - np - ne) % 25 == 0 {
                r.sample(json!({"size_taking_builtin": SIZED[idx - np - ne].0, "sizes": SIZES}));
            }
        } else if idx < np + ne + ns + DEEP_DATA.len() {
            judge_deep_data(&mut r, ctx, idx - np - ne - ns);
        } else {
            let i = idx - np - ne - ns - DEEP_DATA.len();
            judge_sized2(&mut r, i);
            if i == 0 {
                r.sample(json!({"two_argument_builtin": SIZED2[i].0, "pairs": PAIR_SIZES.len() * PAIR_SIZES.len()}));
            }
        }
        r
    }

    fn replay(&self, ctx: &Ctx, case: &Value) -> UnitResult {
        let mut r = UnitResult::default();
        match case["kind"].as_str().unwrap_or("") {
            "path" => {
                if let Some(p) = PATHS.iter().position(|x| Some(x.0) == case["path"].as_str()) {
                    let v = VARIANTS.iter().find(|v| Some(**v) == case["variant"].as_str()).copied().unwrap_or("control");
                    judge_path(&mut r, ctx, p, v);
                }
            }
            "endless" => {
                if let Some(i) = ENDLESS.iter().position(|x| Some(x.0) == case["name"].as_str()) {
                    judge_endless(&mut r, i);
                }
            }
            "sized" => {
                if let Some(i) = SIZED.iter().position(|x| Some(x.0) == case["name"].as_str()) {
                    judge_sized(&mut r, i);
                    let sz = case["size"].as_str().unwrap_or("").to_string();
                    r.violations.retain(|v| v.case["size"].as_str() == Some(sz.as_str()));
                }
            }
            "sized2" => {
                if let Some(i) = SIZED2.iter().position(|x| Some(x.0) == case["name"].as_str()) {
                    judge_sized2(&mut r, i);
                    let (a, b) = (case["a"].as_str().unwrap_or("").to_string(), case["b"].as_str().unwrap_or("").to_string());
                    r.violations.retain(|v| v.case["a"].as_str() == Some(a.as_str()) && v.case["b"].as_str() == Some(b.as_str()));
                }
            }
            "deep-data" => {
                if let Some(i) = DEEP_DATA.iter().position(|x| Some(x.0) == case["name"].as_str()) {
                    judge_deep_data(&mut r, ctx, i);
                }
            }
            _ => {}
        }
        r
    }
}
