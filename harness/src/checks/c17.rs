//! C17 — the C API is memory-safe and total for every call sequence.
//!
//! The exported `tsrun_*` functions are called from Rust through an `extern "C"` block, so
//! the whole call path is instrumented by whatever the binary was built with:
//! AddressSanitizer (engine `asan`), Miri (engine `miri`, short sequences) or the H1
//! generation stamps (engine `native`). A driver draws call sequences from a shadow model
//! of handle ownership: which handles are live, which context they belong to and what each
//! must contain. Every returned value / string is checked against the model (a value that
//! changed under the host's feet — recycled by a collection — is as much a violation as a
//! sanitizer report), every returned string must be NUL-terminated UTF-8, misuse (NULL in
//! any pointer position) must come back as an error result, and the process must survive.

use crate::ffi::*;
use crate::util::*;
use serde_json::{Map, Value, json};
use std::ffi::{CStr, c_char, c_void};

pub struct C17;

/// what the shadow model knows about a handle
#[derive(Clone, Debug, PartialEq)]
enum Expect {
    Undefined,
    Null,
    Bool(bool),
    Num(f64),
    Str(String),
    /// object / array with exactly this JSON content
    Json(Value),
    Function,
    /// made by a script (symbol keys, accessors, proxies, holes, class instances ...): the model
    /// does not know its content; only the safety oracles apply
    Opaque,
}

struct Handle {
    ptr: *mut TsRunValue,
    expect: Expect,
    /// aliased by another handle / container: never mutated again (keeps the model alias-free)
    frozen: bool,
}

struct Driver {
    ctx: *mut TsRunContext,
    handles: Vec<Handle>,
    globals: Vec<(String, Expect)>,
    problems: Vec<(String, String)>,
    calls: u64,
    trace: Vec<String>,
    rng: Rng,
    scripts: bool,
}

fn same_json(a: &Value, b: &Value) -> bool {
    match (a, b) {
        (Value::Number(x), Value::Number(y)) => x.as_f64() == y.as_f64(),
        (Value::Array(x), Value::Array(y)) => x.len() == y.len() && x.iter().zip(y.iter()).all(|(p, q)| same_json(p, q)),
        (Value::Object(x), Value::Object(y)) => x.len() == y.len() && x.iter().all(|(k, v)| y.get(k).is_some_and(|w| same_json(v, w))),
        _ => a == b,
    }
}

/// JSON a conforming serializer produces for a value with this expectation (None = undefined)
fn expect_json(e: &Expect) -> Option<Value> {
    match e {
        Expect::Undefined | Expect::Function | Expect::Opaque => None,
        Expect::Null => Some(Value::Null),
        Expect::Bool(b) => Some(Value::Bool(*b)),
        Expect::Num(n) => Some(serde_json::Number::from_f64(*n).map(Value::Number).unwrap_or(Value::Null)),
        Expect::Str(s) => Some(Value::String(s.clone())),
        Expect::Json(v) => Some(v.clone()),
    }
}

fn json_to_expect(v: &Value) -> Expect {
    match v {
        Value::Null => Expect::Null,
        Value::Bool(b) => Expect::Bool(*b),
        Value::Number(n) => Expect::Num(n.as_f64().unwrap_or(0.0)),
        Value::String(s) => Expect::Str(s.clone()),
        other => Expect::Json(other.clone()),
    }
}

/// values only a script can make, handed to the host as completion values
const SCRIPT_VALUES: &[&str] = &[
    "({ a: 1, [Symbol('s')]: 2, b: 3 })",
    "({ [Symbol.iterator]: function(){ return { next(){ return { done: true }; } }; } })",
    "({ [Symbol('only')]: 1 })",
    "(function(){ var o = {}; o[Symbol('x')] = 1; o[Symbol.for('y')] = 2; o.k = 3; return o; })()",
    "({ get g(){ return 1; }, set s(v){ }, plain: 2 })",
    "(function(){ var o = {}; Object.defineProperty(o, 'hidden', { value: 1, enumerable: false }); o.seen = 2; return o; })()",
    "[1, , 3, , 5]",
    "(function(){ var a = [1, 2, 3]; a.extra = 'x'; a[Symbol('s')] = 1; return a; })()",
    "new Proxy({ a: 1 }, {})",
    "new Proxy({}, { ownKeys(){ return ['p', 'q']; }, get(t, k){ return 1; }, has(){ return true; }, getOwnPropertyDescriptor(){ return { value: 1, enumerable: true, configurable: true }; } })",
    "(function named(a, b){ return a + b; })",
    "(class K { static s = 1; m(){ return 2; } })",
    "new (class P { constructor(){ this.x = 1; this[Symbol('y')] = 2; } })()",
    "new Map([[1, { a: 1 }], ['k', [2]]])",
    "new Set([1, 'a', { b: 2 }])",
    "new Date(0)",
    "/re(g)ex/gi",
    "Object.freeze({ f: 1, [Symbol('z')]: 2 })",
    "Object.create(null)",
    "Object.create({ inherited: 1 })",
    "(function(){ var o = {}; for (var i = 0; i < 300; i++) { o['k' + i] = i; } o[Symbol('s')] = 1; return o; })()",
    "Symbol('sym')",
    "Promise.resolve(1)",
    "(function*(){ yield 1; })()",
    "new Error('e')",
    "JSON",
    "Math",
    "globalThis",
    "(function(){ return arguments; })(1, 2)",
    "new String('boxed')",
    "Object(Symbol('boxed'))",
    "(function(){ enumLike: { var E = {}; E[E['A'] = 0] = 'A'; return E; } })()",
];

const KEYS: &[&str] = &["a", "b", "key", "0", "7", "x y", "\u{e9}", "nested", "__k"];
const STRINGS: &[&str] = &["", "a", "hello world", "\u{e9}\u{65e5}\u{1F600}", "quote\"back\\slash", "line\nbreak\ttab", "0", "null"];

fn docs() -> Vec<Value> {
    vec![
        json!({}),
        json!([]),
        json!({"a": 1, "b": [1, 2, {"c": "d"}]}),
        json!([1, "two", null, true, {"k": [3]}]),
        json!({"nested": {"deeper": {"deepest": [1, 2, 3]}}, "s": "\u{e9}\u{1F600}"}),
        json!({"0": "zero", "7": "seven", "x y": 1}),
        json!([[[[["deep"]]]]]),
        json!({"big": (0..40).map(|i| json!({"i": i})).collect::<Vec<_>>()}),
    ]
}

extern "C" fn nat_echo(ctx: *mut TsRunContext, _this: *mut TsRunValue, args: *mut *mut TsRunValue, argc: usize, _ud: *mut c_void, _err: *mut *const c_char) -> *mut TsRunValue {
    unsafe {
        if argc == 0 || args.is_null() {
            return std::ptr::null_mut();
        }
        tsrun_value_dup(ctx, *args)
    }
}

/// re-enters the API from inside a callback: creates values, parses JSON, builds an object
extern "C" fn nat_make(ctx: *mut TsRunContext, _this: *mut TsRunValue, args: *mut *mut TsRunValue, argc: usize, _ud: *mut c_void, _err: *mut *const c_char) -> *mut TsRunValue {
    unsafe {
        let r = tsrun_object_new(ctx);
        if r.value.is_null() {
            return std::ptr::null_mut();
        }
        let n = if argc > 0 && !args.is_null() && tsrun_is_number(*args) { tsrun_get_number(*args) } else { 0.0 };
        let v = tsrun_number(ctx, n * 2.0);
        let k = cstr("doubled");
        tsrun_set(ctx, r.value, k.as_ptr(), v);
        tsrun_value_free(v);
        let text = cstr("{\"made\":[1,2,3]}");
        let p = tsrun_json_parse(ctx, text.as_ptr());
        if !p.value.is_null() {
            let k2 = cstr("parsed");
            tsrun_set(ctx, r.value, k2.as_ptr(), p.value);
            tsrun_value_free(p.value);
        }
        // garbage, to give a collection the chance to run inside the callback
        for _ in 0..30 {
            let g = tsrun_array_new(ctx);
            if !g.value.is_null() {
                tsrun_value_free(g.value);
            }
        }
        r.value
    }
}

static NAT_ERROR: &[u8] = b"native failure\0";

extern "C" fn nat_throw(_ctx: *mut TsRunContext, _this: *mut TsRunValue, _args: *mut *mut TsRunValue, _argc: usize, _ud: *mut c_void, err: *mut *const c_char) -> *mut TsRunValue {
    unsafe {
        if !err.is_null() {
            *err = NAT_ERROR.as_ptr() as *const c_char;
        }
    }
    std::ptr::null_mut()
}

/// calls its first argument (a function) through the API with its second argument
extern "C" fn nat_apply(ctx: *mut TsRunContext, _this: *mut TsRunValue, args: *mut *mut TsRunValue, argc: usize, _ud: *mut c_void, _err: *mut *const c_char) -> *mut TsRunValue {
    unsafe {
        if argc < 2 || args.is_null() {
            return std::ptr::null_mut();
        }
        let f = *args;
        let mut a = [*args.add(1)];
        let r = tsrun_call(ctx, f, std::ptr::null_mut(), a.as_mut_ptr(), 1);
        r.value
    }
}

/// calls its first argument (a function) with its second argument and AFTERWARDS reads all
/// of its own arguments again: returns [result, arg1, arg2, ...]. The function it calls is
/// free to call native functions itself (with more arguments than this call had), so the
/// argument array of this call must survive nested native calls.
extern "C" fn nat_apply_then_args(ctx: *mut TsRunContext, _this: *mut TsRunValue, args: *mut *mut TsRunValue, argc: usize, _ud: *mut c_void, _err: *mut *const c_char) -> *mut TsRunValue {
    unsafe {
        if argc < 2 || args.is_null() {
            return std::ptr::null_mut();
        }
        let f = *args;
        let mut a = [*args.add(1)];
        let r = tsrun_call(ctx, f, std::ptr::null_mut(), a.as_mut_ptr(), 1);
        let out = tsrun_array_new(ctx);
        if out.value.is_null() {
            return std::ptr::null_mut();
        }
        if !r.value.is_null() {
            tsrun_array_push(ctx, out.value, r.value);
            tsrun_value_free(r.value);
        } else {
            let u = tsrun_undefined(ctx);
            tsrun_array_push(ctx, out.value, u);
            tsrun_value_free(u);
        }
        for i in 1..argc {
            let v = *args.add(i);
            if v.is_null() {
                continue;
            }
            tsrun_array_push(ctx, out.value, v);
        }
        out.value
    }
}

impl Driver {
    fn new(seed_family: &str, shard: u64, n: u64, scripts: bool) -> Driver {
        let ctx = unsafe { tsrun_new() };
        Driver { ctx, handles: Vec::new(), globals: Vec::new(), problems: Vec::new(), calls: 1, trace: vec!["new".into()], rng: Rng::derive(seed_family, shard, n), scripts }
    }

    fn problem(&mut self, kind: &str, what: String) {
        if self.problems.len() < 5 {
            let tail: Vec<String> = self.trace.iter().rev().take(12).rev().cloned().collect();
            self.problems.push((kind.to_string(), format!("{} (after: {})", what, tail.join(" > "))));
        }
    }

    fn op(&mut self, name: &str) {
        self.calls += 1;
        if self.trace.len() > 400 {
            self.trace.remove(0);
        }
        self.trace.push(name.to_string());
    }

    fn add(&mut self, ptr: *mut TsRunValue, expect: Expect, frozen: bool) {
        if ptr.is_null() {
            self.problem("null-handle", format!("an operation that must succeed returned a NULL handle (expected {:?})", expect));
            return;
        }
        self.handles.push(Handle { ptr, expect, frozen });
    }

    fn pick(&mut self) -> Option<usize> {
        if self.handles.is_empty() { None } else { Some(self.rng.below(self.handles.len())) }
    }

    fn pick_where(&mut self, f: impl Fn(&Handle) -> bool) -> Option<usize> {
        let idx: Vec<usize> = self.handles.iter().enumerate().filter(|(_, h)| f(h)).map(|(i, _)| i).collect();
        if idx.is_empty() { None } else { Some(idx[self.rng.below(idx.len())]) }
    }

    /// read the handle back through the public inspectors and compare with the model
    fn verify(&mut self, i: usize, why: &str) {
        let (ptr, expect) = (self.handles[i].ptr, self.handles[i].expect.clone());
        self.op("verify");
        unsafe {
            let bad = match &expect {
                Expect::Undefined => !tsrun_is_undefined(ptr),
                Expect::Null => !tsrun_is_null(ptr),
                Expect::Bool(b) => !tsrun_is_boolean(ptr) || tsrun_get_bool(ptr) != *b,
                Expect::Num(n) => !tsrun_is_number(ptr) || { let g = tsrun_get_number(ptr); !(g == *n || (g.is_nan() && n.is_nan())) },
                Expect::Str(s) => {
                    if !tsrun_is_string(ptr) {
                        true
                    } else {
                        match read_cstr(tsrun_get_string(ptr)) {
                            Ok(Some(g)) => g != *s || tsrun_get_string_len(ptr) != s.len(),
                            Ok(None) => true,
                            Err(e) => {
                                self.problem("bad-string", format!("tsrun_get_string: {}", e));
                                false
                            }
                        }
                    }
                }
                Expect::Function => !tsrun_is_function(ptr),
                Expect::Opaque => {
                    self.inspect_opaque(ptr);
                    false
                }
                Expect::Json(v) => {
                    if !tsrun_is_object(ptr) || tsrun_is_array(ptr) != v.is_array() {
                        true
                    } else {
                        let s = tsrun_json_stringify(self.ctx, ptr);
                        if s.is_null() {
                            true
                        } else {
                            let text = read_cstr(s);
                            tsrun_free_string(s);
                            match text {
                                Ok(Some(t)) => match serde_json::from_str::<Value>(&t) {
                                    Ok(g) => !same_json(&g, v),
                                    Err(_) => true,
                                },
                                Ok(None) => true,
                                Err(e) => {
                                    self.problem("bad-string", format!("tsrun_json_stringify: {}", e));
                                    false
                                }
                            }
                        }
                    }
                }
            };
            if bad {
                let got = repr(self.ctx, ptr);
                self.problem("content", format!("{}: a live handle no longer holds what the host put there: expected {:?}, reads back {}", why, expect, truncate(&got, 160)));
            }
        }
    }

    /// every read-only entry point on a value whose content the model does not know: the
    /// sanitizer / Miri / string-validity oracles decide
    fn inspect_opaque(&mut self, ptr: *mut TsRunValue) {
        self.op("inspect");
        unsafe {
            let _ = tsrun_typeof(ptr);
            let _ = (tsrun_is_object(ptr), tsrun_is_array(ptr), tsrun_is_function(ptr), tsrun_is_string(ptr), tsrun_is_number(ptr));
            let _ = tsrun_get_number(ptr);
            let _ = tsrun_get_bool(ptr);
            if let Err(e) = read_cstr(tsrun_get_string(ptr)) {
                self.problem("bad-string", format!("tsrun_get_string: {}", e));
            }
            let _ = tsrun_get_string_len(ptr);
            let n = tsrun_array_len(ptr);
            for i in [0usize, 1, n.saturating_sub(1), n, n + 1] {
                let r = tsrun_array_get(self.ctx, ptr, i);
                if !r.value.is_null() {
                    tsrun_value_free(r.value);
                }
            }
            let mut count: usize = 0;
            let ks = tsrun_keys(self.ctx, ptr, &mut count);
            if !ks.is_null() {
                // walk exactly `count` entries, as the header prescribes
                for i in 0..count {
                    match read_cstr(*ks.add(i)) {
                        Ok(Some(k)) => {
                            let c = cstr(&k);
                            let _ = tsrun_has(self.ctx, ptr, c.as_ptr());
                            let r = tsrun_get(self.ctx, ptr, c.as_ptr());
                            if !r.value.is_null() {
                                tsrun_value_free(r.value);
                            }
                        }
                        Ok(None) => self.problem("bad-string", "tsrun_keys returned a NULL entry".into()),
                        Err(e) => self.problem("bad-string", format!("tsrun_keys: {}", e)),
                    }
                }
                tsrun_free_strings(ks, count);
            } else if count != 0 {
                self.problem("content", format!("tsrun_keys returned NULL with count {}", count));
            }
            let s = tsrun_json_stringify(self.ctx, ptr);
            if !s.is_null() {
                if let Err(e) = read_cstr(s) {
                    self.problem("bad-string", format!("tsrun_json_stringify: {}", e));
                }
                tsrun_free_string(s);
            }
            for key in ["a", "0", "length", "constructor", "toString", "missing"] {
                let c = cstr(key);
                let _ = tsrun_has(self.ctx, ptr, c.as_ptr());
                let r = tsrun_get(self.ctx, ptr, c.as_ptr());
                if !r.value.is_null() {
                    tsrun_value_free(r.value);
                }
            }
            let m = cstr("toString");
            let r = tsrun_call_method(self.ctx, ptr, m.as_ptr(), std::ptr::null_mut(), 0);
            if !r.value.is_null() {
                tsrun_value_free(r.value);
            }
        }
    }

    fn churn(&mut self, n: usize) {
        // allocate and release handles so that collections run while other handles are live
        self.op("churn");
        unsafe {
            for i in 0..n {
                let r = if i % 2 == 0 { tsrun_object_new(self.ctx) } else { tsrun_array_new(self.ctx) };
                if !r.value.is_null() {
                    tsrun_value_free(r.value);
                }
            }
        }
    }

    fn run_script(&mut self, code: &str, path: Option<&str>) -> Result<(String, *mut TsRunValue), String> {
        // prepare + run to completion (no orders / imports expected); returns repr of the completion value
        unsafe {
            let c = cstr(code);
            let p = path.map(cstr);
            let r = tsrun_prepare(self.ctx, c.as_ptr(), p.as_ref().map(|x| x.as_ptr()).unwrap_or(std::ptr::null()));
            self.op("prepare");
            if !r.ok {
                return Err(read_cstr(r.error).ok().flatten().unwrap_or_default());
            }
            let mut sr: TsRunStepResult = std::mem::zeroed();
            let mut guard = 0;
            loop {
                tsrun_run(&mut sr, self.ctx);
                self.op("run");
                match sr.status {
                    TsRunStepStatus::Complete => {
                        let v = sr.value;
                        let s = repr(self.ctx, v);
                        tsrun_step_result_free(&mut sr);
                        return Ok((s, v));
                    }
                    TsRunStepStatus::Continue => {}
                    TsRunStepStatus::Error => {
                        let m = read_cstr(sr.error).ok().flatten().unwrap_or_default();
                        tsrun_step_result_free(&mut sr);
                        return Err(m);
                    }
                    other => {
                        let s = format!("unexpected status {:?}", other as i32);
                        tsrun_step_result_free(&mut sr);
                        return Err(s);
                    }
                }
                tsrun_step_result_free(&mut sr);
                guard += 1;
                if guard > 100_000 {
                    return Err("no completion".into());
                }
            }
        }
    }

    /// one random operation
    fn step(&mut self) {
        let k = if self.scripts {
            self.rng.below(37)
        } else if self.rng.chance(1, 12) {
            // Miri: script execution is expensive there, only the script-made values are drawn
            34
        } else {
            self.rng.below(27)
        };
        unsafe {
            match k {
                0 => {
                    let n = [0.0, -0.0, 1.5, -7.0, 1e21, 4294967296.0, f64::NAN, f64::INFINITY][self.rng.below(8)];
                    self.op("number");
                    let p = tsrun_number(self.ctx, n);
                    self.add(p, Expect::Num(n), false);
                }
                1 => {
                    let s = *self.rng.pick(STRINGS);
                    self.op("string");
                    let c = cstr(s);
                    let p = if self.rng.chance(1, 2) { tsrun_string(self.ctx, c.as_ptr()) } else { tsrun_string_len(self.ctx, c.as_ptr(), s.len()) };
                    self.add(p, Expect::Str(s.to_string()), false);
                }
                2 => {
                    let b = self.rng.chance(1, 2);
                    self.op("boolean");
                    let p = tsrun_boolean(self.ctx, b);
                    self.add(p, Expect::Bool(b), false);
                }
                3 => {
                    self.op("null/undefined");
                    if self.rng.chance(1, 2) {
                        let p = tsrun_null(self.ctx);
                        self.add(p, Expect::Null, false);
                    } else {
                        let p = tsrun_undefined(self.ctx);
                        self.add(p, Expect::Undefined, false);
                    }
                }
                4 => {
                    self.op("object_new");
                    let r = tsrun_object_new(self.ctx);
                    self.add(r.value, Expect::Json(json!({})), false);
                }
                5 => {
                    self.op("array_new");
                    let r = tsrun_array_new(self.ctx);
                    self.add(r.value, Expect::Json(json!([])), false);
                }
                6 | 7 => {
                    let d = self.rng.pick(&docs()).clone();
                    self.op("json_parse");
                    let c = cstr(&d.to_string());
                    let r = tsrun_json_parse(self.ctx, c.as_ptr());
                    self.add(r.value, json_to_expect(&d), false);
                }
                8 | 9 => {
                    // set obj[key] = value
                    let Some(o) = self.pick_where(|h| !h.frozen && matches!(&h.expect, Expect::Json(Value::Object(_)))) else { return };
                    let Some(v) = self.pick_where(|h| !matches!(h.expect, Expect::Opaque)) else { return };
                    if v == o {
                        return;
                    }
                    let key = *self.rng.pick(KEYS);
                    self.op("set");
                    let c = cstr(key);
                    let r = tsrun_set(self.ctx, self.handles[o].ptr, c.as_ptr(), self.handles[v].ptr);
                    if !r.ok {
                        self.problem("unexpected-error", format!("tsrun_set on an object failed: {:?}", read_cstr(r.error)));
                        return;
                    }
                    let ve = self.handles[v].expect.clone();
                    if matches!(ve, Expect::Json(_) | Expect::Function) {
                        self.handles[v].frozen = true;
                    }
                    if let Expect::Json(Value::Object(m)) = &mut self.handles[o].expect {
                        match expect_json(&ve) {
                            Some(j) => {
                                m.insert(key.to_string(), j);
                            }
                            None => {
                                m.remove(key);
                            }
                        }
                    }
                }
                10 => {
                    // get obj[key]
                    let Some(o) = self.pick_where(|h| matches!(&h.expect, Expect::Json(Value::Object(_)))) else { return };
                    let key = *self.rng.pick(KEYS);
                    self.op("get");
                    let c = cstr(key);
                    let r = tsrun_get(self.ctx, self.handles[o].ptr, c.as_ptr());
                    let member = match &self.handles[o].expect {
                        Expect::Json(Value::Object(m)) => m.get(key).cloned(),
                        _ => None,
                    };
                    match member {
                        // null in the JSON shadow may stand for NaN / Infinity / null: only liveness is checked
                        Some(Value::Null) => {
                            if !r.value.is_null() {
                                tsrun_value_free(r.value);
                            }
                        }
                        Some(j) => {
                            let is_container = j.is_object() || j.is_array();
                            if is_container {
                                self.handles[o].frozen = true;
                            }
                            self.add(r.value, json_to_expect(&j), is_container);
                        }
                        None => {
                            // absent (or undefined/function-valued, which the JSON model does not track): only liveness is checked
                            if !r.value.is_null() {
                                tsrun_value_free(r.value);
                            }
                        }
                    }
                }
                11 => {
                    let Some(o) = self.pick_where(|h| matches!(&h.expect, Expect::Json(Value::Object(_)))) else { return };
                    let key = *self.rng.pick(KEYS);
                    self.op("has");
                    let c = cstr(key);
                    let got = tsrun_has(self.ctx, self.handles[o].ptr, c.as_ptr());
                    if let Expect::Json(Value::Object(m)) = &self.handles[o].expect
                        && m.contains_key(key)
                        && !got
                    {
                        self.problem("content", format!("tsrun_has says '{}' is absent although the host stored it", key));
                    }
                }
                12 => {
                    let Some(o) = self.pick_where(|h| !h.frozen && matches!(&h.expect, Expect::Json(Value::Object(_)))) else { return };
                    let key = *self.rng.pick(KEYS);
                    self.op("delete");
                    let c = cstr(key);
                    let r = tsrun_delete(self.ctx, self.handles[o].ptr, c.as_ptr());
                    if r.ok
                        && let Expect::Json(Value::Object(m)) = &mut self.handles[o].expect
                    {
                        m.remove(key);
                    }
                }
                13 => {
                    let Some(o) = self.pick_where(|h| matches!(&h.expect, Expect::Json(Value::Object(_)))) else { return };
                    self.op("keys");
                    let mut count: usize = 0;
                    let ks = tsrun_keys(self.ctx, self.handles[o].ptr, &mut count);
                    let mut got: Vec<String> = Vec::new();
                    if !ks.is_null() {
                        for i in 0..count {
                            match read_cstr(*ks.add(i)) {
                                Ok(Some(s)) => got.push(s),
                                Ok(None) => self.problem("bad-string", "tsrun_keys returned a NULL entry".into()),
                                Err(e) => self.problem("bad-string", format!("tsrun_keys: {}", e)),
                            }
                        }
                        tsrun_free_strings(ks, count);
                    }
                    if let Expect::Json(Value::Object(m)) = &self.handles[o].expect {
                        let missing: Vec<&String> = m.keys().filter(|k| !got.contains(k)).collect();
                        if !missing.is_empty() {
                            self.problem("content", format!("tsrun_keys misses {:?} (got {:?})", missing, got));
                        }
                    }
                }
                14 | 15 => {
                    // array push
                    let Some(a) = self.pick_where(|h| !h.frozen && matches!(&h.expect, Expect::Json(Value::Array(_)))) else { return };
                    let Some(v) = self.pick_where(|h| !matches!(h.expect, Expect::Opaque)) else { return };
                    if v == a {
                        return;
                    }
                    self.op("array_push");
                    let r = tsrun_array_push(self.ctx, self.handles[a].ptr, self.handles[v].ptr);
                    if !r.ok {
                        self.problem("unexpected-error", format!("tsrun_array_push failed: {:?}", read_cstr(r.error)));
                        return;
                    }
                    let ve = self.handles[v].expect.clone();
                    if matches!(ve, Expect::Json(_) | Expect::Function) {
                        self.handles[v].frozen = true;
                    }
                    if let Expect::Json(Value::Array(arr)) = &mut self.handles[a].expect {
                        arr.push(expect_json(&ve).unwrap_or(Value::Null));
                    }
                }
                16 => {
                    let Some(a) = self.pick_where(|h| matches!(&h.expect, Expect::Json(Value::Array(_)))) else { return };
                    self.op("array_len/get");
                    let len = tsrun_array_len(self.handles[a].ptr);
                    let exp: Vec<Value> = match &self.handles[a].expect {
                        Expect::Json(Value::Array(v)) => v.clone(),
                        _ => vec![],
                    };
                    if len != exp.len() {
                        self.problem("content", format!("tsrun_array_len is {} but the host stored {} elements", len, exp.len()));
                        return;
                    }
                    // one in-range and one out-of-range read
                    let i = if len > 0 { self.rng.below(len) } else { 0 };
                    let r = tsrun_array_get(self.ctx, self.handles[a].ptr, i);
                    if len > 0 {
                        let j = exp[i].clone();
                        let cont = j.is_object() || j.is_array();
                        if cont {
                            self.handles[a].frozen = true;
                        }
                        // array elements that were undefined/functions are stored as null in the model: not compared
                        if j.is_null() {
                            if !r.value.is_null() {
                                tsrun_value_free(r.value);
                            }
                        } else {
                            self.add(r.value, json_to_expect(&j), cont);
                        }
                    } else if !r.value.is_null() {
                        tsrun_value_free(r.value);
                    }
                    let r2 = tsrun_array_get(self.ctx, self.handles[a].ptr, len + 5);
                    if !r2.value.is_null() {
                        if !tsrun_is_undefined(r2.value) {
                            self.problem("content", "tsrun_array_get past the end returned a defined value".into());
                        }
                        tsrun_value_free(r2.value);
                    }
                }
                17 => {
                    let Some(i) = self.pick() else { return };
                    self.op("dup");
                    let p = tsrun_value_dup(self.ctx, self.handles[i].ptr);
                    let e = self.handles[i].expect.clone();
                    let cont = matches!(e, Expect::Json(_));
                    if cont {
                        self.handles[i].frozen = true;
                    }
                    self.add(p, e, cont);
                }
                18 | 19 => {
                    let Some(i) = self.pick() else { return };
                    self.op("value_free");
                    let h = self.handles.swap_remove(i);
                    tsrun_value_free(h.ptr);
                }
                20 | 21 => {
                    if let Some(i) = self.pick() {
                        self.verify(i, "spot check");
                    }
                }
                22 => {
                    let n = 120 + self.rng.below(200);
                    self.churn(n);
                }
                23 => {
                    // set_global / get_global
                    let Some(i) = self.pick_where(|h| !matches!(h.expect, Expect::Opaque)) else { return };
                    let name = format!("g{}", self.rng.below(4));
                    self.op("set_global");
                    let c = cstr(&name);
                    let r = tsrun_set_global(self.ctx, c.as_ptr(), self.handles[i].ptr);
                    if r.ok {
                        let e = self.handles[i].expect.clone();
                        if matches!(e, Expect::Json(_)) {
                            self.handles[i].frozen = true;
                        }
                        self.globals.retain(|(n, _)| *n != name);
                        self.globals.push((name, e));
                    }
                }
                24 => {
                    if self.globals.is_empty() {
                        return;
                    }
                    let (name, e) = self.globals[self.rng.below(self.globals.len())].clone();
                    self.op("get_global");
                    let c = cstr(&name);
                    let r = tsrun_get_global(self.ctx, c.as_ptr());
                    let cont = matches!(e, Expect::Json(_));
                    self.add(r.value, e, cont);
                }
                25 => {
                    // error strings: NULL key must be an error result, and the message a valid string
                    let Some(o) = self.pick() else { return };
                    self.op("get(NULL key)");
                    let r = tsrun_get(self.ctx, self.handles[o].ptr, std::ptr::null());
                    if !r.value.is_null() {
                        tsrun_value_free(r.value);
                    } else if let Err(e) = read_cstr(r.error) {
                        self.problem("bad-string", format!("error message: {}", e));
                    }
                }
                26 => {
                    // typeof agrees with the predicates
                    let Some(i) = self.pick() else { return };
                    self.op("typeof");
                    let t = tsrun_typeof(self.handles[i].ptr);
                    let ok = match &self.handles[i].expect {
                        Expect::Undefined => t == TsRunType::Undefined,
                        Expect::Null => t == TsRunType::Null,
                        Expect::Bool(_) => t == TsRunType::Boolean,
                        Expect::Num(_) => t == TsRunType::Number,
                        Expect::Str(_) => t == TsRunType::String,
                        Expect::Json(_) | Expect::Function => t == TsRunType::Object,
                        Expect::Opaque => true,
                    };
                    if !ok {
                        self.problem("content", format!("tsrun_typeof = {} for a handle holding {:?}", t as i32, self.handles[i].expect));
                    }
                }
                // ───── operations that run script code ─────
                27 => {
                    // allocation-heavy script: collections run while host handles are live
                    match self.run_script("var junk = []; for (var i = 0; i < 400; i++) { junk.push({i: i, s: 'x' + i}); } junk.length", None) {
                        Ok((s, v)) => {
                            if s != "n:400" {
                                self.problem("content", format!("script result {} instead of 400", s));
                            }
                            if !v.is_null() {
                                tsrun_value_free(v);
                            }
                        }
                        Err(e) => self.problem("unexpected-error", format!("churn script failed: {}", e)),
                    }
                }
                28 => {
                    // the script reads a host-provided global back
                    if self.globals.is_empty() {
                        return;
                    }
                    let (name, e) = self.globals[self.rng.below(self.globals.len())].clone();
                    let Some(want) = expect_json(&e) else { return };
                    match self.run_script(&format!("var junk = []; for (var i = 0; i < 150; i++) {{ junk.push([i]); }} JSON.stringify({})", name), None) {
                        Ok((s, v)) => {
                            let text = s.strip_prefix("s:").unwrap_or(&s);
                            let ok = serde_json::from_str::<Value>(text).map(|g| same_json(&g, &want)).unwrap_or(false);
                            // non-finite numbers print as null
                            let ok = ok || (matches!(e, Expect::Num(n) if !n.is_finite()) && text == "null");
                            if !ok {
                                self.problem("content", format!("the script reads global {} as {} but the host stored {}", name, truncate(text, 120), truncate(&want.to_string(), 120)));
                            }
                            if !v.is_null() {
                                tsrun_value_free(v);
                            }
                        }
                        Err(err) => self.problem("unexpected-error", format!("reading global {} failed: {}", name, err)),
                    }
                }
                29 => {
                    // native callbacks that re-enter the API
                    self.op("native_function");
                    let names: [(&str, TsRunNativeFn); 5] = [("natEcho", nat_echo), ("natMake", nat_make), ("natThrow", nat_throw), ("natApply", nat_apply), ("natApplyThenArgs", nat_apply_then_args)];
                    for (n, f) in names {
                        let c = cstr(n);
                        let r = tsrun_native_function(self.ctx, c.as_ptr(), f, 2, std::ptr::null_mut());
                        if r.value.is_null() {
                            self.problem("unexpected-error", format!("tsrun_native_function({}) failed", n));
                            continue;
                        }
                        tsrun_set_global(self.ctx, c.as_ptr(), r.value);
                        tsrun_value_free(r.value);
                    }
                    let script = "var out = []; out.push(JSON.stringify(natEcho({e: [1, 2]}))); out.push(JSON.stringify(natMake(21))); try { natThrow(); out.push('no'); } catch (e) { out.push('caught'); } out.push(natApply(function(x){ var t = []; for (var i = 0; i < 50; i++) { t.push({i: i}); } return x * 3; }, 5)); out.push(JSON.stringify(natEcho(natMake(2)))); out.join('|')";
                    match self.run_script(script, None) {
                        Ok((s, v)) => {
                            let want = "s:{\"e\":[1,2]}|{\"doubled\":42,\"parsed\":{\"made\":[1,2,3]}}|caught|15|{\"doubled\":4,\"parsed\":{\"made\":[1,2,3]}}";
                            if s != want {
                                self.problem("content", format!("native callbacks: script saw {} instead of {}", truncate(&s, 200), want));
                            }
                            if !v.is_null() {
                                tsrun_value_free(v);
                            }
                        }
                        Err(e) => self.problem("unexpected-error", format!("native callback script failed: {}", e)),
                    }
                    // native -> script -> native (with more arguments) -> ... three levels deep; every
                    // level reads its own arguments after the nested call returned
                    let nested = "var r = natApplyThenArgs(function(v){ var g = []; for (var i = 0; i < 40; i++) { g.push({i: i}); } var inner = natApplyThenArgs(function(w){ return natEcho({deep: w}, 1, 2, 3, 4, 5, 6, 7).deep + natMake(w).doubled; }, v + 1, 'b1', {b: 2}, [3], 'b4', 'b5'); return [natEcho({inner: v}, 'x', 'y', 'z').inner, inner]; }, 5, {tag: 'outer'}, 'a2', [1, [2]]); JSON.stringify(r)";
                    match self.run_script(nested, None) {
                        Ok((s, v)) => {
                            let want = "s:[[5,[18,6,\"b1\",{\"b\":2},[3],\"b4\",\"b5\"]],5,{\"tag\":\"outer\"},\"a2\",[1,[2]]]";
                            if s != want {
                                self.problem("content", format!("nested native callbacks: a callback read {} after the nested call, expected {}", truncate(&s, 240), want));
                            }
                            if !v.is_null() {
                                tsrun_value_free(v);
                            }
                        }
                        Err(e) => self.problem("unexpected-error", format!("nested native callback script failed: {}", e)),
                    }
                }
                30 | 31 => self.order_round_trip(),
                32 => self.module_round_trip(),
                34..=36 => {
                    // a value only a script can make, inspected through every read-only entry point
                    let src = *self.rng.pick(SCRIPT_VALUES);
                    match self.run_script(src, None) {
                        Ok((_, v)) => {
                            if !v.is_null() {
                                self.inspect_opaque(v);
                                self.add(v, Expect::Opaque, true);
                            }
                        }
                        Err(e) => {
                            // a palette entry this tree cannot evaluate is not a C17 matter
                            let _ = e;
                        }
                    }
                }
                _ => {
                    // call a script function through the API with host values
                    match self.run_script("(function(a, b){ var g = []; for (var i = 0; i < 60; i++) { g.push({}); } return JSON.stringify([a, b]); })", None) {
                        Ok((_, f)) => {
                            if f.is_null() {
                                return;
                            }
                            let (Some(i), Some(j)) = (self.pick_where(|h| !matches!(h.expect, Expect::Opaque)), self.pick_where(|h| !matches!(h.expect, Expect::Opaque))) else {
                                tsrun_value_free(f);
                                return;
                            };
                            let mut args = [self.handles[i].ptr, self.handles[j].ptr];
                            self.op("call");
                            let r = tsrun_call(self.ctx, f, std::ptr::null_mut(), args.as_mut_ptr(), 2);
                            if !r.value.is_null() {
                                let s = repr(self.ctx, r.value);
                                let want = Value::Array(vec![expect_json(&self.handles[i].expect).unwrap_or(Value::Null), expect_json(&self.handles[j].expect).unwrap_or(Value::Null)]);
                                let text = s.strip_prefix("s:").unwrap_or(&s);
                                let ok = serde_json::from_str::<Value>(text).map(|g| same_json(&g, &want)).unwrap_or(false);
                                let has_nonfinite = [i, j].iter().any(|k| matches!(self.handles[*k].expect, Expect::Num(n) if !n.is_finite()));
                                if !ok && !has_nonfinite {
                                    self.problem("content", format!("tsrun_call: the function saw {} but the host passed {}", truncate(text, 120), truncate(&want.to_string(), 120)));
                                }
                                tsrun_value_free(r.value);
                            }
                            tsrun_value_free(f);
                        }
                        Err(e) => self.problem("unexpected-error", format!("function script failed: {}", e)),
                    }
                }
            }
        }
    }

    /// script issues orders; the host answers with object values and releases the response
    /// handles right after tsrun_fulfill_orders, allocates, and the script reads the answers back
    fn order_round_trip(&mut self) {
        unsafe {
            let n = 1 + self.rng.below(3);
            let body: String = (0..n).map(|i| format!("const r{} = await order({{k: {}}}); out.push(JSON.stringify(r{})); ", i, i, i)).collect();
            let code = format!("import {{ order }} from 'tsrun:host';\nconst out = [];\n{}\nout.join('|')", body);
            let c = cstr(&code);
            let r = tsrun_prepare(self.ctx, c.as_ptr(), std::ptr::null());
            self.op("prepare(orders)");
            if !r.ok {
                self.problem("unexpected-error", format!("prepare of the order script failed: {:?}", read_cstr(r.error)));
                return;
            }
            let all_docs = docs();
            let mut answers: Vec<Value> = Vec::new();
            let mut sr: TsRunStepResult = std::mem::zeroed();
            for _round in 0..200 {
                tsrun_run(&mut sr, self.ctx);
                self.op("run");
                match sr.status {
                    TsRunStepStatus::Suspended => {
                        let mut ids = Vec::new();
                        for i in 0..sr.pending_count {
                            let o = &*sr.pending_orders.add(i);
                            ids.push(o.id);
                            // the payload must be what the script passed
                            let s = repr(self.ctx, o.payload);
                            let want = format!("o:{{\"k\":{}}}", answers.len() + i);
                            if s != want {
                                self.problem("content", format!("order payload reads {} instead of {}", s, want));
                            }
                        }
                        tsrun_step_result_free(&mut sr);
                        for id in ids {
                            let d = all_docs[self.rng.below(all_docs.len())].clone();
                            let t = cstr(&d.to_string());
                            let v = tsrun_json_parse(self.ctx, t.as_ptr());
                            let resp = TsRunOrderResponse { id, value: v.value, error: std::ptr::null() };
                            self.op("fulfill_orders");
                            let fr = tsrun_fulfill_orders(self.ctx, &resp, 1);
                            if !fr.ok {
                                self.problem("unexpected-error", format!("tsrun_fulfill_orders failed: {:?}", read_cstr(fr.error)));
                            }
                            // released right after being submitted
                            if !v.value.is_null() {
                                tsrun_value_free(v.value);
                            }
                            answers.push(d);
                        }
                        // allocate before the next step: a response kept alive only by the host handle would be recycled now
                        self.churn(150);
                    }
                    TsRunStepStatus::Complete => {
                        let s = repr(self.ctx, sr.value);
                        if !sr.value.is_null() {
                            tsrun_value_free(sr.value);
                        }
                        tsrun_step_result_free(&mut sr);
                        let want: Vec<String> = answers.iter().map(|d| d.to_string()).collect();
                        let got: Vec<&str> = s.strip_prefix("s:").unwrap_or(&s).split('|').collect();
                        let ok = got.len() == want.len() && got.iter().zip(answers.iter()).all(|(g, w)| serde_json::from_str::<Value>(g).map(|x| same_json(&x, w)).unwrap_or(false));
                        if !ok {
                            self.problem("content", format!("order responses: the script read {} but the host answered {}", truncate(&s, 200), truncate(&want.join("|"), 200)));
                        }
                        return;
                    }
                    TsRunStepStatus::Continue => tsrun_step_result_free(&mut sr),
                    TsRunStepStatus::Error => {
                        let m = read_cstr(sr.error).ok().flatten().unwrap_or_default();
                        tsrun_step_result_free(&mut sr);
                        self.problem("unexpected-error", format!("order script failed: {}", m));
                        return;
                    }
                    _ => {
                        tsrun_step_result_free(&mut sr);
                        self.problem("unexpected-error", "order script: unexpected step status".into());
                        return;
                    }
                }
            }
        }
    }

    fn module_round_trip(&mut self) {
        unsafe {
            let main = cstr("import { helper, TABLE } from './dep.ts';\nexport const answer = helper(20);\nexport const table = TABLE;\nexport function fn() { return 1; }\nexport default 'dflt';\nanswer");
            let path = cstr("/app/main.ts");
            let r = tsrun_prepare(self.ctx, main.as_ptr(), path.as_ptr());
            self.op("prepare(module)");
            if !r.ok {
                self.problem("unexpected-error", format!("prepare of the module failed: {:?}", read_cstr(r.error)));
                return;
            }
            let mut sr: TsRunStepResult = std::mem::zeroed();
            for _ in 0..50 {
                tsrun_run(&mut sr, self.ctx);
                self.op("run");
                match sr.status {
                    TsRunStepStatus::NeedImports => {
                        let mut paths = Vec::new();
                        for i in 0..sr.import_count {
                            let im = &*sr.imports.add(i);
                            for (what, p) in [("specifier", im.specifier), ("resolved_path", im.resolved_path)] {
                                match read_cstr(p) {
                                    Ok(Some(s)) => {
                                        if what == "resolved_path" {
                                            paths.push(s);
                                        }
                                    }
                                    Ok(None) => self.problem("bad-string", format!("import request {} is NULL", what)),
                                    Err(e) => self.problem("bad-string", format!("import request {}: {}", what, e)),
                                }
                            }
                        }
                        tsrun_step_result_free(&mut sr);
                        for p in paths {
                            let pc = cstr(&p);
                            let src = cstr("export function helper(x: number): number { return x * 2 + 2; }\nexport const TABLE = { rows: [1, 2, 3], name: 'dep' };\n");
                            self.op("provide_module");
                            tsrun_provide_module(self.ctx, pc.as_ptr(), src.as_ptr());
                        }
                    }
                    TsRunStepStatus::Complete => {
                        let s = repr(self.ctx, sr.value);
                        if !sr.value.is_null() {
                            tsrun_value_free(sr.value);
                        }
                        tsrun_step_result_free(&mut sr);
                        if s != "n:42" {
                            self.problem("content", format!("module result {} instead of 42", s));
                        }
                        break;
                    }
                    TsRunStepStatus::Continue => tsrun_step_result_free(&mut sr),
                    _ => {
                        let m = read_cstr(sr.error).ok().flatten().unwrap_or_default();
                        tsrun_step_result_free(&mut sr);
                        self.problem("unexpected-error", format!("module run failed: {}", m));
                        return;
                    }
                }
            }
            self.churn(100);
            let mut count: usize = 0;
            let names = tsrun_get_export_names(self.ctx, &mut count);
            self.op("get_export_names");
            let mut got = Vec::new();
            if !names.is_null() {
                for i in 0..count {
                    match read_cstr(*names.add(i)) {
                        Ok(Some(s)) => got.push(s),
                        Ok(None) => self.problem("bad-string", "export name is NULL".into()),
                        Err(e) => self.problem("bad-string", format!("export name: {}", e)),
                    }
                }
                tsrun_free_strings(names, count);
            }
            for want in ["answer", "table", "fn", "default"] {
                if !got.iter().any(|g| g == want) {
                    self.problem("content", format!("export names {:?} miss '{}'", got, want));
                }
            }
            let t = cstr("table");
            let r = tsrun_get_export(self.ctx, t.as_ptr());
            self.op("get_export");
            self.add(r.value, Expect::Json(json!({"rows": [1, 2, 3], "name": "dep"})), true);
        }
    }

    /// end of a sequence: verify every live handle, then release in one of the allowed orders
    fn finish(&mut self, free_ctx_first: bool) {
        for i in 0..self.handles.len() {
            self.verify(i, "at the end of the sequence");
        }
        unsafe {
            if free_ctx_first {
                // values may outlive their context: afterwards only tsrun_value_free is used on them
                self.op("free(ctx)");
                tsrun_free(self.ctx);
                self.ctx = std::ptr::null_mut();
                let hs: Vec<Handle> = std::mem::take(&mut self.handles);
                for h in hs {
                    self.op("value_free(after ctx)");
                    tsrun_value_free(h.ptr);
                }
            } else {
                let hs: Vec<Handle> = std::mem::take(&mut self.handles);
                for h in hs {
                    tsrun_value_free(h.ptr);
                }
                tsrun_free(self.ctx);
                self.ctx = std::ptr::null_mut();
            }
        }
    }
}

/// (api calls, problems, stale events, collections that ran during the sequence, first operations)
struct SeqOutcome {
    calls: u64,
    problems: Vec<(String, String)>,
    stale: Vec<String>,
    collections: u64,
    swept: u64,
    trace_head: Vec<String>,
}

fn run_sequence_full(family: &str, shard: u64, n: u64, len: usize, scripts: bool) -> SeqOutcome {
    let c0 = tsrun::verif::gc_counters();
    let (calls, problems, stale, trace_head) = run_sequence_inner(family, shard, n, len, scripts);
    let c1 = tsrun::verif::gc_counters();
    SeqOutcome { calls, problems, stale, collections: c1.collections - c0.collections, swept: c1.swept - c0.swept, trace_head }
}

fn run_sequence(family: &str, shard: u64, n: u64, len: usize, scripts: bool) -> (u64, Vec<(String, String)>, Vec<String>) {
    let o = run_sequence_full(family, shard, n, len, scripts);
    (o.calls, o.problems, o.stale)
}

fn run_sequence_inner(family: &str, shard: u64, n: u64, len: usize, scripts: bool) -> (u64, Vec<(String, String)>, Vec<String>, Vec<String>) {
    tsrun::verif::take_gc_events();
    let mut d = Driver::new(family, shard, n, scripts);
    if d.ctx.is_null() {
        return (0, vec![("null-handle".into(), "tsrun_new returned NULL".into())], vec![], vec![]);
    }
    for _ in 0..len {
        d.step();
    }
    let ctx_first = d.rng.chance(1, 2);
    let head: Vec<String> = d.trace.iter().take(60).cloned().collect();
    d.finish(ctx_first);
    let stale: Vec<String> = tsrun::verif::take_gc_events().into_iter().filter(|e| e.kind != "clone" && e.kind != "drop_reused").map(|e| format!("{}@{}", e.kind, if e.site.is_empty() { "<host>" } else { e.site.as_str() })).collect();
    (d.calls, d.problems, stale, head)
}

// ───────────────────────────── NULL in every pointer position ─────────────────────────────

/// every exported function with NULL in one pointer position at a time (others valid);
/// returns (calls made, problems)
fn null_matrix() -> (u64, Vec<(String, String)>) {
    let mut problems: Vec<(String, String)> = Vec::new();
    let mut calls = 0u64;
    unsafe {
        let ctx = tsrun_new();
        let null_ctx: *mut TsRunContext = std::ptr::null_mut();
        let null_val: *mut TsRunValue = std::ptr::null_mut();
        let null_str: *const c_char = std::ptr::null();
        let obj = tsrun_object_new(ctx).value;
        let arr = tsrun_array_new(ctx).value;
        let num = tsrun_number(ctx, 1.0);
        let key = cstr("k");
        let code = cstr("1 + 1");
        let mut check_res = |name: &str, r: TsRunResult| {
            calls += 1;
            if r.ok {
                problems.push(("misuse-accepted".into(), format!("{} with a NULL argument reported success", name)));
            } else if r.error.is_null() {
                problems.push(("misuse-silent".into(), format!("{} with a NULL argument failed without an error message", name)));
            } else if CStr::from_ptr(r.error).to_str().is_err() {
                problems.push(("bad-string".into(), format!("{}: error message is not UTF-8", name)));
            }
        };
        check_res("tsrun_prepare(ctx=NULL)", tsrun_prepare(null_ctx, code.as_ptr(), null_str));
        check_res("tsrun_prepare(code=NULL)", tsrun_prepare(ctx, null_str, null_str));
        check_res("tsrun_set_console(ctx=NULL)", tsrun_set_console(null_ctx, None, std::ptr::null_mut()));
        check_res("tsrun_provide_module(ctx=NULL)", tsrun_provide_module(null_ctx, key.as_ptr(), code.as_ptr()));
        check_res("tsrun_provide_module(path=NULL)", tsrun_provide_module(ctx, null_str, code.as_ptr()));
        check_res("tsrun_provide_module(code=NULL)", tsrun_provide_module(ctx, key.as_ptr(), null_str));
        check_res("tsrun_set(ctx=NULL)", tsrun_set(null_ctx, obj, key.as_ptr(), num));
        check_res("tsrun_set(obj=NULL)", tsrun_set(ctx, null_val, key.as_ptr(), num));
        check_res("tsrun_set(key=NULL)", tsrun_set(ctx, obj, null_str, num));
        check_res("tsrun_set(val=NULL)", tsrun_set(ctx, obj, key.as_ptr(), null_val));
        check_res("tsrun_delete(ctx=NULL)", tsrun_delete(null_ctx, obj, key.as_ptr()));
        check_res("tsrun_delete(obj=NULL)", tsrun_delete(ctx, null_val, key.as_ptr()));
        check_res("tsrun_delete(key=NULL)", tsrun_delete(ctx, obj, null_str));
        check_res("tsrun_array_set(ctx=NULL)", tsrun_array_set(null_ctx, arr, 0, num));
        check_res("tsrun_array_set(arr=NULL)", tsrun_array_set(ctx, null_val, 0, num));
        check_res("tsrun_array_set(val=NULL)", tsrun_array_set(ctx, arr, 0, null_val));
        check_res("tsrun_array_push(ctx=NULL)", tsrun_array_push(null_ctx, arr, num));
        check_res("tsrun_array_push(arr=NULL)", tsrun_array_push(ctx, null_val, num));
        check_res("tsrun_array_push(val=NULL)", tsrun_array_push(ctx, arr, null_val));
        check_res("tsrun_set_global(ctx=NULL)", tsrun_set_global(null_ctx, key.as_ptr(), num));
        check_res("tsrun_set_global(name=NULL)", tsrun_set_global(ctx, null_str, num));
        check_res("tsrun_set_global(val=NULL)", tsrun_set_global(ctx, key.as_ptr(), null_val));
        check_res("tsrun_fulfill_orders(ctx=NULL)", tsrun_fulfill_orders(null_ctx, std::ptr::null(), 0));
        check_res("tsrun_fulfill_orders(responses=NULL,count=1)", tsrun_fulfill_orders(ctx, std::ptr::null(), 1));
        check_res("tsrun_resolve_promise(ctx=NULL)", tsrun_resolve_promise(null_ctx, obj, num));
        check_res("tsrun_resolve_promise(promise=NULL)", tsrun_resolve_promise(ctx, null_val, num));
        check_res("tsrun_reject_promise(ctx=NULL)", tsrun_reject_promise(null_ctx, obj, key.as_ptr()));
        check_res("tsrun_reject_promise(promise=NULL)", tsrun_reject_promise(ctx, null_val, key.as_ptr()));
        check_res("tsrun_register_internal_module(ctx=NULL)", tsrun_register_internal_module(null_ctx, std::ptr::null_mut()));
        check_res("tsrun_register_internal_module(module=NULL)", tsrun_register_internal_module(ctx, std::ptr::null_mut()));

        let mut check_val = |name: &str, r: TsRunValueResult| {
            calls += 1;
            if !r.value.is_null() {
                problems.push(("misuse-accepted".into(), format!("{} with a NULL argument returned a value", name)));
                tsrun_value_free(r.value);
            } else if r.error.is_null() {
                problems.push(("misuse-silent".into(), format!("{} with a NULL argument failed without an error message", name)));
            } else if CStr::from_ptr(r.error).to_str().is_err() {
                problems.push(("bad-string".into(), format!("{}: error message is not UTF-8", name)));
            }
        };
        check_val("tsrun_get(ctx=NULL)", tsrun_get(null_ctx, obj, key.as_ptr()));
        check_val("tsrun_get(obj=NULL)", tsrun_get(ctx, null_val, key.as_ptr()));
        check_val("tsrun_get(key=NULL)", tsrun_get(ctx, obj, null_str));
        check_val("tsrun_array_get(ctx=NULL)", tsrun_array_get(null_ctx, arr, 0));
        check_val("tsrun_array_get(arr=NULL)", tsrun_array_get(ctx, null_val, 0));
        check_val("tsrun_json_parse(ctx=NULL)", tsrun_json_parse(null_ctx, key.as_ptr()));
        check_val("tsrun_json_parse(json=NULL)", tsrun_json_parse(ctx, null_str));
        check_val("tsrun_object_new(ctx=NULL)", tsrun_object_new(null_ctx));
        check_val("tsrun_array_new(ctx=NULL)", tsrun_array_new(null_ctx));
        check_val("tsrun_get_export(ctx=NULL)", tsrun_get_export(null_ctx, key.as_ptr()));
        check_val("tsrun_get_export(name=NULL)", tsrun_get_export(ctx, null_str));
        check_val("tsrun_get_global(ctx=NULL)", tsrun_get_global(null_ctx, key.as_ptr()));
        check_val("tsrun_get_global(name=NULL)", tsrun_get_global(ctx, null_str));
        check_val("tsrun_call(ctx=NULL)", tsrun_call(null_ctx, obj, null_val, std::ptr::null_mut(), 0));
        check_val("tsrun_call(func=NULL)", tsrun_call(ctx, null_val, null_val, std::ptr::null_mut(), 0));
        check_val("tsrun_call_method(ctx=NULL)", tsrun_call_method(null_ctx, obj, key.as_ptr(), std::ptr::null_mut(), 0));
        check_val("tsrun_call_method(obj=NULL)", tsrun_call_method(ctx, null_val, key.as_ptr(), std::ptr::null_mut(), 0));
        check_val("tsrun_call_method(method=NULL)", tsrun_call_method(ctx, obj, null_str, std::ptr::null_mut(), 0));
        check_val("tsrun_native_function(ctx=NULL)", tsrun_native_function(null_ctx, key.as_ptr(), nat_echo, 1, std::ptr::null_mut()));
        check_val("tsrun_create_pending_order(ctx=NULL)", tsrun_create_pending_order(null_ctx, obj, std::ptr::null_mut()));
        check_val("tsrun_create_order_promise(ctx=NULL)", tsrun_create_order_promise(null_ctx, 1));

        // functions returning plain values / pointers: NULL must be tolerated (no crash) and give the neutral answer
        calls += 30;
        let _ = tsrun_typeof(null_val);
        for f in [tsrun_is_undefined, tsrun_is_null, tsrun_is_nullish, tsrun_is_boolean, tsrun_is_number, tsrun_is_string, tsrun_is_object, tsrun_is_array, tsrun_is_function, tsrun_get_bool] {
            let _ = f(null_val);
        }
        let _ = tsrun_get_number(null_val);
        if !tsrun_get_string(null_val).is_null() {
            problems.push(("misuse-accepted".into(), "tsrun_get_string(NULL) returned a string".into()));
        }
        let _ = tsrun_get_string_len(null_val);
        let _ = tsrun_array_len(null_val);
        for p in [tsrun_undefined(null_ctx), tsrun_null(null_ctx), tsrun_boolean(null_ctx, true), tsrun_number(null_ctx, 1.0), tsrun_string(null_ctx, key.as_ptr()), tsrun_string(ctx, null_str), tsrun_string_len(ctx, null_str, 3), tsrun_value_dup(null_ctx, num), tsrun_value_dup(ctx, null_val)] {
            if !p.is_null() {
                tsrun_value_free(p);
            }
        }
        let _ = tsrun_has(null_ctx, obj, key.as_ptr());
        let _ = tsrun_has(ctx, null_val, key.as_ptr());
        let _ = tsrun_has(ctx, obj, null_str);
        let mut cnt: usize = 7;
        let ks = tsrun_keys(null_ctx, obj, &mut cnt);
        if !ks.is_null() {
            tsrun_free_strings(ks, cnt);
        }
        let ks = tsrun_keys(ctx, null_val, &mut cnt);
        if !ks.is_null() {
            tsrun_free_strings(ks, cnt);
        }
        let ks = tsrun_keys(ctx, obj, std::ptr::null_mut());
        if !ks.is_null() {
            tsrun_free_strings(ks, 0);
        }
        let en = tsrun_get_export_names(null_ctx, &mut cnt);
        if !en.is_null() {
            tsrun_free_strings(en, cnt);
        }
        let en = tsrun_get_export_names(ctx, std::ptr::null_mut());
        if !en.is_null() {
            tsrun_free_strings(en, 0);
        }
        let s = tsrun_json_stringify(null_ctx, obj);
        if !s.is_null() {
            tsrun_free_string(s);
        }
        let s = tsrun_json_stringify(ctx, null_val);
        if !s.is_null() {
            tsrun_free_string(s);
        }
        tsrun_free_string(std::ptr::null_mut());
        tsrun_free_strings(std::ptr::null_mut(), 0);
        tsrun_value_free(null_val);
        tsrun_step_result_free(std::ptr::null_mut());
        let mut sr: TsRunStepResult = std::mem::zeroed();
        tsrun_step(&mut sr, null_ctx);
        tsrun_step_result_free(&mut sr);
        tsrun_run(&mut sr, null_ctx);
        tsrun_step_result_free(&mut sr);
        tsrun_step(std::ptr::null_mut(), ctx);
        tsrun_run(std::ptr::null_mut(), ctx);
        let _ = tsrun_gc_stats(null_ctx);
        let m = tsrun_internal_module_new(null_str);
        if !m.is_null() {
            tsrun_internal_module_add_function(m, null_str, nat_echo, 0, std::ptr::null_mut());
            tsrun_internal_module_add_value(m, null_str, num);
            tsrun_internal_module_add_value(m, key.as_ptr(), null_val);
            tsrun_register_internal_module(ctx, m);
        }
        tsrun_internal_module_add_function(std::ptr::null_mut(), key.as_ptr(), nat_echo, 0, std::ptr::null_mut());
        tsrun_internal_module_add_value(std::ptr::null_mut(), key.as_ptr(), num);
        // the live values must be unharmed by all of that
        let s = repr(ctx, obj);
        if s != "o:{}" {
            problems.push(("content".into(), format!("after the NULL matrix the object handle reads {}", s)));
        }
        tsrun_value_free(obj);
        tsrun_value_free(arr);
        tsrun_value_free(num);
        tsrun_free(ctx);
        tsrun_free(null_ctx);
    }
    (calls, problems)
}

// ───────────────────────────── units ─────────────────────────────

const SHARDS: u64 = 8;

fn plan(ctx: &Ctx) -> (usize, u64, usize, bool) {
    // (units, sequences per unit, ops per sequence, with scripts)
    match (ctx.engine.as_str(), ctx.thorough()) {
        ("miri", false) => (6, 1, 12, false),
        ("miri", true) => (16, 1, 16, false),
        ("asan", false) => (16, 12, 200, true),
        ("asan", true) => (64, 20, 200, true),
        (_, false) => (16, 40, 200, true),
        (_, true) => (64, 60, 200, true),
    }
}

impl Check for C17 {
    fn units(&self, ctx: &Ctx) -> usize {
        plan(ctx).0 + 1
    }

    fn run_unit(&self, ctx: &Ctx, idx: usize) -> UnitResult {
        let mut r = UnitResult::default();
        let (units, per, len, scripts) = plan(ctx);
        if idx == units {
            if ctx.engine == "miri" {
                // the NULL matrix needs no interpreter runs: cheap enough for Miri too
            }
            eprintln!("SEQ null-matrix");
            let (calls, problems) = null_matrix();
            r.evaluations += 1;
            r.nontrivial += 1;
            r.stat("api_calls", calls as i64);
            r.stat("null_argument_positions", calls as i64);
            for (k, w) in problems {
                let key = w.split(" with ").next().unwrap_or("").to_string();
                r.violate(format!("null|{}|{}", k, key), format!("NULL matrix: {}", w), json!({"kind": "null-matrix"}));
            }
            r.sample(json!({"null_matrix": "every pointer parameter of every exported function NULL in turn"}));
            return r;
        }
        let shard = if ctx.thorough() { idx as u64 } else { (ctx.seed % SHARDS) * 100 + idx as u64 };
        for n in 0..per {
            eprintln!("SEQ {}/{}/{}", ctx.engine, shard, n);
            let o = run_sequence_full("c17.seq", shard, n, len, scripts);
            let (calls, problems, stale) = (o.calls, o.problems, o.stale);
            r.evaluations += 1;
            // non-trivial: at least one collection reclaimed something while the sequence held handles
            // (Miri sequences are too short for that: there every sequence counts)
            if o.swept > 0 || ctx.engine == "miri" {
                r.nontrivial += 1;
            }
            r.stat("api_calls", calls as i64);
            r.stat("sequences", 1);
            r.stat("collections_during_sequences", o.collections as i64);
            r.stat("objects_swept_during_sequences", o.swept as i64);
            if n == 0 && idx < 2 {
                r.sample(json!({"engine": ctx.engine, "sequence": format!("{}/{}", shard, n), "first_operations": o.trace_head, "api_calls": calls, "collections": o.collections}));
            }
            let case = json!({"kind": "sequence", "shard": shard, "n": n, "len": len, "scripts": scripts, "engine": ctx.engine});
            for (k, w) in problems {
                // signature: the kind of problem and the operation that exposed it
                let opname = w.split(" (after: ").nth(1).and_then(|t| t.trim_end_matches(')').rsplit(" > ").next().map(|s| s.to_string())).unwrap_or_default();
                r.violate(format!("sequence|{}|{}", k, opname), format!("sequence {}/{}: {}", shard, n, w), case.clone());
            }
            if !stale.is_empty() {
                let mut s = stale.clone();
                s.sort();
                s.dedup();
                r.violate(format!("stale|{}", s.join(",")), format!("sequence {}/{}: a reclaimed object was used through the API ({})", shard, n, s.join(",")), case);
            }
        }
        r
    }

    fn replay(&self, ctx: &Ctx, case: &Value) -> UnitResult {
        let mut r = UnitResult::default();
        if case["kind"] == "null-matrix" {
            let (_, problems) = null_matrix();
            for (k, w) in problems {
                r.violate(format!("null|{}", k), w, case.clone());
            }
            return r;
        }
        if let Some(unit) = case["unit"].as_u64() {
            // a crash report names the unit: re-run it (the crash reproduces in this process)
            return self.run_unit(ctx, unit as usize);
        }
        let (calls, problems, stale) = run_sequence("c17.seq", case["shard"].as_u64().unwrap_or(0), case["n"].as_u64().unwrap_or(0), case["len"].as_u64().unwrap_or(200) as usize, case["scripts"].as_bool().unwrap_or(true));
        r.stat("api_calls", calls as i64);
        for (k, w) in problems {
            r.violate(format!("sequence|{}", k), w, case.clone());
        }
        if !stale.is_empty() {
            r.violate("stale".to_string(), stale.join(","), case.clone());
        }
        let _ = Map::<String, Value>::new();
        r
    }
}
