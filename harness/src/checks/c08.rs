//! C08 — the order protocol is exact: every order reported once, no lost wake-ups.
//!
//! An online ledger (harness/src/asynchost.rs) is fed at the API boundary: every
//! StepResult::Suspended list, every fulfil / settle call, the final result and the H4
//! quiescence summary. It flags: an order id reported twice / not fresh / with a damaged
//! payload; a cancellation of an unissued id or reported twice; Suspended while every
//! order is answered and every host promise settled (lost wake-up); no progress within
//! 300000 steps after the host answered; a spurious step() that reports events or makes
//! progress; Complete while something is outstanding. Host misuse (unknown, duplicate,
//! premature answers) must be safe: same result as the cooperative run.

use crate::asynchost::{self, Policy};
use crate::isolate::{self, Exit, Limits};
use crate::util::*;
use serde_json::{Value, json};

pub struct C08;

const PROTOCOL_PROGRAMS: &[(&str, &str)] = &[
    ("one", "async function main(){ return await order({k: 1}); }"),
    ("two-seq", "async function main(){ const a = await order({k: 1}); const b = await order({k: 2}); return [a, b]; }"),
    ("three-seq-dependent", "async function main(){ const a = await order({k: 1}); const b = await order({k: a}); const c = await order({k: b}); return [a, b, c]; }"),
    ("all-3", "async function main(){ const p1 = order({k: 1}); const p2 = order({k: 2}); const p3 = order({k: 3}); return await Promise.all([p1, p2, p3]); }"),
    ("all-then-more", "async function main(){ const p1 = order({k: 1}); const p2 = order({k: 2}); const r = await Promise.all([p1, p2]); const c = await order({k: r[0] + r[1]}); return [r, c]; }"),
    ("race-2", "async function main(){ const p1 = order({k: 1}); const p2 = order({k: 2}); const w = await Promise.race([p1, p2]); return typeof w; }"),
    ("race-3-then-order", "async function main(){ const ps = [order({k: 1}), order({k: 2}), order({k: 3})]; const w = await Promise.race(ps); const after = await order({k: 10}); return [typeof w, after]; }"),
    ("race-tagged-3-then-order", "async function main(){ const ps = [order({k: 1, r: 1}), order({k: 2, r: 1}), order({k: 3, r: 1})]; const w = await Promise.race(ps); const after = await order({k: 10}); return [typeof w, after]; }"),
    ("race-mixed-unlinked-first", "async function main(){ const never = new Promise(function(){}); const ps = [never, order({k: 1, r: 1}), order({k: 2, r: 1}), order({k: 3, r: 1})]; const w = await Promise.race(ps); const after = await order({k: 10}); return [typeof w, after]; }"),
    ("race-mixed-unlinked-middle", "async function main(){ const never = new Promise(function(){}); const later = new Promise(function(){}); const ps = [order({k: 1, r: 1}), never, order({k: 2, r: 1}), later, order({k: 3, r: 1})]; const w = await Promise.race(ps); const after = await order({k: 10}); const more = await order({k: 11}); return [typeof w, after, more]; }"),
    ("race-mixed-plain-values-last", "async function main(){ const ps = [order({k: 1, r: 1}), order({k: 2, r: 1}), new Promise(function(){})]; const w = await Promise.race(ps); const after = await order({k: 10}); return [typeof w, after]; }"),
    ("race-twice", "async function main(){ const w1 = await Promise.race([new Promise(function(){}), order({k: 1, r: 1}), order({k: 2, r: 1})]); const mid = await order({k: 5}); const w2 = await Promise.race([order({k: 3}), order({k: 4})]); const after = await order({k: 10}); return [typeof w1, mid, typeof w2, after]; }"),
    ("any-2", "async function main(){ const p1 = order({k: 1}); const p2 = order({k: 2}); const w = await Promise.any([p1, p2]); return typeof w; }"),
    ("allSettled-2", "async function main(){ const p1 = order({k: 1}); const p2 = order({k: 2}); const r = await Promise.allSettled([p1, p2]); return r.map(x => x.status).sort(); }"),
    ("error-middle", "async function main(){ const out = []; for (const p of [{k: 1}, {err: 'bad'}, {k: 3}]) { try { out.push(await order(p)); } catch (e) { out.push('E:' + String(e)); } } return out; }"),
    ("error-in-all", "async function main(){ const p1 = order({k: 1}); const p2 = order({err: 'x'}); try { return await Promise.all([p1, p2]); } catch (e) { return 'caught:' + String(e); } }"),
    ("fire-and-forget", "async function main(){ const p1 = order({k: 1}); const v = await order({k: 2}); return [typeof p1, v]; }"),
    ("nested-fn-orders", "async function main(){ async function get(k){ return await order({k}); } const a = await get(1); const [b, c] = await Promise.all([get(2), get(3)]); return [a, b, c]; }"),
    ("loop-6", "async function main(){ let s = 0; for (let i = 1; i <= 6; i++) { s += await order({k: i}); } return s; }"),
    ("then-chain-on-host-promise", "async function main(){ const p = order({k: 2}); const q = Promise.resolve(p).then(v => v + 1); const r = await q; return r; }"),
    ("await-same-promise-twice", "async function main(){ const p = order({k: 4}); const a = await p; const b = await p; return [a, b]; }"),
];

struct Case {
    id: String,
    body: String,
}

fn cases() -> Vec<Case> {
    let mut v: Vec<Case> = PROTOCOL_PROGRAMS.iter().map(|(n, b)| Case { id: format!("proto.{}", n), body: b.to_string() }).collect();
    v.extend(asynchost::CONCURRENT_ATOMS.iter().map(|(n, b)| Case { id: format!("concurrent.{}", n), body: b.to_string() }));
    v.extend(asynchost::AWAIT_ATOMS.iter().map(|(n, b)| Case { id: format!("await.{}", n), body: b.to_string() }));
    v
}

/// composed corpus programs whose numeric literals are read from the host (C07's generated
/// family): dozens of orders per run, issued from loops, switch arms, finally blocks,
/// destructuring defaults and constructor arguments
fn composed(ctx: &Ctx) -> Vec<Case> {
    use super::c07;
    let (shards, per): (Vec<u64>, u64) = if ctx.thorough() { ((0..c07::COMPOSED_SHARDS).collect(), 40) } else { (vec![ctx.seed % c07::COMPOSED_SHARDS], 24) };
    let mut v = Vec::new();
    for sh in shards {
        for i in 0..per {
            if let Some(c) = c07::composed_case(sh, i, i % 2) {
                v.push(Case { id: c.id, body: c.body });
            }
        }
    }
    v
}

/// enumerated host policies: deferred mask over the first 3 orders x settlement order x
/// batching x spurious steps x hostile extras
fn policies(full: bool, thorough: bool) -> Vec<(String, Policy)> {
    let mut v = Vec::new();
    let masks: Vec<u8> = if full { (0..8).collect() } else { vec![0, 7, 5] };
    let settles: Vec<u64> = if full { if thorough { vec![0, 1, 100, 101, 102, 103] } else { vec![0, 1, 100, 101] } } else { vec![0, 1] };
    for m in &masks {
        for settle in &settles {
            for batch in [false, true] {
                for extra in [0usize, 2] {
                    for hostile in 0..4u8 {
                        if !full && (batch || hostile == 3) && *settle == 1 {
                            continue;
                        }
                        let deferred = vec![m & 1 != 0, m & 2 != 0, m & 4 != 0];
                        v.push((
                            format!("m{}s{}{}x{}h{}", m, settle, if batch { "b" } else { "" }, extra, hostile),
                            Policy { deferred, deferred_default: m & 1 != 0, extra_steps: extra, settle: *settle, settle_batch: batch, gc_threshold: if m % 2 == 0 { Some(1) } else { None }, collect: *settle == 1, hostile },
                        ));
                    }
                }
            }
        }
    }
    v
}

fn coop_name(p: &str) -> String {
    // the same policy without hostile extras
    format!("{}h0", &p[..p.len() - 2])
}

const PER_UNIT: usize = 4;

fn judge(r: &mut UnitResult, cs: &[Case], thorough: bool) {
    let lim = Limits { wall: std::time::Duration::from_secs(400), address_space: 3 << 30, stack: 0 };
    let exit = isolate::run(&lim, || {
        for (ci, c) in cs.iter().enumerate() {
            let full = c.id.starts_with("proto.");
            let src = asynchost::program(&c.body, true);
            for (pn, p) in policies(full, thorough) {
                let run = asynchost::run(&src, &p);
                let probs: Vec<String> = run.problems.iter().map(|(a, b)| format!("{}\u{5}{}", a, b)).collect();
                isolate::emit(&format!("{}\u{2}{}\u{2}{}\u{2}{}\u{2}{},{},{}\u{2}{}\u{3}", ci, pn, run.outcome, probs.join("\u{4}"), run.suspensions, run.orders_issued, run.cancellations, run.history.join(" / ")));
            }
        }
        String::new()
    });
    let text = match exit {
        Exit::Ok(t) | Exit::Signal(_, t) | Exit::Status(_, t) | Exit::Timeout(t) => t,
    };
    let mut outcomes: std::collections::BTreeMap<(usize, String), String> = Default::default();
    let mut recs: Vec<Vec<String>> = Vec::new();
    for rec in text.split('\u{3}') {
        let f: Vec<String> = rec.split('\u{2}').map(|s| s.to_string()).collect();
        if f.len() < 6 {
            continue;
        }
        if let Ok(ci) = f[0].parse::<usize>() {
            outcomes.insert((ci, f[1].clone()), f[2].clone());
        }
        recs.push(f);
    }
    for f in &recs {
        let Ok(ci) = f[0].parse::<usize>() else { continue };
        r.evaluations += 1;
        let nums: Vec<i64> = f[4].split(',').filter_map(|x| x.parse().ok()).collect();
        if nums.first().copied().unwrap_or(0) > 0 {
            r.nontrivial += 1;
        }
        r.stat("suspensions_observed", nums.first().copied().unwrap_or(0));
        r.stat("orders_observed", nums.get(1).copied().unwrap_or(0));
        r.stat("cancellations_observed", nums.get(2).copied().unwrap_or(0));
        let hostile = f[1].ends_with("h1") || f[1].ends_with("h2") || f[1].ends_with("h3");
        let mut classes = std::collections::BTreeSet::new();
        if !f[3].is_empty() {
            for p in f[3].split('\u{4}') {
                if let Some((c, d)) = p.split_once('\u{5}')
                    && classes.insert(c.to_string())
                {
                    r.violate(
                        format!("{}|{}|{}", c, cs[ci].id, if hostile { "hostile" } else { "cooperative" }),
                        format!("{} under host policy {}: {} (history: {})", cs[ci].id, f[1], d, truncate(&f[5], 240)),
                        json!({"id": cs[ci].id, "policy": f[1]}),
                    );
                }
            }
        }
        if hostile
            && let Some(coop) = outcomes.get(&(ci, coop_name(&f[1])))
            && *coop != f[2]
            && !cs[ci].id.contains("race")
        {
            r.violate(
                format!("hostile-changes-result|{}|h{}", cs[ci].id, &f[1][f[1].len() - 1..]),
                format!("{}: with host misuse ({}) the result is {} but {} without it", cs[ci].id, f[1], truncate(&f[2], 160), truncate(coop, 160)),
                json!({"id": cs[ci].id, "policy": f[1]}),
            );
        }
    }
}

const COMPOSED_PER_UNIT: usize = 12;

impl Check for C08 {
    fn units(&self, ctx: &Ctx) -> usize {
        cases().len().div_ceil(PER_UNIT) + composed(ctx).len().div_ceil(COMPOSED_PER_UNIT)
    }

    fn run_unit(&self, ctx: &Ctx, idx: usize) -> UnitResult {
        let mut r = UnitResult::default();
        let all = cases();
        let na = all.len().div_ceil(PER_UNIT);
        if idx >= na {
            let comp = composed(ctx);
            let lo = (idx - na) * COMPOSED_PER_UNIT;
            let hi = (lo + COMPOSED_PER_UNIT).min(comp.len());
            judge(&mut r, &comp[lo..hi], false);
            r.stat("composed_programs", (hi - lo) as i64);
            if let Some(c) = comp.get(lo) {
                let run = asynchost::run(&asynchost::program(&c.body, true), &Policy { deferred_default: true, ..Policy::default() });
                r.sample(json!({"program": c.id, "policy": "deferred", "orders_issued": run.orders_issued, "suspensions": run.suspensions, "boundary_history_head": run.history.iter().take(6).collect::<Vec<_>>()}));
            }
            return r;
        }
        let lo = idx * PER_UNIT;
        let hi = (lo + PER_UNIT).min(all.len());
        judge(&mut r, &all[lo..hi], ctx.thorough());
        if let Some(c) = all.get(lo) {
            let p = policies(true, false);
            let run = asynchost::run(&asynchost::program(&c.body, true), &p[p.len() / 2].1);
            r.sample(json!({"program": c.id, "policy": p[p.len() / 2].0, "boundary_history": run.history, "outcome": run.outcome}));
        }
        r
    }

    fn replay(&self, _ctx: &Ctx, case: &Value) -> UnitResult {
        let mut r = UnitResult::default();
        let id = case["id"].as_str().unwrap_or("");
        let cs: Vec<Case> = if let Some(rest) = id.strip_prefix("composed.") {
            let (sh, rest) = rest.split_once('/').unwrap_or(("0", "0#0"));
            let (ix, var) = rest.split_once('#').unwrap_or(("0", "0"));
            super::c07::composed_case(sh.parse().unwrap_or(0), ix.parse().unwrap_or(0), var.parse().unwrap_or(0)).map(|c| Case { id: c.id, body: c.body }).into_iter().collect()
        } else {
            cases().into_iter().filter(|c| c.id == id).collect()
        };
        judge(&mut r, &cs, true);
        r
    }
}
