//! C15 — numbers convert to and from text and integers exactly as specified.
//!
//! Oracles (all independent of tsrun's code): shortest-round-trip digits (checked three
//! ways: against Rust's shortest formatting, by parsing the output back, and by showing
//! no shorter digit string round-trips), ECMAScript notation layout, exact-decimal
//! arithmetic with round-half-up for toFixed / toPrecision / toExponential, modular
//! ToInt32/ToUint32, exact integer radix conversion. Native entry points are called
//! directly; the script-visible paths (String(), template, JSON.stringify, literals,
//! parseFloat/parseInt/Number, |0, >>>0, shifts, the formatters) run in-program.

use crate::runner::{self, RunConfig};
use crate::util::*;
use serde_json::{Value, json};

pub struct C15;

// ───────────────────────────── reference: Number::toString ─────────────────────────────

/// Shortest round-trip digits and decimal point position: x = 0.DIGITS * 10^point.
fn shortest(x: f64) -> (String, i32) {
    let sci = format!("{:e}", x.abs());
    let (m, e) = sci.split_once('e').unwrap();
    let digits: String = m.chars().filter(|c| *c != '.').collect();
    (digits, e.parse::<i32>().unwrap() + 1)
}

fn layout(neg: bool, digits: &str, point: i32) -> String {
    let k = digits.len() as i32;
    let sign = if neg { "-" } else { "" };
    if k <= point && point <= 21 {
        format!("{}{}{}", sign, digits, "0".repeat((point - k) as usize))
    } else if 0 < point && point <= 21 {
        format!("{}{}.{}", sign, &digits[..point as usize], &digits[point as usize..])
    } else if -6 < point && point <= 0 {
        format!("{}0.{}{}", sign, "0".repeat((-point) as usize), digits)
    } else {
        let e = point - 1;
        let es = if e < 0 { "-" } else { "+" };
        if k == 1 {
            format!("{}{}e{}{}", sign, digits, es, e.abs())
        } else {
            format!("{}{}.{}e{}{}", sign, &digits[..1], &digits[1..], es, e.abs())
        }
    }
}

pub fn ref_to_string(x: f64) -> String {
    if x.is_nan() {
        return "NaN".into();
    }
    if x.is_infinite() {
        return if x > 0.0 { "Infinity".into() } else { "-Infinity".into() };
    }
    if x == 0.0 {
        return "0".into();
    }
    let (d, p) = shortest(x);
    layout(x < 0.0, &d, p)
}

/// Parse an ES number string back into (neg, significant digits without leading/trailing
/// zeros, point) — independent of how it was produced. None = not in ES layout grammar.
fn parse_layout(s: &str) -> Option<(bool, String, i32, bool)> {
    let (neg, body) = match s.strip_prefix('-') {
        Some(r) => (true, r),
        None => (false, s),
    };
    let (mant, exp, has_exp) = match body.split_once('e') {
        Some((m, e)) => {
            if !(e.starts_with('+') || e.starts_with('-')) {
                return None;
            }
            let ev: i32 = e[1..].parse().ok()?;
            if e[1..].starts_with('0') && e.len() > 2 {
                return None;
            }
            (m, if e.starts_with('-') { -ev } else { ev }, true)
        }
        None => (body, 0, false),
    };
    let (ip, fp) = match mant.split_once('.') {
        Some((i, f)) => {
            if f.is_empty() {
                return None;
            }
            (i, f)
        }
        None => (mant, ""),
    };
    if ip.is_empty() || !ip.bytes().all(|b| b.is_ascii_digit()) || !fp.bytes().all(|b| b.is_ascii_digit()) {
        return None;
    }
    if ip.len() > 1 && ip.starts_with('0') {
        return None;
    }
    let all = format!("{}{}", ip, fp);
    let lead = all.len() - all.trim_start_matches('0').len();
    let digits = all.trim_start_matches('0').trim_end_matches('0').to_string();
    let point = ip.len() as i32 - lead as i32 + exp;
    Some((neg, digits, point, has_exp))
}

/// Judge one number_to_string output. Returns a description of the defect, if any.
fn judge_to_string(x: f64, got: &str) -> Option<String> {
    let want = ref_to_string(x);
    if !x.is_finite() || x == 0.0 {
        return if got == want { None } else { Some(format!("want {}", want)) };
    }
    // oracle 1: layout grammar + round trip + minimality, derived from the output itself
    let Some((neg, digits, point, has_exp)) = parse_layout(got) else {
        return Some(format!("not in Number::toString layout (reference {})", want));
    };
    if neg != (x < 0.0) {
        return Some("sign".into());
    }
    let back: f64 = format!("0.{}e{}", digits, point).parse().unwrap_or(f64::NAN);
    if back != x.abs() {
        return Some(format!("does not read back to the same double (reads {:e}); reference {}", back, want));
    }
    // minimality: no (k-1)-digit string round-trips
    let k = digits.len();
    if k > 1 {
        let trunc = &digits[..k - 1];
        let down: f64 = format!("0.{}e{}", trunc, point).parse().unwrap_or(f64::NAN);
        // trunc + 1 ulp-of-last-digit
        let up_digits = inc_decimal(trunc);
        let up: f64 = if up_digits.len() > trunc.len() {
            format!("0.{}e{}", up_digits, point + 1).parse().unwrap_or(f64::NAN)
        } else {
            format!("0.{}e{}", up_digits, point).parse().unwrap_or(f64::NAN)
        };
        if down == x.abs() || up == x.abs() {
            return Some(format!("{} digits where {} suffice; reference {}", k, k - 1, want));
        }
    }
    // notation: exponent form iff point outside (-6, 21]
    let should_exp = !(-6 < point && point <= 21);
    if has_exp != should_exp {
        return Some(format!("wrong notation (exponent form {} for n={}); reference {}", has_exp, point, want));
    }
    // oracle 2: closest among shortest — equality with the independent shortest formatter
    if got != want {
        return Some(format!("reference {}", want));
    }
    None
}

fn inc_decimal(s: &str) -> String {
    let mut b: Vec<u8> = s.bytes().collect();
    let mut i = b.len();
    loop {
        if i == 0 {
            b.insert(0, b'1');
            break;
        }
        i -= 1;
        if b[i] == b'9' {
            b[i] = b'0';
        } else {
            b[i] += 1;
            break;
        }
    }
    String::from_utf8(b).unwrap()
}

// ───────────────────────────── reference: exact decimal formatters ─────────────────────────────

/// Exact decimal expansion of a finite non-negative double: (integer digits, fraction digits).
fn exact_decimal(x: f64) -> (String, String) {
    let s = format!("{:.1100}", x);
    let (i, f) = s.split_once('.').unwrap();
    (i.to_string(), f.trim_end_matches('0').to_string())
}

/// Round the digit string `all` (an unsigned decimal integer) to keep `keep` leading digits,
/// half-up on the exact remainder. Returns (digits, carried_extra_digit).
fn round_sig(all: &str, keep: usize) -> (String, bool) {
    if all.len() <= keep {
        let mut s = all.to_string();
        while s.len() < keep {
            s.push('0');
        }
        return (s, false);
    }
    let head = &all[..keep];
    let rest = &all[keep..];
    let up = rest.as_bytes()[0] >= b'5';
    if !up {
        return (head.to_string(), false);
    }
    let inc = if head.is_empty() { "1".to_string() } else { inc_decimal(head) };
    if inc.len() > keep {
        (inc, true)
    } else {
        (inc, false)
    }
}

pub fn ref_to_fixed(x: f64, d: usize) -> String {
    if x.is_nan() {
        return "NaN".into();
    }
    if !x.is_finite() || x.abs() >= 1e21 {
        return ref_to_string(x);
    }
    let neg = x < 0.0;
    let (ip, fp) = exact_decimal(x.abs());
    let mut frac = fp.clone();
    while frac.len() <= d {
        frac.push('0');
    }
    let all = format!("{}{}", ip, frac);
    let keep = ip.len() + d;
    let (digits, carried) = round_sig(&all, keep);
    let ilen = ip.len() + usize::from(carried);
    let (i2, f2) = digits.split_at(ilen);
    let i2 = i2.trim_start_matches('0');
    let i2 = if i2.is_empty() { "0" } else { i2 };
    let body = if d == 0 { i2.to_string() } else { format!("{}.{}", i2, f2) };
    let is_zero = body.bytes().all(|b| b == b'0' || b == b'.');
    // -0 and negative values rounding to zero: toFixed keeps the sign only for x < 0
    if neg && !(is_zero && x == 0.0) {
        format!("-{}", body)
    } else {
        body
    }
}

/// Significant digits of x>0 rounded half-up to p digits, with decimal exponent e
/// (value ≈ d.ddd × 10^e).
fn sig_digits(x: f64, p: usize) -> (String, i32) {
    let (ip, fp) = exact_decimal(x);
    let all_raw = format!("{}{}", ip, fp);
    let lead = all_raw.len() - all_raw.trim_start_matches('0').len();
    let all = all_raw.trim_start_matches('0');
    let e = ip.len() as i32 - 1 - lead as i32;
    let (digits, carried) = round_sig(all, p);
    if carried {
        (digits[..p].to_string(), e + 1)
    } else {
        (digits, e)
    }
}

pub fn ref_to_exponential(x: f64, d: Option<usize>) -> String {
    if x.is_nan() {
        return "NaN".into();
    }
    if !x.is_finite() {
        return ref_to_string(x);
    }
    let neg = x < 0.0;
    let sign = if neg { "-" } else { "" };
    if x == 0.0 {
        let f = d.unwrap_or(0);
        return if f == 0 { "0e+0".into() } else { format!("0.{}e+0", "0".repeat(f)) };
    }
    let (digits, e) = match d {
        Some(f) => sig_digits(x.abs(), f + 1),
        None => {
            let (dg, p) = shortest(x);
            (dg, p - 1)
        }
    };
    let es = if e < 0 { "-" } else { "+" };
    if digits.len() == 1 {
        format!("{}{}e{}{}", sign, digits, es, e.abs())
    } else {
        format!("{}{}.{}e{}{}", sign, &digits[..1], &digits[1..], es, e.abs())
    }
}

pub fn ref_to_precision(x: f64, p: usize) -> String {
    if x.is_nan() {
        return "NaN".into();
    }
    if !x.is_finite() {
        return ref_to_string(x);
    }
    let neg = x < 0.0;
    let sign = if neg { "-" } else { "" };
    if x == 0.0 {
        return if p == 1 { "0".into() } else { format!("0.{}", "0".repeat(p - 1)) };
    }
    let (digits, e) = sig_digits(x.abs(), p);
    if e < -6 || e >= p as i32 {
        let es = if e < 0 { "-" } else { "+" };
        return if p == 1 {
            format!("{}{}e{}{}", sign, digits, es, e.abs())
        } else {
            format!("{}{}.{}e{}{}", sign, &digits[..1], &digits[1..], es, e.abs())
        };
    }
    if e == p as i32 - 1 {
        return format!("{}{}", sign, digits);
    }
    if e >= 0 {
        let i = (e + 1) as usize;
        format!("{}{}.{}", sign, &digits[..i], &digits[i..])
    } else {
        format!("{}0.{}{}", sign, "0".repeat((-(e + 1)) as usize), digits)
    }
}

fn ref_radix_int(x: f64, radix: u32) -> String {
    // x is an integer with |x| < 2^53
    let neg = x < 0.0;
    let mut n = x.abs() as u64;
    if n == 0 {
        return "0".into();
    }
    let mut out = Vec::new();
    while n > 0 {
        out.push(std::char::from_digit((n % radix as u64) as u32, radix).unwrap());
        n /= radix as u64;
    }
    if neg {
        out.push('-');
    }
    out.iter().rev().collect()
}

fn ref_to_int32(x: f64) -> i32 {
    if !x.is_finite() {
        return 0;
    }
    let t = x.trunc();
    // exact: reduce modulo 2^32 with integer arithmetic on the binary representation
    let bits = t.to_bits();
    let exp = ((bits >> 52) & 0x7ff) as i32 - 1075;
    let mant = (bits & ((1u64 << 52) - 1)) | (1u64 << 52);
    let mag: u64 = if exp >= 32 {
        0
    } else if exp >= 0 {
        ((mant as u128) << exp) as u64 & 0xffff_ffff
    } else if exp > -64 {
        (mant >> (-exp)) & 0xffff_ffff
    } else {
        0
    };
    let mag = mag as u32;
    if t < 0.0 { (mag.wrapping_neg()) as i32 } else { mag as i32 }
}

// ───────────────────────────── value families ─────────────────────────────

fn ulp_neighbours(x: f64, out: &mut Vec<f64>) {
    let b = x.to_bits();
    for d in -3i64..=3 {
        let nb = (b as i64).wrapping_add(d) as u64;
        let v = f64::from_bits(nb);
        if v.is_finite() {
            out.push(v);
        }
    }
}

/// Seed-independent structured families, split into `parts` slices.
fn structured(part: usize, parts: usize) -> Vec<f64> {
    let mut v: Vec<f64> = Vec::new();
    let push_n = |x: f64, v: &mut Vec<f64>| ulp_neighbours(x, v);
    let mut idx = 0usize;
    let take = |idx: &mut usize| -> bool {
        let t = *idx % parts == part;
        *idx += 1;
        t
    };
    // powers of two incl. subnormals
    for e in -1074..=1023 {
        if take(&mut idx) {
            push_n(2f64.powi(e), &mut v);
        }
    }
    // powers of ten
    for e in -323..=308 {
        if take(&mut idx) {
            let x: f64 = format!("1e{}", e).parse().unwrap();
            push_n(x, &mut v);
            for m in [2.0, 5.0, 9.0, 9.5, 1.5, 4.35, 1.005] {
                let y = x * m;
                if y.is_finite() {
                    push_n(y, &mut v);
                }
            }
        }
    }
    // every binary exponent x boundary mantissas
    for be in 0u64..=2046 {
        if !take(&mut idx) {
            continue;
        }
        let mut ms: Vec<u64> = vec![0, (1 << 52) - 1, 0x5_5555_5555_5555, 0xA_AAAA_AAAA_AAAA, 1, (1 << 52) - 2];
        for k in 0..52 {
            ms.push(1u64 << k);
        }
        for m in ms {
            let x = f64::from_bits((be << 52) | m);
            if x.is_finite() {
                v.push(x);
            }
        }
    }
    // integers around the 32/53-bit and 1e21 boundaries
    for base in [
        2147483647.0f64, 2147483648.0, 4294967295.0, 4294967296.0, 9007199254740991.0, 9007199254740992.0,
        9007199254740994.0, 1e21, 1e20, 1e22, 123456789012345680000.0, 999999999999999900000.0, 65535.0, 65536.0,
        16777216.0, 1e15, 1e16, 1e17,
    ] {
        if take(&mut idx) {
            for d in -4..=4 {
                v.push(base + d as f64);
                v.push(-(base + d as f64));
                v.push(base + d as f64 + 0.5);
            }
            push_n(base, &mut v);
        }
    }
    // half-way cases for every digit count
    for digits in 0..=17 {
        if take(&mut idx) {
            for lead in [1u64, 2, 25, 35, 45, 105, 115, 125, 8, 9, 99, 999, 15, 5] {
                let s = format!("{}e-{}", lead * 10 + 5, digits + 1);
                let x: f64 = s.parse().unwrap();
                v.push(x);
                v.push(-x);
                v.push(x * 1e10);
                v.push(x * 1e-5);
            }
        }
    }
    // notation switch regions
    for e in [-8, -7, -6, -5, 19, 20, 21, 22] {
        if take(&mut idx) {
            for m in ["1", "1.5", "9.999999999999999", "1.0000000000000002", "2.5", "1.23456789012345"] {
                let x: f64 = format!("{}e{}", m, e).parse().unwrap();
                push_n(x, &mut v);
            }
        }
    }
    v
}

const PARTS: usize = 32;
const PROG_UNITS: usize = 16;

fn random_values(fam: u64, shard: u64, n: usize) -> Vec<f64> {
    let mut rng = Rng::derive("c15-bits", fam * 64 + shard, 0);
    let mut v = Vec::with_capacity(n);
    while v.len() < n {
        let x = f64::from_bits(rng.next());
        if x.is_finite() {
            v.push(x);
        }
    }
    v
}

// ───────────────────────────── in-program families ─────────────────────────────

fn js_num(x: f64) -> String {
    // exact literal for a double in JS source (shortest repr is exact)
    if x.is_nan() {
        return "NaN".into();
    }
    if x == f64::INFINITY {
        return "Infinity".into();
    }
    if x == f64::NEG_INFINITY {
        return "(-Infinity)".into();
    }
    if x == 0.0 && x.is_sign_negative() {
        return "(-0)".into();
    }
    if x < 0.0 { format!("({})", ref_to_string(x)) } else { ref_to_string(x) }
}

struct ProgCase {
    name: String,
    src: String,
    expect: Vec<String>,
    inputs: Vec<String>,
}

fn prog_values(shard: u64) -> Vec<f64> {
    let mut v = structured((shard as usize * 2) % PARTS, PARTS);
    let mut rng = Rng::derive("c15-prog-pick", shard, 0);
    rng.shuffle(&mut v);
    v.truncate(150);
    v.extend(random_values(7, shard, 40));
    v.extend([0.0, -0.0, f64::NAN, f64::INFINITY, f64::NEG_INFINITY, 5e-324, f64::MAX, 4294967296.0, -2147483649.0, 0.5, 2.5, 1.005, 1e21, 123.456]);
    v
}

fn build_programs(shard: u64) -> Vec<ProgCase> {
    let vals = prog_values(shard);
    let mut out = Vec::new();
    let list = |vals: &[f64]| vals.iter().map(|x| js_num(*x)).collect::<Vec<_>>().join(",");
    let inputs = |vals: &[f64]| vals.iter().map(|x| js_num(*x)).collect::<Vec<_>>();
    // 1. the four text paths of Number::toString
    for (name, f) in [
        ("String(x)", "String(x)"),
        ("template", "`${x}`"),
        ("concat", "'' + x"),
        ("x.toString()", "x.toString()"),
    ] {
        out.push(ProgCase {
            name: name.into(),
            src: format!("[{}].map(function(x){{ return {}; }}).join('|')", list(&vals), f),
            expect: vals.iter().map(|x| ref_to_string(*x)).collect(),
            inputs: inputs(&vals),
        });
    }
    out.push(ProgCase {
        name: "JSON.stringify(x)".into(),
        src: format!("[{}].map(function(x){{ return JSON.stringify(x); }}).join('|')", list(&vals)),
        expect: vals.iter().map(|x| if x.is_finite() { ref_to_string(*x) } else { "null".into() }).collect(),
        inputs: inputs(&vals),
    });
    // 2. integer conversions
    for (name, f, r) in [
        ("x|0", "x|0", 0),
        ("x>>>0", "x>>>0", 1),
        ("~x", "~x", 2),
        ("x<<3", "x<<3", 3),
        ("x>>1", "x>>1", 4),
        ("x>>>5", "x>>>5", 5),
        ("1<<x", "1<<x", 6),
        ("x&x", "x&x", 0),
        ("x^0", "x^0", 0),
    ] {
        out.push(ProgCase {
            name: name.into(),
            src: format!("[{}].map(function(x){{ return String({}); }}).join('|')", list(&vals), f),
            expect: vals
                .iter()
                .map(|x| {
                    let i = ref_to_int32(*x);
                    let n: f64 = match r {
                        0 => i as f64,
                        1 => (i as u32) as f64,
                        2 => (!i) as f64,
                        3 => (i.wrapping_shl(3)) as f64,
                        4 => (i >> 1) as f64,
                        5 => ((i as u32) >> 5) as f64,
                        _ => (1i32.wrapping_shl((i as u32) & 31)) as f64,
                    };
                    ref_to_string(n)
                })
                .collect(),
            inputs: inputs(&vals),
        });
    }
    // 3. text -> number: literals, Number(), unary plus, parseFloat, JSON.parse
    let finite: Vec<f64> = vals.iter().copied().filter(|x| x.is_finite()).collect();
    let texts: Vec<String> = finite.iter().map(|x| ref_to_string(*x)).collect();
    let quoted = texts.iter().map(|t| format!("'{}'", t)).collect::<Vec<_>>().join(",");
    for (name, f) in [("Number(s)", "Number(s)"), ("+s", "+s"), ("parseFloat(s)", "parseFloat(s)"), ("JSON.parse(s)", "JSON.parse(s)")] {
        out.push(ProgCase {
            name: name.into(),
            src: format!("[{}].map(function(s){{ var x = {}; return (x === 0 && 1/x < 0) ? '-0' : String(x); }}).join('|')", quoted, f),
            expect: finite.iter().map(|x| ref_to_string(*x)).collect(),
            inputs: texts.clone(),
        });
    }
    // numeric literal scanning incl. non-shortest spellings (17 significant digits, exponent forms)
    let spell: Vec<(String, f64)> = finite
        .iter()
        .filter(|x| **x >= 0.0)
        .map(|x| (format!("{:.17e}", x), *x))
        .collect();
    out.push(ProgCase {
        name: "literal(17 digits)".into(),
        src: format!("[{}].map(function(x){{ return String(x); }}).join('|')", spell.iter().map(|(s, _)| s.clone()).collect::<Vec<_>>().join(",")),
        expect: spell.iter().map(|(_, x)| ref_to_string(*x)).collect(),
        inputs: spell.iter().map(|(s, _)| s.clone()).collect(),
    });
    // 4. fixed / precision / exponential / radix
    let small: Vec<f64> = vals.iter().copied().take(60).chain([0.5, 1.5, 2.5, 0.125, 1.005, 1.45, 8.345, 0.000001, 123.456, 1e21, 999.9996, 0.00001234, -1.5, -2.5, 25.0, 1e-10, 1234.5678, 5e-324, 0.0]).collect();
    for d in [0usize, 1, 2, 3, 5, 10, 20, 21, 50, 100] {
        out.push(ProgCase {
            name: format!("toFixed({})", d),
            src: format!("[{}].map(function(x){{ return x.toFixed({}); }}).join('|')", list(&small), d),
            expect: small.iter().map(|x| ref_to_fixed(*x, d)).collect(),
            inputs: inputs(&small),
        });
    }
    for p in [1usize, 2, 3, 5, 10, 16, 17, 21, 22, 50, 100] {
        out.push(ProgCase {
            name: format!("toPrecision({})", p),
            src: format!("[{}].map(function(x){{ return x.toPrecision({}); }}).join('|')", list(&small), p),
            expect: small.iter().map(|x| ref_to_precision(*x, p)).collect(),
            inputs: inputs(&small),
        });
    }
    for d in [0usize, 1, 2, 5, 10, 16, 20, 50, 100] {
        out.push(ProgCase {
            name: format!("toExponential({})", d),
            src: format!("[{}].map(function(x){{ return x.toExponential({}); }}).join('|')", list(&small), d),
            expect: small.iter().map(|x| ref_to_exponential(*x, Some(d))).collect(),
            inputs: inputs(&small),
        });
    }
    out.push(ProgCase {
        name: "toExponential()".into(),
        src: format!("[{}].map(function(x){{ return x.toExponential(); }}).join('|')", list(&small)),
        expect: small.iter().map(|x| ref_to_exponential(*x, None)).collect(),
        inputs: inputs(&small),
    });
    // radix: integers exactly
    let mut rng = Rng::derive("c15-radix", shard, 0);
    let mut ints: Vec<f64> = vec![0.0, 1.0, -1.0, 255.0, 256.0, -255.0, 35.0, 36.0, 4294967295.0, 9007199254740991.0, -9007199254740991.0, 1295.0, 46655.0];
    for _ in 0..40 {
        let bits = 1 + rng.below(53);
        let n = (rng.next() >> (64 - bits)) as f64;
        ints.push(if rng.chance(1, 4) { -n } else { n });
    }
    for radix in [2u32, 3, 7, 8, 10, 16, 32, 36] {
        out.push(ProgCase {
            name: format!("toString({})", radix),
            src: format!("[{}].map(function(x){{ return x.toString({}); }}).join('|')", list(&ints), radix),
            expect: ints.iter().map(|x| ref_radix_int(*x, radix)).collect(),
            inputs: inputs(&ints),
        });
        // parseInt round trip of those digit strings
        let strs: Vec<String> = ints.iter().map(|x| ref_radix_int(*x, radix)).collect();
        out.push(ProgCase {
            name: format!("parseInt(s,{})", radix),
            src: format!("[{}].map(function(s){{ return String(parseInt(s, {})); }}).join('|')", strs.iter().map(|s| format!("'{}'", s)).collect::<Vec<_>>().join(","), radix),
            expect: ints.iter().map(|x| ref_to_string(if *x == 0.0 { 0.0 } else { *x })).collect(),
            inputs: strs,
        });
    }
    out
}

/// Fractional radix output is implementation-approximated in ECMAScript; demand only that
/// the digit string is well-formed in the radix and evaluates back to the value.
fn radix_fraction_case(shard: u64) -> (String, Vec<(f64, u32)>) {
    let mut rng = Rng::derive("c15-radixfrac", shard, 0);
    let mut cases = vec![(0.5, 2u32), (0.25, 2), (0.1, 2), (255.5, 16), (0.75, 4), (1.0 / 3.0, 3), (10.5, 36), (-0.5, 2), (1234.5678, 8)];
    for _ in 0..30 {
        let x = (rng.f64() * 1000.0 * 64.0).round() / 64.0;
        cases.push((x, *rng.pick(&[2u32, 4, 8, 16, 32])));
    }
    let body = cases
        .iter()
        .map(|(x, r)| format!("({}).toString({})", ref_to_string(*x), r))
        .collect::<Vec<_>>()
        .join(",");
    (format!("[{}].join('|')", body), cases)
}

fn eval_radix(s: &str, radix: u32) -> Option<f64> {
    let (neg, body) = match s.strip_prefix('-') {
        Some(r) => (true, r),
        None => (false, s),
    };
    let (ip, fp) = body.split_once('.').unwrap_or((body, ""));
    if ip.is_empty() {
        return None;
    }
    let mut v = 0f64;
    for c in ip.chars() {
        v = v * radix as f64 + c.to_digit(radix)? as f64;
    }
    let mut scale = 1f64 / radix as f64;
    for c in fp.chars() {
        v += c.to_digit(radix)? as f64 * scale;
        scale /= radix as f64;
    }
    Some(if neg { -v } else { v })
}

// ───────────────────────────── the check ─────────────────────────────

fn native_values(r: &mut UnitResult, vals: &[f64], family: &str) {
    for &x in vals {
        r.evaluations += 1;
        let got = tsrun::value::number_to_string(x);
        if let Some(why) = judge_to_string(x, &got) {
            r.violate(
                format!("to_string|{:016x}", x.to_bits()),
                format!("number_to_string({:e} bits {:016x}) = {:?}: {}", x, x.to_bits(), got, why),
                json!({"kind": "to_string", "bits": format!("{:016x}", x.to_bits())}),
            );
        }
        // text -> number on the shortest text and on a 17/20-digit spelling
        for text in [ref_to_string(x), format!("{:.17e}", x), format!("  {:.20e}\n", x)] {
            let back = tsrun::value::string_to_number(&text);
            if back.to_bits() != x.to_bits() && !(x == 0.0 && back == 0.0) {
                r.violate(
                    format!("to_number|{}", text.trim()),
                    format!("string_to_number({:?}) = {:e} (bits {:016x}), correctly rounded value is {:e}", text, back, back.to_bits(), x),
                    json!({"kind": "to_number", "text": text}),
                );
            }
        }
        if ((x.to_bits() >> 52) & 0x7ff) != 1023 || x.fract() != 0.0 {
            r.nontrivial += 1; // anything but small exact integers in [1,2)
        }
    }
    r.stat(&format!("values_{}", family), vals.len() as i64);
}

fn hex_texts(r: &mut UnitResult) {
    // radix-prefixed and hostile spellings with values known exactly
    let cases: Vec<(String, f64)> = vec![
        ("0x1F".into(), 31.0),
        ("0XfF".into(), 255.0),
        ("0b101".into(), 5.0),
        ("0o17".into(), 15.0),
        ("0x20000000000001".into(), 9007199254740992.0),
        ("0x20000000000003".into(), 9007199254740996.0),
        ("0xFFFFFFFFFFFFFFFF".into(), 18446744073709552000.0),
        ("0x10000000000000000".into(), 18446744073709552000.0),
        ("0x100000000000000000000".into(), 1208925819614629174706176.0),
        ("".into(), 0.0),
        ("   ".into(), 0.0),
        ("-0".into(), -0.0),
        ("+1.5".into(), 1.5),
        (".5".into(), 0.5),
        ("5.".into(), 5.0),
        ("1e1000".into(), f64::INFINITY),
        ("-1e1000".into(), f64::NEG_INFINITY),
        ("1e-1000".into(), 0.0),
        ("Infinity".into(), f64::INFINITY),
        ("-Infinity".into(), f64::NEG_INFINITY),
        ("\u{a0}12\u{feff}".into(), 12.0),
        ("00012".into(), 12.0),
    ];
    for (t, want) in cases {
        r.evaluations += 1;
        r.nontrivial += 1;
        let got = tsrun::value::string_to_number(&t);
        if got.to_bits() != want.to_bits() {
            r.violate(
                format!("to_number|{}", t),
                format!("string_to_number({:?}) = {:e}, want {:e}", t, got, want),
                json!({"kind": "to_number", "text": t}),
            );
        }
    }
    for t in ["0x", "0b2", "0o8", "1e", "1.2.3", "infinity", "INFINITY", "inf", "nan", "1_000", "0x1.8", "--1", "+-1", "1e+", "abc", "12px", "0x-1"] {
        r.evaluations += 1;
        r.nontrivial += 1;
        let got = tsrun::value::string_to_number(t);
        if !got.is_nan() {
            r.violate(
                format!("to_number|{}", t),
                format!("string_to_number({:?}) = {:e}, want NaN", t, got),
                json!({"kind": "to_number", "text": t}),
            );
        }
    }
}

fn run_program_case(r: &mut UnitResult, shard: u64, pc: &ProgCase) {
    let out = runner::run_fresh(&pc.src, &RunConfig::default());
    r.evaluations += pc.expect.len() as u64;
    if out.kind != "value" {
        r.violate(
            format!("prog|{}|shard{}|{}", pc.name, shard, out.kind),
            format!("program for {} did not complete: {} {} {}", pc.name, out.kind, out.error_class, out.error_msg),
            json!({"kind": "program", "shard": shard, "name": pc.name}),
        );
        return;
    }
    let got: Vec<&str> = out.value.split('|').collect();
    if got.len() != pc.expect.len() {
        r.violate(
            format!("prog|{}|shard{}|arity", pc.name, shard),
            format!("{}: {} results for {} inputs", pc.name, got.len(), pc.expect.len()),
            json!({"kind": "program", "shard": shard, "name": pc.name}),
        );
        return;
    }
    for (i, (g, w)) in got.iter().zip(pc.expect.iter()).enumerate() {
        r.nontrivial += 1;
        if g != w {
            r.violate(
                format!("op|{}|{}|={}", pc.name, pc.inputs[i], hash_hex(g)),
                format!("{} with x = {} gives {:?}, exact arithmetic gives {:?}", pc.name, pc.inputs[i], g, w),
                json!({"kind": "program", "shard": shard, "name": pc.name, "index": i}),
            );
        }
    }
    r.stat(&format!("inprogram_{}", pc.name.split('(').next().unwrap_or("op")), pc.expect.len() as i64);
}

fn random_units(ctx: &Ctx) -> usize {
    if ctx.thorough() { 64 } else { 16 }
}

impl Check for C15 {
    fn units(&self, ctx: &Ctx) -> usize {
        PARTS + random_units(ctx) + PROG_UNITS + 1
    }

    fn run_unit(&self, ctx: &Ctx, idx: usize) -> UnitResult {
        let mut r = UnitResult::default();
        if idx < PARTS {
            let vals = structured(idx, PARTS);
            native_values(&mut r, &vals, "structured");
            if let Some(x) = vals.get(vals.len() / 2) {
                r.sample(json!({"double_bits": format!("{:016x}", x.to_bits()), "number_to_string": tsrun::value::number_to_string(*x)}));
            }
        } else if idx < PARTS + random_units(ctx) {
            let shard = (idx - PARTS) as u64;
            let fam = if ctx.thorough() { 0 } else { ctx.seed % 16 };
            let n = if ctx.thorough() { 4_000_000 } else { 1_000_000 };
            let vals = random_values(fam, shard, n);
            native_values(&mut r, &vals, "random_bits");
        } else if idx < PARTS + random_units(ctx) + PROG_UNITS {
            let shard = (idx - PARTS - random_units(ctx)) as u64;
            for pc in build_programs(shard) {
                run_program_case(&mut r, shard, &pc);
            }
            // fractional radix: weak oracle (well-formed, evaluates back within 1e-12 relative)
            let (src, cases) = radix_fraction_case(shard);
            let out = runner::run_fresh(&src, &RunConfig::default());
            if out.kind == "value" {
                for (g, (x, radix)) in out.value.split('|').zip(cases.iter()) {
                    r.evaluations += 1;
                    r.nontrivial += 1;
                    let ok = eval_radix(g, *radix).is_some_and(|v| (v - x).abs() <= x.abs() * 1e-12 + 1e-300);
                    if !ok {
                        r.violate(
                            format!("op|toString({})frac|{}|={}", radix, ref_to_string(*x), hash_hex(g)),
                            format!("({}).toString({}) = {:?} does not denote the value in radix {}", ref_to_string(*x), radix, g, radix),
                            json!({"kind": "program", "shard": shard, "name": "radix-fraction"}),
                        );
                    }
                }
                r.stat("inprogram_radix_fraction", cases.len() as i64);
            } else {
                r.violate(format!("prog|radix-fraction|shard{}", shard), format!("radix fraction program: {} {}", out.kind, out.error_msg), json!({"kind": "program", "shard": shard, "name": "radix-fraction"}));
            }
            r.sample(json!({"program_shard": shard, "example": build_programs(shard)[9].src.chars().take(160).collect::<String>()}));
        } else {
            hex_texts(&mut r);
        }
        r
    }

    fn replay(&self, _ctx: &Ctx, case: &Value) -> UnitResult {
        let mut r = UnitResult::default();
        match case["kind"].as_str() {
            Some("to_string") => {
                let bits = u64::from_str_radix(case["bits"].as_str().unwrap_or("0"), 16).unwrap_or(0);
                native_values(&mut r, &[f64::from_bits(bits)], "replay");
            }
            Some("to_number") => {
                let t = case["text"].as_str().unwrap_or("");
                let want: f64 = t.trim().parse().unwrap_or(f64::NAN);
                let got = tsrun::value::string_to_number(t);
                r.evaluations = 1;
                if got.to_bits() != want.to_bits() && !(got.is_nan() && want.is_nan()) {
                    r.violate(format!("to_number|{}", t.trim()), format!("string_to_number({:?}) = {:e}, Rust parse gives {:e}", t, got, want), case.clone());
                }
            }
            Some("program") => {
                let shard = case["shard"].as_u64().unwrap_or(0);
                let name = case["name"].as_str().unwrap_or("");
                for pc in build_programs(shard) {
                    if pc.name == name {
                        run_program_case(&mut r, shard, &pc);
                    }
                }
            }
            _ => {}
        }
        r
    }
}
