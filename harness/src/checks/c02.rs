//! C02 — garbage collection is invisible.
//!
//! Every program is run with the collector off (reference) and under a set of collection
//! schedules (thresholds 1,2,3,5,7,100; a forced collect() before every step; for short
//! programs a single forced collect() at each individual step). Oracles: (a) the
//! observable outcome must equal the reference, per cell; (b) the H1 generation hook must
//! report no use of a reclaimed object (direct evidence even when values coincide).

use super::c01::{self, Item};
use crate::corpus;
use crate::isolate::{self, Exit, Limits};
use crate::runner::{self, RunConfig};
use crate::util::*;
use serde_json::{Value, json};

pub struct C02;

const BATCH: usize = 1; // one cell per program: findings are attributed to a cell
const BATCHES_PER_UNIT: usize = 200;

#[derive(Clone, Debug)]
enum Sched {
    Threshold(usize),
    EveryStep,
    At(u64),
}

impl Sched {
    fn name(&self) -> String {
        match self {
            Sched::Threshold(t) => format!("t{}", t),
            Sched::EveryStep => "every-step".into(),
            Sched::At(s) => format!("at{}", s),
        }
    }
    fn cfg(&self) -> RunConfig {
        let mut c = RunConfig { max_steps: 3_000_000, gc_threshold: Some(0), ..Default::default() };
        match self {
            Sched::Threshold(t) => c.gc_threshold = Some(*t),
            Sched::EveryStep => c.collect_every_step = true,
            Sched::At(s) => c.collect_before_steps = vec![*s],
        }
        c
    }
}

fn atom_items(ctx: &Ctx) -> Vec<Item> {
    // allocation-relevant atoms: everything but the pure operator matrix, which is thinned
    let all = c01::all_items();
    let stride = if ctx.thorough() { 1 } else { 3 };
    let mut out = crate::holders::items();
    out.extend(crate::transit::items());
    for (i, it) in all.into_iter().enumerate() {
        let op_matrix = it.id.starts_with("bin.") || it.id.starts_with("un.") || it.id.starts_with("conv.") || it.id.starts_with("math.");
        if op_matrix {
            if i % (stride * 8) == 0 {
                out.push(it);
            }
        } else if i % stride == (ctx.seed as usize % stride) || it.id.starts_with("stmt.") {
            out.push(it);
        }
    }
    out
}

struct Prog {
    /// ids of the cells in the program (one for whole programs)
    ids: Vec<String>,
    src: String,
    batch: bool,
    /// module path of the entry program and host-supplied modules (module-graph programs)
    path: Option<String>,
    modules: std::collections::BTreeMap<String, String>,
}

/// Serialized per-schedule record produced in the child.
fn record(name: &str, o: &runner::Outcome) -> String {
    format!(
        "{}\u{5}{}\u{5}{}\u{5}{}\u{5}{}\u{5}{}\u{5}{}",
        name,
        o.kind,
        o.value,
        o.error_class,
        o.log.join("\u{1f}"),
        o.stale_events.join(","),
        format!("{},{},{}", o.steps, o.collections, o.swept)
    )
}

fn schedules_for(steps: u64, exhaustive_points: bool) -> Vec<Sched> {
    let mut v: Vec<Sched> = [1usize, 2, 3, 5, 7, 100].iter().map(|t| Sched::Threshold(*t)).collect();
    if steps <= 4000 {
        v.push(Sched::EveryStep);
    }
    if exhaustive_points && steps <= 2500 {
        for s in 0..steps {
            v.push(Sched::At(s));
        }
    }
    v
}

fn run_unit_progs(r: &mut UnitResult, progs: &[Prog], exhaustive_points: bool, family_of: &dyn Fn(&str) -> String) {
    let lim = Limits { wall: std::time::Duration::from_secs(400), address_space: 3 << 30, stack: 0 };
    let exit = isolate::run(&lim, || {
        for (pi, p) in progs.iter().enumerate() {
            let with = |mut c: RunConfig| {
                c.module_path = p.path.clone();
                c.modules = p.modules.clone();
                c
            };
            let reference = runner::run_fresh(&p.src, &with(Sched::Threshold(0).cfg()));
            isolate::emit(&format!("{}\u{6}{}\u{7}", pi, record("ref", &reference)));
            if reference.kind != "limit" {
                for s in schedules_for(reference.steps, exhaustive_points) {
                    let o = runner::run_fresh(&p.src, &with(s.cfg()));
                    isolate::emit(&format!("{}\u{6}{}\u{7}", pi, record(&s.name(), &o)));
                }
            }
            isolate::emit(&format!("{}\u{6}END\u{7}", pi));
        }
        String::new()
    });
    let (text, died) = match exit {
        Exit::Ok(t) => (t, None),
        Exit::Signal(s, t) => (t, Some(format!("signal {}", isolate::signal_name(s)))),
        Exit::Status(c, t) => (t, Some(format!("exit {}", c))),
        Exit::Timeout(t) => (t, Some("timeout".to_string())),
    };
    // parse
    let mut per_prog: Vec<Vec<Vec<String>>> = vec![Vec::new(); progs.len()];
    let mut finished = vec![false; progs.len()];
    for rec in text.split('\u{7}') {
        if let Some((pi, body)) = rec.split_once('\u{6}')
            && let Ok(pi) = pi.parse::<usize>()
            && pi < progs.len()
        {
            if body == "END" {
                finished[pi] = true;
            } else {
                per_prog[pi].push(body.split('\u{5}').map(|s| s.to_string()).collect());
            }
        }
    }
    let mut last_prog_seen = 0;
    for (pi, recs) in per_prog.iter().enumerate() {
        if recs.is_empty() {
            continue;
        }
        last_prog_seen = pi;
        let p = &progs[pi];
        let reference = &recs[0];
        if reference.len() < 7 {
            continue;
        }
        let ref_cells: Vec<&str> = if p.batch { reference[2].split(c01::SEP).collect() } else { vec![reference[2].as_str()] };
        for sched in &recs[1..] {
            if sched.len() < 7 {
                continue;
            }
            r.evaluations += 1;
            let counters: Vec<u64> = sched[6].split(',').filter_map(|x| x.parse().ok()).collect();
            let swept = counters.get(2).copied().unwrap_or(0);
            if swept > 0 {
                r.nontrivial += 1;
            }
            r.stat("collections_observed", counters.get(1).copied().unwrap_or(0) as i64);
            r.stat("objects_swept", swept as i64);
            let name = &sched[0];
            let sched_class = if name.starts_with("at") { "at" } else { name.as_str() };
            // (b) stale-handle events
            if !sched[5].is_empty() {
                let mut sites: Vec<&str> = sched[5].split(',').collect();
                sites.sort();
                sites.dedup();
                let _ = family_of;
                r.violate(
                    format!("stale|{}", p.ids[0]),
                    format!("{}: a reclaimed object was used (H1 events {}) under GC schedule {}", p.ids[0], sites.join(" "), name),
                    json!({"ids": p.ids, "schedule": name, "batch": p.batch}),
                );
                r.stat("stale_events", 1);
            }
            // (a) outcome equality, per cell
            let same_shape = sched[1] == reference[1];
            if p.batch && same_shape && sched[1] == "value" {
                let cells: Vec<&str> = sched[2].split(c01::SEP).collect();
                if cells.len() == ref_cells.len() {
                    for (k, (g, w)) in cells.iter().zip(ref_cells.iter()).enumerate() {
                        if g != w {
                            r.violate(
                                format!("diverge|{}|{}", p.ids[k], sched_class),
                                format!("{} under GC schedule {}: {:?}, collector off: {:?}", p.ids[k], name, truncate(g, 160), truncate(w, 160)),
                                json!({"ids": [p.ids[k]], "schedule": name, "batch": false}),
                            );
                        }
                    }
                    continue;
                }
            }
            let obs = |v: &Vec<String>| format!("{}|{}|{}|{}", v[1], v[2], v[3], v[4]);
            if obs(sched) != obs(reference) {
                r.violate(
                    format!("diverge|{}|{}", p.ids[0], sched_class),
                    format!("[{}…] under GC schedule {}: {} {:?} {}, collector off: {} {:?} {}", truncate(&p.ids.join(","), 60), name, sched[1], truncate(&sched[2], 120), sched[3], reference[1], truncate(&reference[2], 120), reference[3]),
                    json!({"ids": p.ids, "schedule": name, "batch": p.batch}),
                );
            }
        }
    }
    if let Some(why) = died {
        // the child died while working on the program after the last one that reported
        let _ = last_prog_seen;
        let culprit = finished.iter().position(|f| !*f).unwrap_or(progs.len() - 1);
        let partial = per_prog[culprit].len();
        let p = &progs[culprit];
        // does the program die with the collector off as well? then it is not a GC matter
        // (process aborts on impossible allocations etc. are C06's subject)
        let src = p.src.clone();
        let lim1 = Limits { wall: std::time::Duration::from_secs(60), address_space: 3 << 30, stack: 0 };
        let (mp, mm) = (p.path.clone(), p.modules.clone());
        let alone = isolate::run(&lim1, move || {
            let mut c = Sched::Threshold(0).cfg();
            c.module_path = mp;
            c.modules = mm;
            runner::run_fresh(&src, &c).kind
        });
        if why == "timeout" || !matches!(alone, Exit::Ok(_)) {
            r.inconclusive += 1;
            r.note(format!("unit child died ({}) near [{}]; the program also dies with the collector off: not judged here", why, truncate(&p.ids.join(","), 80)));
        } else {
            r.violate(
                format!("crash|{}|{}", p.ids[0], why),
                format!("worker died ({}) while running [{}…] under a GC schedule although the collector-off run completes (schedule #{})", why, truncate(&p.ids.join(","), 80), partial),
                json!({"ids": p.ids, "schedule": "all", "batch": p.batch}),
            );
        }
        // the programs after the culprit were not run: continue with them in a new child
        if culprit + 1 < progs.len() {
            run_unit_progs(r, &progs[culprit + 1..], exhaustive_points, family_of);
        }
    }
}

fn module_programs() -> Vec<Prog> {
    let mut v: Vec<Prog> = crate::modgraphs::graphs()
        .into_iter()
        .map(|g| Prog { ids: vec![g.id], src: g.src, batch: false, path: g.path, modules: g.modules })
        .collect();
    for (n, text) in crate::modgraphs::ROLE_MODULES {
        v.push(Prog {
            ids: vec![format!("role.{}.provided", n)],
            src: crate::modgraphs::importer("./m.ts"),
            batch: false,
            path: Some("/app/main.ts".into()),
            modules: [("/app/m.ts".to_string(), text.to_string())].into_iter().collect(),
        });
        v.push(Prog { ids: vec![format!("role.{}.main", n)], src: format!("{}\n[typeof bump, String(counter), String(value)].join()", text), batch: false, path: Some("/app/m.ts".into()), modules: Default::default() });
    }
    v
}

fn atom_family(id: &str) -> String {
    id.split('#').next().unwrap_or(id).to_string()
}

impl Check for C02 {
    fn units(&self, ctx: &Ctx) -> usize {
        atom_items(ctx).len().div_ceil(BATCH * BATCHES_PER_UNIT) + corpus::b_units(ctx) + 1 + ASYNC_UNITS
    }

    fn run_unit(&self, ctx: &Ctx, idx: usize) -> UnitResult {
        let mut r = UnitResult::default();
        let items = atom_items(ctx);
        let per = BATCH * BATCHES_PER_UNIT;
        let na = items.len().div_ceil(per);
        if idx < na {
            let lo = idx * per;
            let hi = (lo + per).min(items.len());
            let slice: Vec<Item> = items[lo..hi].to_vec();
            drop(items);
            let progs: Vec<Prog> = slice
                .chunks(BATCH)
                .map(|c| Prog { ids: c.iter().map(|i| i.id.clone()).collect(), src: c01::batch_program(c), batch: true, path: None, modules: Default::default() })
                .collect();
            // every individual collection point for a subset of the cells
            let step = if ctx.thorough() { 4 } else { 16 };
            let hold_step = if ctx.thorough() { 1 } else { 5 };
            let (ex, rest): (Vec<(usize, Prog)>, Vec<(usize, Prog)>) = progs
                .into_iter()
                .enumerate()
                .partition(|(i, p)| if p.ids[0].starts_with("hold") { (i + ctx.seed as usize) % hold_step == 0 } else { i % (step * 4) == 0 });
            let ex: Vec<Prog> = ex.into_iter().map(|x| x.1).collect();
            let rest: Vec<Prog> = rest.into_iter().map(|x| x.1).collect();
            run_unit_progs(&mut r, &ex, true, &atom_family);
            r.stat("programs_with_every_collection_point", ex.len() as i64);
            run_unit_progs(&mut r, &rest, false, &atom_family);
            if let Some(it) = slice.first() {
                r.sample(json!({"cell": it.id, "program": it.human, "schedules": ["t1", "t2", "t3", "t5", "t7", "t100", "every-step"]}));
            }
        } else if idx > na + corpus::b_units(ctx) {
            async_unit(&mut r, idx - na - corpus::b_units(ctx) - 1);
        } else if idx == na + corpus::b_units(ctx) {
            let progs = module_programs();
            run_unit_progs(&mut r, &progs, true, &|id: &str| id.to_string());
            r.stat("module_graph_programs", progs.len() as i64);
            r.sample(json!({"module_program": progs[1].ids[0], "main": progs[1].src}));
        } else {
            let bprogs = corpus::unit_programs(ctx, idx - na);
            let progs: Vec<Prog> = bprogs.iter().map(|p| Prog { ids: vec![p.id.clone()], src: p.src.clone(), batch: false, path: None, modules: Default::default() }).collect();
            run_unit_progs(&mut r, &progs, false, &|id: &str| id.split('/').take(2).collect::<Vec<_>>().join("/"));
            if let Some(p) = bprogs.first() {
                r.sample(json!({"program": p.id, "features": p.features}));
            }
        }
        r
    }

    fn replay(&self, _ctx: &Ctx, case: &Value) -> UnitResult {
        let mut r = UnitResult::default();
        if case["async"].as_bool() == Some(true) {
            let id = case["id"].as_str().unwrap_or("").to_string();
            for k in 0..ASYNC_UNITS {
                let mut part = UnitResult::default();
                async_unit(&mut part, k);
                part.violations.retain(|v| v.case["id"].as_str() == Some(id.as_str()));
                r.merge(part);
            }
            return r;
        }
        let ids: Vec<String> = case["ids"].as_array().map(|a| a.iter().filter_map(|x| x.as_str().map(|s| s.to_string())).collect()).unwrap_or_default();
        if ids.is_empty() {
            return r;
        }
        if ids[0].starts_with("graph.") || ids[0].starts_with("role.") {
            let progs: Vec<Prog> = module_programs().into_iter().filter(|p| p.ids[0] == ids[0]).collect();
            run_unit_progs(&mut r, &progs, true, &|id: &str| id.to_string());
        } else if ids[0].starts_with("B/") {
            let parts: Vec<&str> = ids[0].split('/').collect();
            let p = corpus::b_program(parts[1].parse().unwrap_or(0), parts[2].parse().unwrap_or(0));
            run_unit_progs(&mut r, &[Prog { ids: vec![p.id.clone()], src: p.src.clone(), batch: false, path: None, modules: Default::default() }], true, &|id: &str| id.to_string());
        } else {
            let items: Vec<Item> = c01::all_items().into_iter().chain(crate::holders::items()).chain(crate::transit::items()).filter(|i| ids.contains(&i.id)).collect();
            let prog = Prog { ids: items.iter().map(|i| i.id.clone()).collect(), src: c01::batch_program(&items), batch: true, path: None, modules: Default::default() };
            run_unit_progs(&mut r, &[prog], items.len() == 1, &atom_family);
        }
        r
    }
}


// ───────────────────── programs that suspend to the host (saved state must root what it needs) ─────────────────────

const ASYNC_UNITS: usize = 8;

/// The await-position and concurrent programs of C07, run with a scripted host under GC
/// thresholds 1,2,3,5,7 and host-forced collections after every host action, each compared
/// with the same program and host policy with the collector off; H1 must stay silent.
fn async_unit(r: &mut UnitResult, k: usize) {
    use crate::asynchost::{self, Policy};
    let atoms: Vec<(String, &'static str)> = asynchost::AWAIT_ATOMS
        .iter()
        .map(|(n, b)| (format!("await.{}", n), *b))
        .chain(asynchost::CONCURRENT_ATOMS.iter().map(|(n, b)| (format!("concurrent.{}", n), *b)))
        .chain(crate::transit::ASYNC_TRANSIT.iter().map(|(n, b)| (format!("transit.{}", n), *b)))
        .collect();
    let mine: Vec<(String, &'static str)> = atoms.into_iter().enumerate().filter(|(i, _)| i % ASYNC_UNITS == k).map(|(_, a)| a).collect();
    let lim = Limits { wall: std::time::Duration::from_secs(400), address_space: 3 << 30, stack: 0 };
    let todo = mine.clone();
    let exit = isolate::run(&lim, move || {
        for (ai, (_, body)) in todo.iter().enumerate() {
            let src = asynchost::program(body, true);
            for deferred in [false, true] {
                let base = Policy { deferred_default: deferred, gc_threshold: Some(0), ..Default::default() };
                let reference = asynchost::run(&src, &base);
                for t in [1usize, 2, 3, 5, 7] {
                    for collect in [false, true] {
                        let p = Policy { deferred_default: deferred, gc_threshold: Some(t), collect, ..Default::default() };
                        let run = asynchost::run(&src, &p);
                        isolate::emit(&format!(
                            "{}\u{2}{}\u{2}{}\u{2}{}\u{2}{}\u{2}{}\u{3}",
                            ai,
                            format!("{}t{}{}", if deferred { "deferred+" } else { "immediate+" }, t, if collect { "+collect" } else { "" }),
                            run.outcome,
                            reference.outcome,
                            run.stale_events.join(","),
                            run.suspensions
                        ));
                    }
                }
            }
        }
        String::new()
    });
    let text = match exit {
        Exit::Ok(t) | Exit::Signal(_, t) | Exit::Status(_, t) | Exit::Timeout(t) => t,
    };
    for rec in text.split('\u{3}') {
        let f: Vec<&str> = rec.split('\u{2}').collect();
        if f.len() < 6 {
            continue;
        }
        let Ok(ai) = f[0].parse::<usize>() else { continue };
        r.evaluations += 1;
        if f[5].parse::<u64>().unwrap_or(0) > 0 {
            r.nontrivial += 1;
        }
        r.stat("async_host_runs", 1);
        let id = &mine[ai].0;
        if f[2] != f[3] && !id.contains("race-winner") {
            r.violate(
                format!("async-schedule|{}|{}|={}", id, f[1], hash_hex(f[2])),
                format!("{} with a scripted host under GC schedule {}: {} — with the collector off: {}", id, f[1], truncate(f[2], 200), truncate(f[3], 200)),
                json!({"id": id, "async": true}),
            );
        }
        if !f[4].is_empty() {
            let mut ev: Vec<&str> = f[4].split(',').collect();
            ev.sort();
            ev.dedup();
            r.violate(
                format!("async-stale|{}|{}", id, ev.join(",")),
                format!("{} with a scripted host under GC schedule {}: a reclaimed object was used (H1 events {})", id, f[1], ev.join(" ")),
                json!({"id": id, "async": true}),
            );
        }
    }
    if let Some((id, body)) = mine.first() {
        r.sample(json!({"async_program": id, "source": crate::asynchost::program(body, true), "schedules": "GC thresholds 1,2,3,5,7 x collect after every host action x immediate / deferred answers, vs collector off"}));
    }
}
