//! Declarations of tsrun's exported C API (src/ffi/*.rs), called from the harness through
//! `extern "C"` so that the whole call path is instrumented by ASan / Miri-less native runs.
#![allow(dead_code)]

use std::ffi::{CStr, CString, c_char, c_void};
pub use tsrun::ffi::{
    TsRunConsoleFn, TsRunConsoleLevel, TsRunContext, TsRunGcStats, TsRunImportRequest, TsRunNativeFn, TsRunOrder, TsRunOrderResponse,
    TsRunResult, TsRunStepResult, TsRunStepStatus, TsRunType, TsRunValue, TsRunValueResult,
};

#[repr(C)]
pub struct TsRunInternalModule {
    _private: [u8; 0],
}

unsafe extern "C" {
    pub fn tsrun_version() -> *const c_char;
    pub fn tsrun_new() -> *mut TsRunContext;
    pub fn tsrun_free(ctx: *mut TsRunContext);
    pub fn tsrun_set_console(ctx: *mut TsRunContext, func: Option<TsRunConsoleFn>, userdata: *mut c_void) -> TsRunResult;
    pub fn tsrun_prepare(ctx: *mut TsRunContext, code: *const c_char, path: *const c_char) -> TsRunResult;
    pub fn tsrun_step(out: *mut TsRunStepResult, ctx: *mut TsRunContext);
    pub fn tsrun_run(out: *mut TsRunStepResult, ctx: *mut TsRunContext);
    pub fn tsrun_step_result_free(result: *mut TsRunStepResult);
    pub fn tsrun_free_string(s: *mut c_char);
    pub fn tsrun_free_strings(strings: *mut *mut c_char, count: usize);
    pub fn tsrun_provide_module(ctx: *mut TsRunContext, path: *const c_char, code: *const c_char) -> TsRunResult;
    pub fn tsrun_get_export(ctx: *mut TsRunContext, name: *const c_char) -> TsRunValueResult;
    pub fn tsrun_get_export_names(ctx: *mut TsRunContext, count_out: *mut usize) -> *mut *mut c_char;
    pub fn tsrun_native_function(ctx: *mut TsRunContext, name: *const c_char, func: TsRunNativeFn, arity: usize, userdata: *mut c_void) -> TsRunValueResult;
    pub fn tsrun_internal_module_new(specifier: *const c_char) -> *mut TsRunInternalModule;
    pub fn tsrun_internal_module_add_function(module: *mut TsRunInternalModule, name: *const c_char, func: TsRunNativeFn, arity: usize, userdata: *mut c_void);
    pub fn tsrun_internal_module_add_value(module: *mut TsRunInternalModule, name: *const c_char, value: *mut TsRunValue);
    pub fn tsrun_register_internal_module(ctx: *mut TsRunContext, module: *mut TsRunInternalModule) -> TsRunResult;
    pub fn tsrun_fulfill_orders(ctx: *mut TsRunContext, responses: *const TsRunOrderResponse, count: usize) -> TsRunResult;
    pub fn tsrun_create_pending_order(ctx: *mut TsRunContext, payload: *mut TsRunValue, order_id_out: *mut u64) -> TsRunValueResult;
    pub fn tsrun_create_order_promise(ctx: *mut TsRunContext, order_id: u64) -> TsRunValueResult;
    pub fn tsrun_resolve_promise(ctx: *mut TsRunContext, promise: *mut TsRunValue, value: *mut TsRunValue) -> TsRunResult;
    pub fn tsrun_reject_promise(ctx: *mut TsRunContext, promise: *mut TsRunValue, error: *const c_char) -> TsRunResult;
    pub fn tsrun_typeof(val: *const TsRunValue) -> TsRunType;
    pub fn tsrun_is_undefined(val: *const TsRunValue) -> bool;
    pub fn tsrun_is_null(val: *const TsRunValue) -> bool;
    pub fn tsrun_is_nullish(val: *const TsRunValue) -> bool;
    pub fn tsrun_is_boolean(val: *const TsRunValue) -> bool;
    pub fn tsrun_is_number(val: *const TsRunValue) -> bool;
    pub fn tsrun_is_string(val: *const TsRunValue) -> bool;
    pub fn tsrun_is_object(val: *const TsRunValue) -> bool;
    pub fn tsrun_is_array(val: *const TsRunValue) -> bool;
    pub fn tsrun_is_function(val: *const TsRunValue) -> bool;
    pub fn tsrun_get_bool(val: *const TsRunValue) -> bool;
    pub fn tsrun_get_number(val: *const TsRunValue) -> f64;
    pub fn tsrun_get_string(val: *const TsRunValue) -> *const c_char;
    pub fn tsrun_get_string_len(val: *const TsRunValue) -> usize;
    pub fn tsrun_undefined(ctx: *mut TsRunContext) -> *mut TsRunValue;
    pub fn tsrun_null(ctx: *mut TsRunContext) -> *mut TsRunValue;
    pub fn tsrun_boolean(ctx: *mut TsRunContext, b: bool) -> *mut TsRunValue;
    pub fn tsrun_number(ctx: *mut TsRunContext, n: f64) -> *mut TsRunValue;
    pub fn tsrun_string(ctx: *mut TsRunContext, s: *const c_char) -> *mut TsRunValue;
    pub fn tsrun_string_len(ctx: *mut TsRunContext, s: *const c_char, len: usize) -> *mut TsRunValue;
    pub fn tsrun_value_free(val: *mut TsRunValue);
    pub fn tsrun_value_dup(ctx: *mut TsRunContext, val: *const TsRunValue) -> *mut TsRunValue;
    pub fn tsrun_get(ctx: *mut TsRunContext, obj: *mut TsRunValue, key: *const c_char) -> TsRunValueResult;
    pub fn tsrun_set(ctx: *mut TsRunContext, obj: *mut TsRunValue, key: *const c_char, val: *mut TsRunValue) -> TsRunResult;
    pub fn tsrun_has(ctx: *mut TsRunContext, obj: *mut TsRunValue, key: *const c_char) -> bool;
    pub fn tsrun_delete(ctx: *mut TsRunContext, obj: *mut TsRunValue, key: *const c_char) -> TsRunResult;
    pub fn tsrun_keys(ctx: *mut TsRunContext, obj: *mut TsRunValue, count_out: *mut usize) -> *mut *mut c_char;
    pub fn tsrun_array_len(arr: *const TsRunValue) -> usize;
    pub fn tsrun_array_get(ctx: *mut TsRunContext, arr: *mut TsRunValue, index: usize) -> TsRunValueResult;
    pub fn tsrun_array_set(ctx: *mut TsRunContext, arr: *mut TsRunValue, index: usize, val: *mut TsRunValue) -> TsRunResult;
    pub fn tsrun_array_push(ctx: *mut TsRunContext, arr: *mut TsRunValue, val: *mut TsRunValue) -> TsRunResult;
    pub fn tsrun_json_parse(ctx: *mut TsRunContext, json: *const c_char) -> TsRunValueResult;
    pub fn tsrun_json_stringify(ctx: *mut TsRunContext, val: *mut TsRunValue) -> *mut c_char;
    pub fn tsrun_object_new(ctx: *mut TsRunContext) -> TsRunValueResult;
    pub fn tsrun_array_new(ctx: *mut TsRunContext) -> TsRunValueResult;
    pub fn tsrun_call(ctx: *mut TsRunContext, func: *mut TsRunValue, this_arg: *mut TsRunValue, args: *mut *mut TsRunValue, argc: usize) -> TsRunValueResult;
    pub fn tsrun_call_method(ctx: *mut TsRunContext, obj: *mut TsRunValue, method: *const c_char, args: *mut *mut TsRunValue, argc: usize) -> TsRunValueResult;
    pub fn tsrun_get_global(ctx: *mut TsRunContext, name: *const c_char) -> TsRunValueResult;
    pub fn tsrun_set_global(ctx: *mut TsRunContext, name: *const c_char, val: *mut TsRunValue) -> TsRunResult;
    pub fn tsrun_gc_stats(ctx: *mut TsRunContext) -> TsRunGcStats;
}

pub fn cstr(s: &str) -> CString {
    CString::new(s.replace('\0', "")).unwrap()
}

/// Copy a C string returned by the API, checking that it is NUL-terminated valid UTF-8.
/// Returns Err(description) if it is not.
pub unsafe fn read_cstr(p: *const c_char) -> Result<Option<String>, String> {
    if p.is_null() {
        return Ok(None);
    }
    let c = unsafe { CStr::from_ptr(p) };
    match c.to_str() {
        Ok(s) => Ok(Some(s.to_string())),
        Err(e) => Err(format!("returned string is not valid UTF-8: {}", e)),
    }
}

/// Typed textual representation of a value handle (through the public inspectors only).
pub unsafe fn repr(ctx: *mut TsRunContext, v: *mut TsRunValue) -> String {
    unsafe {
        if v.is_null() {
            return "<null-handle>".into();
        }
        if tsrun_is_undefined(v) {
            return "undefined".into();
        }
        if tsrun_is_null(v) {
            return "null".into();
        }
        if tsrun_is_boolean(v) {
            return format!("b:{}", tsrun_get_bool(v));
        }
        if tsrun_is_number(v) {
            return format!("n:{}", tsrun::value::number_to_string(tsrun_get_number(v)));
        }
        if tsrun_is_string(v) {
            return match read_cstr(tsrun_get_string(v)) {
                Ok(Some(s)) => format!("s:{}", s),
                Ok(None) => "s:<null>".into(),
                Err(e) => format!("s:<{}>", e),
            };
        }
        if tsrun_is_function(v) {
            return "fn".into();
        }
        let j = tsrun_json_stringify(ctx, v);
        if j.is_null() {
            return "o:<unserialisable>".into();
        }
        let s = read_cstr(j).ok().flatten().unwrap_or_default();
        tsrun_free_string(j);
        format!("o:{}", s)
    }
}
