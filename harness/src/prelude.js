function __sh(v, d) {
  if (v === undefined) return "undefined";
  if (v === null) return "null";
  var t = typeof v;
  if (t === "number") {
    if (v !== v) return "NaN";
    if (v === 0) return (1 / v < 0) ? "-0" : "0";
    return "" + v;
  }
  if (t === "string") return JSON.stringify(v);
  if (t === "boolean") return v ? "true" : "false";
  if (t === "function") return "fn";
  if (t === "symbol") return "sym";
  if (t === "bigint") return "big";
  if (d > 5) return "...";
  var s, i;
  if (Array.isArray(v)) {
    s = "[";
    for (i = 0; i < v.length; i++) {
      if (i) s += ",";
      s += Object.prototype.hasOwnProperty.call(v, i) ? __sh(v[i], d + 1) : "<hole>";
    }
    return s + "]";
  }
  if (v instanceof Error) return "Err(" + v.name + ")";
  if (v instanceof Date) return "Date(" + v.getTime() + ")";
  if (v instanceof RegExp) return "RegExp(" + v.source + "," + v.flags + ")";
  if (v instanceof Map) {
    s = "Map{";
    i = 0;
    v.forEach(function (val, key) { if (i++) s += ","; s += __sh(key, d + 1) + "=>" + __sh(val, d + 1); });
    return s + "}";
  }
  if (v instanceof Set) {
    s = "Set{";
    i = 0;
    v.forEach(function (val) { if (i++) s += ","; s += __sh(val, d + 1); });
    return s + "}";
  }
  var ks = Object.keys(v);
  s = "{";
  for (i = 0; i < ks.length; i++) {
    if (i) s += ",";
    s += ks[i] + ":" + __sh(v[ks[i]], d + 1);
  }
  return s + "}";
}
function __show(v) { return __sh(v, 0); }
function __try(f) {
  try { return __sh(f(), 0); } catch (e) {
    if (e instanceof Error) return "throws " + e.name;
    return "throws " + __sh(e, 0);
  }
}
