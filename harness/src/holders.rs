//! "Holder" programs: a payload object is built inside a function and kept alive ONLY
//! through one container kind (array slot, property, symbol key, Map key/value, Set,
//! closure, class field, private field, static, accessor, bound function, suspended
//! generator, promise, proxy, error property, prototype, arguments, ...). After allocation
//! churn the payload is read back through the container. Aimed at the tracing arms of
//! every object kind and at roots held only by VM state.
#![allow(dead_code)]

use crate::checks::c01::Item;

/// (name, build expression using `p`, read-back expression using `c`)
const CONTAINERS: &[(&str, &str, &str)] = &[
    ("array", "[p]", "c[0]"),
    ("array2", "[[0, [p]]]", "c[0][1][0]"),
    ("prop", "({k: p})", "c.k"),
    ("prop3", "({a: 1, b: 2, k: p, d: 4})", "c.k"),
    ("symkey", "(function(){ var s = Symbol('s'); var o = {}; o[s] = p; return {s: s, o: o}; })()", "c.o[c.s]"),
    ("indexkey", "(function(){ var o = {}; o[7] = p; return o; })()", "c[7]"),
    ("mapval", "new Map([['k', p]])", "c.get('k')"),
    ("mapobjkey", "(function(){ var k = {id: 1}; var m = new Map(); m.set(k, p); return {m: m, k: k}; })()", "c.m.get(c.k)"),
    ("mapobjkeyonly", "(function(){ var m = new Map(); m.set({id: 2}, p); return m; })()", "[...c.values()][0]"),
    ("mapkey", "new Map([[p, 1]])", "[...c.keys()][0]"),
    ("mapforeach", "(function(){ var m = new Map(); m.set({a: 1}, p); m.set({a: 2}, [p]); return m; })()", "(function(){ var r = []; c.forEach(function(v, k){ r.push([k, v]); }); return r; })()"),
    ("setelem", "new Set([p])", "[...c][0]"),
    ("setofarr", "new Set([[p], 2])", "[...c][0][0]"),
    ("closure", "(function(){ return p; })", "c()"),
    ("arrow2", "(() => () => p)", "c()()"),
    ("closurevar", "(function(){ var keep = p; var n = 0; return function(){ n++; return keep; }; })()", "c()"),
    ("classfield", "new (class { constructor(x){ this.f = x; } })(p)", "c.f"),
    ("classfieldinit", "(function(){ class K { f = p; } return new K(); })()", "c.f"),
    ("privatefield", "(function(){ class K { #f; constructor(x){ this.#f = x; } get(){ return this.#f; } } return new K(p); })()", "c.get()"),
    ("staticfield", "(function(){ class K { static s = p; } return K; })()", "c.s"),
    ("getter", "({ get g(){ return p; } })", "c.g"),
    ("defineprop", "(function(){ var o = {}; Object.defineProperty(o, 'h', { get: function(){ return p; }, enumerable: false }); return o; })()", "c.h"),
    ("definevalue", "(function(){ var o = {}; Object.defineProperty(o, 'h', { value: p, enumerable: false }); return o; })()", "c.h"),
    ("boundthis", "(function(){ return this; }).bind(p)", "c()"),
    ("boundarg", "(function(a, b){ return [a, b]; }).bind(null, p)", "c(1)"),
    ("generatorlocal", "(function(){ function* g(){ var x = p; yield 1; yield x; } var it = g(); it.next(); return it; })()", "c.next().value"),
    ("generatorarg", "(function(){ function* g(a){ yield 1; yield a; } var it = g(p); it.next(); return it; })()", "c.next().value"),
    ("promise", "Promise.resolve(p)", "(function(){ var out = 'pending'; c.then(function(v){ out = v; }); return out; })()"),
    ("proxytarget", "new Proxy({k: p}, {})", "c.k"),
    ("proxyhandler", "new Proxy({}, { get: function(){ return p; } })", "c.anything"),
    ("errorprop", "(function(){ var e = new Error('x'); e.data = p; return e; })()", "c.data"),
    ("protochain", "Object.create({inherited: p})", "c.inherited"),
    ("funcprop", "(function(){ function f(){} f.prop = p; return f; })()", "c.prop"),
    ("entries", "Object.entries({k: p})", "c[0][1]"),
    ("fromentries", "Object.fromEntries([['k', p]])", "c.k"),
    ("spreadobj", "({...{k: p}})", "c.k"),
    ("spreadarr", "[...[p]]", "c[0]"),
    ("mapresult", "[1].map(function(){ return p; })", "c[0]"),
    ("concat", "[].concat([p])", "c[0]"),
    ("assign", "Object.assign({}, {k: p})", "c.k"),
    ("arrayfrom", "Array.from(new Set([p]))", "c[0]"),
    ("splice", "(function(){ var a = [1, p, 3]; return a.splice(1, 1); })()", "c[0]"),
    ("slice", "[0, p].slice(1)", "c[0]"),
    ("flat", "[[p]].flat()", "c[0]"),
    ("filter", "[p, 1].filter(function(x){ return typeof x === 'object' || typeof x === 'function'; })", "c[0]"),
    ("sortobj", "[{w: 2, v: p}, {w: 1, v: 0}].sort(function(a, b){ return a.w - b.w; })", "c[1].v"),
    ("reduceobj", "[1, 2].reduce(function(acc, x){ return {prev: acc, x: x, keep: p}; }, null)", "c.prev.keep"),
    ("groupBy", "(typeof Map.groupBy === 'function' ? Map.groupBy([p], function(){ return 'g'; }) : new Map([['g', [p]]]))", "c.get('g')[0]"),
    ("json", "JSON.parse('{\"k\": [1, {\"deep\": \"x\"}]}')", "c.k[1]"),
    ("reviver", "JSON.parse('[1]', function(k, v){ return k === '0' ? p : v; })", "c[0]"),
    ("datewithprop", "(function(){ var d = new Date(0); d.extra = p; return d; })()", "c.extra"),
    ("stringobj", "(function(){ var s = new String('s'); s.extra = p; return s; })()", "c.extra"),
    ("regexpprop", "(function(){ var r = /x/g; r.extra = p; return r; })()", "c.extra"),
    ("iteratorobj", "[p][Symbol.iterator]()", "c.next().value"),
    ("mapiterator", "new Map([[1, p]]).values()", "c.next().value"),
    ("weakref-like", "(function(){ var box = {v: null}; (function(){ box.v = p; })(); return box; })()", "c.v"),
];

const PAYLOADS: &[(&str, &str, &str)] = &[
    ("obj", "{tag: 'P', n: [1, 2, {deep: 'x'}]}", "__show(R)"),
    ("arr", "[1, {t: 'P'}, [3]]", "__show(R)"),
    ("fn", "(function(){ var secret = {s: 'P'}; return function(){ return secret; }; })()", "__show(typeof R === 'function' ? R() : R)"),
    ("map", "new Map([['k', {t: 'P'}]])", "__show(R)"),
];

const CHURN: &str = "for (var __i = 0; __i < 30; __i++) { var __junk = {i: __i, a: [__i, {j: __i}]}; }";

pub fn items() -> Vec<Item> {
    let mut v = Vec::new();
    for (cn, build, read) in CONTAINERS {
        for (pn, payload, show) in PAYLOADS {
            for (vn, churn_in_build) in [("after", false), ("during", true)] {
                let read_expr = show.replace('R', &format!("({})", read));
                let body = format!(
                    "function build(){{ var p = {payload}; {c1} var c = {build}; return c; }} var c = build(); {churn} var first = {read_expr}; {churn} var second = {read_expr}; return first + '|' + second;",
                    payload = payload,
                    c1 = if churn_in_build { CHURN } else { "" },
                    build = build,
                    churn = CHURN,
                    read_expr = read_expr
                );
                v.push(Item {
                    id: format!("hold.{}.{}.{}", cn, pn, vn),
                    call: format!("__try(function(){{ {} }})", body),
                    human: body,
                });
            }
        }
    }
    // two-level nesting: container of container (sampled deterministically)
    let n = CONTAINERS.len();
    for i in 0..n {
        let j = (i * 7 + 3) % n;
        let (c1, b1, r1) = CONTAINERS[i];
        let (c2, b2, r2) = CONTAINERS[j];
        let inner_read = r1.replace('c', "__C");
        let outer_read = r2.replace('c', "__D");
        let _ = (&inner_read, &outer_read);
        let body = format!(
            "function build(){{ var p = {{tag: 'P2', n: [1, {{deep: 'y'}}]}}; var inner = (function(p){{ return {b1}; }})(p); var outer = (function(p){{ return {b2}; }})(inner); return outer; }} var o = build(); {churn} var mid = (function(c){{ return {r2}; }})(o); {churn} var leaf = (function(c){{ return {r1}; }})(mid); return __show(leaf);",
            b1 = b1,
            b2 = b2,
            r1 = r1,
            r2 = r2,
            churn = CHURN
        );
        v.push(Item { id: format!("hold2.{}.in.{}", c1, c2), call: format!("__try(function(){{ {} }})", body), human: body });
    }
    v
}
