//! Module-graph programs shared by the checks that exercise the module loader (C02, C19).
#![allow(dead_code)]

use std::collections::BTreeMap;

pub struct GraphProg {
    pub id: String,
    pub src: String,
    pub path: Option<String>,
    pub modules: BTreeMap<String, String>,
    pub calls: Vec<String>,
}

pub fn graphs() -> Vec<GraphProg> {
    let mut v = Vec::new();
    let mk = |id: &str, main: &str, mods: &[(&str, &str)], calls: &[&str]| GraphProg {
        id: format!("graph.{}", id),
        src: main.to_string(),
        path: Some("/app/main.ts".into()),
        modules: mods.iter().map(|(p, s)| (p.to_string(), s.to_string())).collect(),
        calls: calls.iter().map(|c| c.to_string()).collect(),
    };
    v.push(mk(
        "chain",
        "import { a } from './a.ts';\nexport const fromMain = a + '!';\nconsole.log('main', a);\nfromMain",
        &[("/app/a.ts", "import { b } from './lib/b.ts';\nconsole.log('a');\nexport const a = 'a(' + b + ')';"), ("/app/lib/b.ts", "console.log('b');\nexport const b = 'b';")],
        &[],
    ));
    v.push(mk(
        "diamond-reexports",
        "import { left } from './left.ts';\nimport { right } from './right.ts';\nimport * as all from './barrel.ts';\nexport { left, right };\nexport const keys = Object.keys(all).sort().join();\n[left, right, keys, all.shared, all.ns.shared].join('|')",
        &[
            ("/app/left.ts", "import { shared, bump } from './shared.ts';\nbump();\nexport const left = 'L' + shared;"),
            ("/app/right.ts", "import { shared, bump } from './x/../shared.ts';\nbump();\nexport const right = 'R' + shared;"),
            ("/app/shared.ts", "console.log('shared loaded');\nexport let shared = 0;\nexport function bump() { shared++; }"),
            ("/app/barrel.ts", "export * from './shared.ts';\nexport { left as l2 } from './left.ts';\nexport * as ns from './shared.ts';"),
        ],
        &["bump"],
    ));
    v.push(mk(
        "live-main",
        "export let count = 0;\nexport function inc() { count++; return count; }\nexport default function hello() { return 'hi' + count; }\nexport class K { static tag = 'k'; }\nexport const obj = { n: 1 };\ninc();\ncount",
        &[],
        &["inc", "default"],
    ));
    v.push(mk(
        "default-and-namespace",
        "import def, { named } from './m.ts';\nimport * as ns from './m.ts';\nexport const out = [def(), named, typeof ns.default, Object.keys(ns).sort().join()].join('|');\nout",
        &[("/app/m.ts", "export default function () { return 'D'; }\nexport const named = 'N';\nconst hidden = 1;")],
        &[],
    ));
    v.push(mk("missing-module", "import { x } from './nope.ts';\nx", &[], &[]));
    v.push(mk("dep-throws", "import { x } from './bad.ts';\nx", &[("/app/bad.ts", "export const x = 1;\nthrow new RangeError('bad module');")], &[]));
    v.push(mk("dep-syntax-error", "import { x } from './bad.ts';\nx", &[("/app/bad.ts", "export const x = ;")], &[]));
    v.push(mk(
        "main-throws-after-exports",
        "export const early = 1;\nimport { a } from './a.ts';\nconsole.log('before');\nnull.boom;\nexport const late = 2;",
        &[("/app/a.ts", "export const a = 1;")],
        &[],
    ));
    v
}


/// module texts; all export `value`, `counter`, `bump` (and more)
pub const ROLE_MODULES: &[(&str, &str)] = &[
    ("let-counter", "export const value = 'v1';\nexport let counter = 0;\nexport function bump() { counter++; return counter; }"),
    ("var-counter", "export var counter = 10;\nexport const value = [1, 2].length;\nexport const bump = () => { counter += 5; return counter; };"),
    ("class-and-default", "export let counter = 1;\nexport function bump() { counter *= 2; }\nexport class K { static v = 'kv'; }\nexport const value = K.v;\nexport default function d() { return 'def'; }"),
    ("export-list", "let counter = 0;\nconst value = 'listed';\nfunction bump() { counter -= 1; }\nconst hidden = 'h';\nexport { counter, value, bump };"),
    ("renamed", "let c = 3;\nfunction b() { c++; }\nconst v = 'ren';\nexport { c as counter, b as bump, v as value };"),
    ("object-export", "export const value = { n: 1, s: 'x' }.s;\nexport let counter = 0;\nexport const state = { hits: 0 };\nexport function bump() { counter++; state.hits++; }"),
    ("computed-at-load", "const parts = ['a', 'b'].map(x => x.toUpperCase());\nexport const value = parts.join('');\nexport let counter = parts.length;\nexport function bump() { counter += parts.length; }"),
    ("late-assign", "export let counter;\nexport let value;\nvalue = 'late';\ncounter = 7;\nexport function bump() { counter = counter + 1; }"),
];

pub fn importer(spec: &str) -> String {
    format!(
        "import * as ns from '{s}';\nimport {{ counter, bump, value }} from '{s}';\nconst r = [];\nr.push(Object.keys(ns).sort().join(','));\nr.push(String(value));\nr.push(String(counter));\nbump(); bump();\nr.push(String(counter));\nr.push(String(ns.counter));\nr.join('|')",
        s = spec
    )
}

