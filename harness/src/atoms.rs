//! Stratum A of the program corpus: the *atom matrix*. Every atom is a tiny expression
//! template with typed holes; the matrix is atom x palette combinations, enumerated
//! deterministically (seed-independent). Each cell is evaluated as
//! `__try(function(){ return <expr>; })` under the canonical printer prelude, so the same
//! text runs on the reference engine (goldens) and on tsrun.
#![allow(dead_code)]

use crate::util::*;

pub struct Atom {
    pub family: &'static str,
    pub template: &'static str,
    pub holes: &'static [&'static str],
}

pub struct Cell {
    /// "family#index"
    pub id: String,
    pub family: &'static str,
    pub expr: String,
}

// ───────────────────────────── palettes ─────────────────────────────

pub fn palette(name: &str) -> &'static [&'static str] {
    match name {
        // the hostile cross-type operand palette of C01's quantifier
        "any" => &[
            "0", "-0", "1", "-1", "2", "0.5", "-1.5", "2.5", "NaN", "Infinity", "-Infinity", "2147483647", "2147483648",
            "-2147483649", "4294967295", "4294967296", "9007199254740991", "1e21", "1e-7", "''", "'a'", "'abc'", "'B'", "'10'",
            "'9'", "' 12 '", "'0x1f'", "'1e3'", "'-0'", "'\\u00e9'", "true", "false", "null", "undefined", "[]", "[1]", "[1,2]", "['a']",
            "[[2]]", "({})", "({a:1})", "({valueOf:function(){return 42}})", "({toString:function(){return 'ts'}})",
            "({valueOf:function(){return '7'}, toString:function(){return 'x'}})", "new Number(5)", "new String('s')",
            "new Boolean(false)", "(function f(){})",
        ],
        "num" => &[
            "0", "-0", "1", "-1", "2", "3", "0.5", "-0.5", "1.5", "2.5", "-2.5", "NaN", "Infinity", "-Infinity", "255", "256",
            "2147483647", "2147483648", "-2147483648", "4294967295", "4294967296", "9007199254740991", "9007199254740992", "1e21",
            "1e-7", "0.1", "1e300", "5e-324", "123.456", "-123.456",
        ],
        "smallnum" => &["0", "1", "-1", "2", "3", "0.5", "-2.5", "10", "NaN", "Infinity", "-0"],
        "str" => &[
            "''", "'a'", "'abc'", "'abcabc'", "'Hello, World'", "'  padded  '", "'a,b,,c'", "'\\u00e9t\\u00e9'", "'\\u00df'", "'ABC'",
            "'10'", "'a-b_c d'", "'x\\ny'", "'aaa'",
        ],
        "sub" => &["''", "'a'", "'b'", "'bc'", "'abc'", "'z'", "','", "'A'", "'\\u00e9'", "undefined", "1", "null"],
        // index-like arguments: negative, fractional, out of range, NaN, explicit undefined
        "idx" => &["0", "1", "2", "-1", "-2", "5", "-5", "1.5", "-1.5", "NaN", "Infinity", "-Infinity", "undefined", "'1'", "null", "100"],
        "idx2" => &["0", "1", "-1", "2", "10", "undefined", "NaN", "-Infinity"],
        "count" => &["0", "1", "2", "3", "-1", "1.9", "NaN", "undefined", "'2'"],
        "arr" => &[
            "[]", "[1]", "[1,2,3]", "[3,1,2]", "['b','a','c']", "[1,[2,[3,[4]]]]", "[undefined,null,0]", "[1,2,3,4,5,6]",
            "[10,9,1,100]", "[NaN,0,-0]", "['a',1,true,null]", "[[1,2],[3,4]]",
        ],
        "numarr" => &["[]", "[1]", "[1,2,3]", "[3,1,2]", "[1,2,3,4,5,6]", "[10,9,1,100]", "[0,-1,5,5]"],
        "obj" => &[
            "({})", "({a:1})", "({a:1,b:2,c:3})", "({b:2,a:1})", "({a:{b:{c:1}}})", "({a:undefined,b:null})", "({1:'x',0:'y',z:'w'})",
            "({a:[1,2],b:'s'})", "({get g(){return 7},h:1})", "Object.create({inherited:1})", "Object.freeze({f:1})", "[1,2]", "'str'",
        ],
        "val" => &["0", "1", "'a'", "null", "undefined", "NaN", "true", "[1]", "({k:1})", "-0"],
        "key" => &["'a'", "'b'", "'z'", "'toString'", "0", "'0'", "1", "'length'", "'__proto__'", "''"],
        "radix" => &["undefined", "2", "8", "10", "16", "36", "0", "1", "37", "16.9"],
        "intstr" => &[
            "'0'", "'42'", "'-42'", "'  42  '", "'42px'", "'px42'", "'0x1f'", "'0X1F'", "'1e3'", "'12.9'", "'.5'", "'-.5'", "''", "'+7'",
            "'0b11'", "'0o17'", "'077'", "'Infinity'", "'-Infinity'", "'1_000'", "'9007199254740993'", "'1e1000'", "'1.5x'", "null", "undefined", "true", "12.7",
        ],
        "json" => &[
            "'{}'", "'[]'", "'null'", "'true'", "'1'", "'-0'", "'1e3'", "'\"s\"'", "'{\"a\":1,\"b\":[1,2,{\"c\":null}]}'", "'[1,\"2\",[3]]'",
            "'{\"b\":1,\"a\":2}'", "'{\"2\":\"x\",\"1\":\"y\"}'", "'\"\\\\u00e9\\\\n\"'", "' [ 1 , 2 ] '", "'{\"a\":1,\"a\":2}'", "'{'", "'[1,]'",
            "'undefined'", "''", "'01'", "\"'a'\"", "'{\"__proto__\":1}'", "'1 2'", "'\"\\\\ud83d\\\\ude00\"'",
        ],
        "jsonval" => &[
            "1", "'s'", "null", "undefined", "true", "[1,'a',null,undefined]", "({a:1,b:[1,2]})", "({b:1,a:2})", "({a:undefined,f:function(){},n:null})",
            "NaN", "-0", "Infinity", "1e21", "'\\u00e9\\n\\\"q\\\"'", "({toJSON:function(){return 'tj'}})", "[new Date(0)]", "({2:'x',1:'y',a:'z'})",
            "new Number(3)", "new String('w')", "[[]]", "({})", "[]", "({a:{b:{c:[]}}})", "(function(){})", "({k:new Map([[1,2]])})",
        ],
        "indent" => &["undefined", "2", "'\\t'", "0", "'--'", "20"],
        "regex" => &["/a/", "/b+/g", "/(a)(b)?/", "/[A-Z]/gi", "/^a|c$/", "/x*/g", "/(?<n>b)c/", "/\\d+/g", "/./gs", "/a/y"],
        "restr" => &["'abc'", "'aabbcc'", "'ABC abc'", "''", "'a1b22c333'", "'xbcx'", "'a\\nb'"],
        "repl" => &["'X'", "'[$&]'", "'$1-$2'", "'$$'", "''", "function(m){return m.toUpperCase()}", "function(m,p1){return '<'+p1+'>'}"],
        "cb1" => &[
            "function(x){return x*2}", "function(x,i){return i}", "function(x){return x>1}", "function(x){return [x,x]}",
            "function(x){return undefined}", "function(x,i,a){return a.length}", "function(x){return String(x)}",
        ],
        "cbred" => &["function(a,b){return a+b}", "function(a,b,i){return a+i}", "function(a,b){return [a,b]}", "function(a,b){return b}"],
        "init" => &["", ",0", ",'s'", ",[]", ",undefined"],
        "cmp" => &["", "function(a,b){return a-b}", "function(a,b){return b-a}", "function(a,b){return 0}", "function(a,b){return String(a)<String(b)?-1:1}", "undefined"],
        "depth" => &["", "0", "1", "2", "Infinity", "-1", "undefined"],
        "datems" => &["0", "1e12", "-1", "86400000", "1700000000000", "NaN", "8.64e15", "8.64e15+1", "951782400000", "-62198755200000"],
        "iso" => &[
            "'2020-01-01T00:00:00.000Z'", "'2020-02-29T12:34:56.789Z'", "'1970-01-01T00:00:00Z'", "'2020-01-01'", "'2020-13-01T00:00:00Z'",
            "'not a date'", "'2020-01-01T00:00:00+02:00'", "'+010000-01-01T00:00:00Z'", "'1999-12-31T23:59:59.999Z'",
        ],
        "ymd" => &["2020,0,1", "2020,1,29,12,34,56,789", "1970,0,1", "2021,11,31,23,59,59", "2020,12,1", "2020,0,0", "99,0,1", "2020", "NaN,0,1"],
        "mapinit" => &["[]", "[[1,'a'],[2,'b']]", "[['k',1],['k',2]]", "[[NaN,'n'],[NaN,'m']]", "[[0,'z'],[-0,'nz']]", "[[{},1]]", "[['a',1],['b',2],['c',3]]"],
        "setinit" => &["[]", "[1,2,3]", "[1,1,2]", "[NaN,NaN]", "[0,-0]", "['a','b']", "[[1],[1]]"],
        "mapkey" => &["1", "'a'", "'k'", "NaN", "0", "-0", "undefined", "'zz'"],
        other => panic!("unknown palette {}", other),
    }
}

// ───────────────────────────── atom catalogue ─────────────────────────────

macro_rules! atom {
    ($f:expr, $t:expr, [$($h:expr),*]) => {
        Atom { family: $f, template: $t, holes: &[$($h),*] }
    };
}

pub fn catalogue() -> Vec<Atom> {
    let mut v: Vec<Atom> = Vec::new();
    // binary operators over the cross-type palette
    const BIN: &[(&str, &str)] = &[
        ("bin.add", "($0) + ($1)"), ("bin.sub", "($0) - ($1)"), ("bin.mul", "($0) * ($1)"), ("bin.div", "($0) / ($1)"),
        ("bin.mod", "($0) % ($1)"), ("bin.exp", "($0) ** ($1)"), ("bin.eq", "($0) == ($1)"), ("bin.ne", "($0) != ($1)"),
        ("bin.seq", "($0) === ($1)"), ("bin.sne", "($0) !== ($1)"), ("bin.lt", "($0) < ($1)"), ("bin.le", "($0) <= ($1)"),
        ("bin.gt", "($0) > ($1)"), ("bin.ge", "($0) >= ($1)"), ("bin.band", "($0) & ($1)"), ("bin.bor", "($0) | ($1)"),
        ("bin.bxor", "($0) ^ ($1)"), ("bin.shl", "($0) << ($1)"), ("bin.shr", "($0) >> ($1)"), ("bin.ushr", "($0) >>> ($1)"),
        ("bin.and", "($0) && ($1)"), ("bin.or", "($0) || ($1)"), ("bin.nullish", "($0) ?? ($1)"), ("bin.comma", "(($0), ($1))"),
        ("bin.objis", "Object.is($0, $1)"), ("bin.cond", "($0) ? ($1) : 'else'"),
    ];
    for (f, t) in BIN {
        v.push(Atom { family: f, template: t, holes: &["any", "any"] });
    }
    const UN: &[(&str, &str)] = &[
        ("un.plus", "+($0)"), ("un.neg", "-($0)"), ("un.not", "!($0)"), ("un.bitnot", "~($0)"), ("un.typeof", "typeof ($0)"),
        ("un.void", "void ($0)"), ("conv.String", "String($0)"), ("conv.Number", "Number($0)"), ("conv.Boolean", "Boolean($0)"),
        ("conv.template", "`<${$0}>`"), ("conv.concat", "'' + ($0)"), ("conv.isNaN", "isNaN($0)"), ("conv.isFinite", "isFinite($0)"),
        ("conv.NumberisNaN", "Number.isNaN($0)"), ("conv.isInteger", "Number.isInteger($0)"), ("conv.isSafeInteger", "Number.isSafeInteger($0)"),
        ("conv.NumberisFinite", "Number.isFinite($0)"), ("conv.isArray", "Array.isArray($0)"), ("conv.typeofObject", "typeof Object($0)"),
        ("conv.json", "JSON.stringify($0)"), ("conv.arrayOf", "[$0].length"), ("conv.bangbang", "!!($0)"), ("conv.ifelse", "(function(){ if ($0) return 'T'; else return 'F'; })()"),
        ("conv.whileguard", "(function(){ var n = 0; while (($0) && n < 2) n++; return n; })()"),
        ("upd.postinc", "(function(){ var x = $0; var r = x++; return [r, x]; })()"),
        ("upd.postdec", "(function(){ var x = $0; var r = x--; return [r, x]; })()"),
        ("upd.preinc", "(function(){ var x = $0; var r = ++x; return [r, x]; })()"),
        ("upd.predec", "(function(){ var x = $0; var r = --x; return [r, x]; })()"),
        ("upd.propinc", "(function(){ var o = {p: $0}; var r = o.p++; return [r, o.p]; })()"),
        ("upd.eleminc", "(function(){ var a = [$0]; var r = ++a[0]; return [r, a[0]]; })()"),
        ("switch.strict", "(function(v){ switch (v) { case 0: return 'zero'; case '1': return 'str1'; case 1: return 'one'; case null: return 'null'; case undefined: return 'undef'; case NaN: return 'nan'; case true: return 'true'; default: return 'dflt'; } })($0)"),
    ];
    for (f, t) in UN {
        v.push(Atom { family: f, template: t, holes: &["any"] });
    }
    const COMPOUND: &[(&str, &str)] = &[
        ("asg.add", "+="), ("asg.sub", "-="), ("asg.mul", "*="), ("asg.div", "/="), ("asg.mod", "%="), ("asg.exp", "**="),
        ("asg.shl", "<<="), ("asg.shr", ">>="), ("asg.ushr", ">>>="), ("asg.band", "&="), ("asg.bor", "|="), ("asg.bxor", "^="),
        ("asg.and", "&&="), ("asg.or", "||="), ("asg.nullish", "??="),
    ];
    for (f, op) in COMPOUND {
        let t: &'static str = Box::leak(format!("(function(){{ var x = $0; var r = (x {} $1); return [r, x]; }})()", op).into_boxed_str());
        v.push(Atom { family: f, template: t, holes: &["val", "val"] });
    }
    // numeric text conversion
    v.push(atom!("num.parseInt", "parseInt($0)", ["intstr"]));
    v.push(atom!("num.parseIntRadix", "parseInt($0, $1)", ["intstr", "radix"]));
    v.push(atom!("num.parseFloat", "parseFloat($0)", ["intstr"]));
    v.push(atom!("num.NumberparseFloat", "Number.parseFloat($0)", ["intstr"]));
    v.push(atom!("num.NumberparseInt", "Number.parseInt($0, $1)", ["intstr", "radix"]));
    v.push(atom!("num.Number", "Number($0)", ["intstr"]));
    v.push(atom!("num.toStringRadix", "($0).toString($1)", ["smallnum", "radix"]));
    v.push(atom!("num.toFixedRange", "(1.5).toFixed($0)", ["idx"]));
    // Math
    for f in [
        "abs", "ceil", "floor", "round", "trunc", "sign", "sqrt", "fround", "clz32",
    ] {
        let t: &'static str = Box::leak(format!("Math.{}($0)", f).into_boxed_str());
        let fam: &'static str = Box::leak(format!("math.{}", f).into_boxed_str());
        v.push(Atom { family: fam, template: t, holes: &["num"] });
        let fam2: &'static str = Box::leak(format!("math.{}.any", f).into_boxed_str());
        v.push(Atom { family: fam2, template: t, holes: &["any"] });
    }
    // implementation-approximated functions: compared after rounding to 1e-9
    for f in ["sin", "cos", "tan", "asin", "acos", "atan", "exp", "log", "log2", "log10", "cbrt", "sinh", "cosh", "tanh", "expm1", "log1p"] {
        let t: &'static str = Box::leak(format!("(function(r){{ return (r === r && isFinite(r)) ? Math.round(r * 1e9) / 1e9 : r; }})(Math.{}($0))", f).into_boxed_str());
        let fam: &'static str = Box::leak(format!("math.{}", f).into_boxed_str());
        v.push(Atom { family: fam, template: t, holes: &["smallnum"] });
    }
    for f in ["max", "min", "pow", "imul", "atan2", "hypot"] {
        let t: &'static str = if f == "atan2" || f == "hypot" {
            Box::leak(format!("(function(r){{ return (r === r && isFinite(r)) ? Math.round(r * 1e9) / 1e9 : r; }})(Math.{}($0, $1))", f).into_boxed_str())
        } else {
            Box::leak(format!("Math.{}($0, $1)", f).into_boxed_str())
        };
        let fam: &'static str = Box::leak(format!("math.{}", f).into_boxed_str());
        v.push(Atom { family: fam, template: t, holes: &["smallnum", "smallnum"] });
    }
    v.push(atom!("math.max0", "[Math.max(), Math.min(), Math.max(1), Math.max(1,2,3), Math.min(NaN,1), Math.max(-0,0), Math.min(0,-0), Math.max('3',2), Math.max([],1)]", []));
    // String methods
    const STR1: &[(&str, &str, &str)] = &[
        ("str.charAt", "($0).charAt($1)", "idx"), ("str.charCodeAt", "($0).charCodeAt($1)", "idx"), ("str.codePointAt", "($0).codePointAt($1)", "idx"),
        ("str.at", "($0).at($1)", "idx"), ("str.index", "($0)[$1]", "idx"), ("str.repeat", "($0).repeat($1)", "count"),
        ("str.indexOf", "($0).indexOf($1)", "sub"), ("str.lastIndexOf", "($0).lastIndexOf($1)", "sub"), ("str.includes", "($0).includes($1)", "sub"),
        ("str.startsWith", "($0).startsWith($1)", "sub"), ("str.endsWith", "($0).endsWith($1)", "sub"), ("str.split", "($0).split($1)", "sub"),
        ("str.concat", "($0).concat($1)", "sub"), ("str.localeCompare", "($0).localeCompare($1) > 0", "sub"), ("str.search", "($0).search($1)", "sub"),
        ("str.slice1", "($0).slice($1)", "idx"), ("str.substring1", "($0).substring($1)", "idx"), ("str.substr1", "($0).substr($1)", "idx"),
        ("str.padStart1", "($0).padStart($1)", "count"), ("str.padEnd1", "($0).padEnd($1)", "count"), ("str.fromCharCode", "String.fromCharCode($1) + ($0)", "num"),
    ];
    for (f, t, h) in STR1 {
        let holes: &'static [&'static str] = Box::leak(vec!["str", *h].into_boxed_slice());
        v.push(Atom { family: f, template: t, holes });
    }
    const STR2: &[(&str, &str, &str, &str)] = &[
        ("str.slice", "($0).slice($1, $2)", "idx", "idx2"), ("str.substring", "($0).substring($1, $2)", "idx", "idx2"),
        ("str.substr", "($0).substr($1, $2)", "idx", "idx2"), ("str.indexOfFrom", "($0).indexOf($1, $2)", "sub", "idx2"),
        ("str.lastIndexOfFrom", "($0).lastIndexOf($1, $2)", "sub", "idx2"), ("str.includesFrom", "($0).includes($1, $2)", "sub", "idx2"),
        ("str.startsWithAt", "($0).startsWith($1, $2)", "sub", "idx2"), ("str.endsWithAt", "($0).endsWith($1, $2)", "sub", "idx2"),
        ("str.padStart", "($0).padStart($2, $1)", "sub", "count"), ("str.padEnd", "($0).padEnd($2, $1)", "sub", "count"),
        ("str.splitLimit", "($0).split($1, $2)", "sub", "count"), ("str.replaceStr", "($0).replace($1, $2)", "sub", "repl"),
        ("str.replaceAllStr", "($0).replaceAll($1, $2)", "sub", "repl"),
    ];
    for (f, t, h1, h2) in STR2 {
        let holes: &'static [&'static str] = Box::leak(vec!["str", *h1, *h2].into_boxed_slice());
        v.push(Atom { family: f, template: t, holes });
    }
    for (f, t) in [
        ("str.trim", "[($0).trim(), ($0).trimStart(), ($0).trimEnd()]"), ("str.case", "[($0).toUpperCase(), ($0).toLowerCase()]"),
        ("str.length", "($0).length"), ("str.spread", "[...($0)]"), ("str.iter", "(function(){ var r = []; for (var c of ($0)) r.push(c); return r; })()"),
        ("str.valueOf", "[($0).valueOf(), ($0).toString(), Object($0) == ($0)]"), ("str.raw", "String.raw`a${$0}\\n`"),
        ("str.cmp", "[($0) < 'b', ($0) > 'B', ($0) == 'abc', ($0) <= '']"), ("str.split0", "($0).split()"),
    ] {
        v.push(Atom { family: f, template: t, holes: &["str"] });
    }
    // RegExp
    v.push(atom!("re.test", "($0).test($1)", ["regex", "restr"]));
    v.push(atom!("re.exec", "(function(m){ return m && [m[0], m.index, m.length, m[1]]; })(($0).exec($1))", ["regex", "restr"]));
    v.push(atom!("re.match", "($1).match($0)", ["regex", "restr"]));
    v.push(atom!("re.replace", "($1).replace($0, $2)", ["regex", "restr", "repl"]));
    v.push(atom!("re.split", "($1).split($0)", ["regex", "restr"]));
    v.push(atom!("re.search", "($1).search($0)", ["regex", "restr"]));
    v.push(atom!("re.matchAll", "Array.from(($1).matchAll(new RegExp(($0).source, 'g')), function(m){ return m[0] + '@' + m.index; })", ["regex", "restr"]));
    v.push(atom!("re.props", "[($0).source, ($0).flags, ($0).global, ($0).ignoreCase, ($0).multiline, ($0).lastIndex, String($0)]", ["regex"]));
    v.push(atom!("re.lastIndex", "(function(){ var re = /a/g; var s = 'aXaXa'; var r = []; var m; while ((m = re.exec(s))) r.push(m.index + ':' + re.lastIndex); return r; })()", []));
    // Array methods
    const ARR1: &[(&str, &str, &str)] = &[
        ("arr.at", "($0).at($1)", "idx"), ("arr.index", "($0)[$1]", "idx"), ("arr.slice1", "($0).slice($1)", "idx"),
        ("arr.indexOf", "($0).indexOf($1)", "val"), ("arr.lastIndexOf", "($0).lastIndexOf($1)", "val"), ("arr.includes", "($0).includes($1)", "val"),
        ("arr.join", "($0).join($1)", "sub"), ("arr.concat", "($0).concat($1)", "val"), ("arr.concatArr", "($0).concat($1, [9])", "arr"),
        ("arr.flat", "($0).flat($1)", "depth"), ("arr.push", "(function(a){ var r = a.push($1); return [r, a]; })($0)", "val"),
        ("arr.unshift", "(function(a){ var r = a.unshift($1, 'u'); return [r, a]; })($0)", "val"), ("arr.fill1", "($0).fill($1)", "val"),
        ("arr.setLength", "(function(a){ a.length = $1; return [a.length, a]; })($0)", "count"),
        ("arr.setIndex", "(function(a){ a[$1] = 'set'; return [a.length, a]; })($0)", "idx2"),
        ("arr.map", "($0).map($1)", "cb1"), ("arr.filter", "($0).filter($1)", "cb1"), ("arr.forEach", "(function(a){ var r = []; a.forEach(function(x,i){ r.push(i+':'+x); }); return r; })($0)", "val"),
        ("arr.some", "($0).some($1)", "cb1"), ("arr.every", "($0).every($1)", "cb1"), ("arr.find", "($0).find($1)", "cb1"),
        ("arr.findIndex", "($0).findIndex($1)", "cb1"), ("arr.findLast", "($0).findLast($1)", "cb1"), ("arr.findLastIndex", "($0).findLastIndex($1)", "cb1"),
        ("arr.flatMap", "($0).flatMap($1)", "cb1"), ("arr.sort", "($0).sort($1)", "cmp"), ("arr.from", "Array.from($0, $1)", "cb1"),
        ("arr.toSorted", "(function(a){ var r = a.slice().sort($1); return [r, a]; })($0)", "cmp"),
    ];
    for (f, t, h) in ARR1 {
        let holes: &'static [&'static str] = Box::leak(vec!["arr", *h].into_boxed_slice());
        v.push(Atom { family: f, template: t, holes });
    }
    const ARR2: &[(&str, &str, &str, &str)] = &[
        ("arr.slice", "($0).slice($1, $2)", "idx", "idx2"), ("arr.splice", "(function(a){ var r = a.splice($1, $2); return [r, a]; })($0)", "idx", "count"),
        ("arr.spliceIns", "(function(a){ var r = a.splice($1, $2, 'x', 'y'); return [r, a]; })($0)", "idx", "count"),
        ("arr.fill", "($0).fill('f', $1, $2)", "idx", "idx2"), ("arr.copyWithin", "($0).copyWithin($1, $2)", "idx", "idx2"),
        ("arr.indexOfFrom", "($0).indexOf($1, $2)", "val", "idx2"), ("arr.includesFrom", "($0).includes($1, $2)", "val", "idx2"),
        ("arr.reduce", "($0).reduce($1 $2)", "cbred", "init"), ("arr.reduceRight", "($0).reduceRight($1 $2)", "cbred", "init"),
    ];
    for (f, t, h1, h2) in ARR2 {
        let holes: &'static [&'static str] = Box::leak(vec!["arr", *h1, *h2].into_boxed_slice());
        v.push(Atom { family: f, template: t, holes });
    }
    for (f, t) in [
        ("arr.pop", "(function(a){ var r = a.pop(); return [r, a]; })($0)"), ("arr.shift", "(function(a){ var r = a.shift(); return [r, a]; })($0)"),
        ("arr.reverse", "(function(a){ var r = a.reverse(); return [r === a, a]; })($0)"), ("arr.toString", "[String($0), ($0).toString(), ($0) + '']"),
        ("arr.spread", "[...($0), 'end']"), ("arr.keys", "[[...($0).keys()], [...($0).entries()], [...($0).values()]]"),
        ("arr.destruct", "(function(){ var [a, b = 'dflt', ...rest] = $0; return [a, b, rest]; })()"), ("arr.forof", "(function(){ var r = []; for (var x of $0) r.push(x); return r; })()"),
        ("arr.forin", "(function(){ var r = []; for (var k in $0) r.push(k); return r; })()"), ("arr.length", "($0).length"),
        ("arr.isArray", "[Array.isArray($0), ($0) instanceof Array, typeof ($0)]"), ("arr.of", "Array.of(...($0))"),
        ("arr.fromIter", "[Array.from($0), Array.from(new Set($0)), Array.from('ab'), Array.from({length: 2}), Array.from({length: 2, 0: 'x'})]"),
        ("arr.json", "JSON.stringify($0)"), ("arr.numsort", "($0).slice().sort()"), ("arr.objkeys", "[Object.keys($0), Object.entries($0)]"),
        ("arr.max", "[Math.max(...($0)), Math.min.apply(null, $0)]"), ("arr.joindefault", "[($0).join(), ($0).join(undefined), ($0).join(null), ($0).join('')]"),
    ] {
        v.push(Atom { family: f, template: t, holes: &["arr"] });
    }
    v.push(atom!("arr.ctor", "[new Array($0).length, Array($0).length]", ["count"]));
    v.push(atom!("arr.ctor2", "[new Array(1,2), Array('3'), new Array('a','b').length, new Array(), Array(2).join('-')]", []));
    // Object statics and property access
    for (f, t) in [
        ("obj.keys", "Object.keys($0)"), ("obj.values", "Object.values($0)"), ("obj.entries", "Object.entries($0)"),
        ("obj.names", "Object.getOwnPropertyNames($0)"), ("obj.assign", "Object.assign({z:0}, $0)"), ("obj.spread", "({y: 0, ...($0), w: 1})"),
        ("obj.json", "JSON.stringify($0)"), ("obj.forin", "(function(){ var r = []; for (var k in $0) r.push(k); return r; })()"),
        ("obj.frozen", "[Object.isFrozen($0), Object.isSealed($0), Object.isExtensible($0)]"), ("obj.proto", "[Object.getPrototypeOf($0) === Object.prototype, Object.getPrototypeOf($0) === null]"),
        ("obj.fromEntries", "Object.fromEntries(Object.entries($0))"), ("obj.toString", "[String($0), Object.prototype.toString.call($0)]"),
        ("obj.destruct", "(function(){ var {a, b = 'dflt', ...rest} = $0; return [a, b, rest]; })()"), ("obj.typeof", "typeof ($0)"),
        ("obj.jsonRound", "JSON.parse(JSON.stringify($0))"), ("obj.entriesMap", "new Map(Object.entries($0))"),
    ] {
        v.push(Atom { family: f, template: t, holes: &["obj"] });
    }
    for (f, t) in [
        ("obj.in", "($1) in ($0)"), ("obj.hasOwn", "($0).hasOwnProperty($1)"), ("obj.ObjecthasOwn", "Object.hasOwn($0, $1)"),
        ("obj.get", "($0)[$1]"), ("obj.optget", "($0)?.[$1]"), ("obj.delete", "(function(o){ var r = delete o[$1]; return [r, Object.keys(o)]; })($0)"),
        ("obj.set", "(function(o){ 'use strict'; try { o[$1] = 'set'; } catch (e) { return 'throws ' + e.name; } return [o[$1], Object.keys(o)]; })($0)"),
        ("obj.gopd", "(function(d){ return d && [d.value, d.writable, d.enumerable, d.configurable, typeof d.get]; })(Object.getOwnPropertyDescriptor($0, $1))"),
        ("obj.propIsEnum", "Object.prototype.propertyIsEnumerable.call($0, $1)"),
    ] {
        v.push(Atom { family: f, template: t, holes: &["obj", "key"] });
    }
    v.push(atom!("obj.defprop", "(function(){ var o = {a:1}; Object.defineProperty(o, 'h', {value: $0, enumerable: false}); return [o.h, Object.keys(o), JSON.stringify(o), 'h' in o]; })()", ["val"]));
    v.push(atom!("obj.create", "(function(){ var p = {inh: $0, m: function(){ return this.own; }}; var o = Object.create(p); o.own = 1; return [o.inh, o.m(), Object.keys(o), 'inh' in o, o.hasOwnProperty('inh')]; })()", ["val"]));
    v.push(atom!("obj.getset", "(function(){ var log = []; var o = { _v: $0, get v(){ log.push('get'); return this._v; }, set v(x){ log.push('set'); this._v = x; } }; o.v = o.v; o.v += 1; return [o._v, log]; })()", ["val"]));
    v.push(atom!("obj.computed", "(function(){ var k = $0; var o = {[k]: 1, ['p' + 1]: 2}; return [Object.keys(o), o[k]]; })()", ["key"]));
    v.push(atom!("obj.keyorder", "Object.keys({b:1, 2:1, a:1, 1:1, c:1, '-1':1, '01':1})", []));
    v.push(atom!("obj.shorthand", "(function(){ var a = 1, b = 'x'; var o = {a, b, m(){ return this.a; }}; return [o, o.m()]; })()", []));
    // Map / Set
    v.push(atom!("map.basic", "(function(){ var m = new Map($0); return [m.size, m.get($1), m.has($1), m.delete($1), m.size, [...m.keys()]]; })()", ["mapinit", "mapkey"]));
    v.push(atom!("map.set", "(function(){ var m = new Map($0); var r = m.set($1, 'new'); return [r === m, m.size, [...m]]; })()", ["mapinit", "mapkey"]));
    v.push(atom!("map.iter", "(function(){ var m = new Map($0); var r = []; m.forEach(function(v, k, mm){ r.push([k, v, mm === m]); }); for (var [k, v] of m) r.push(k); return [r, [...m.entries()], [...m.values()]]; })()", ["mapinit"]));
    v.push(atom!("set.basic", "(function(){ var s = new Set($0); return [s.size, s.has($1), s.delete($1), s.add($1) === s, s.size, [...s]]; })()", ["setinit", "mapkey"]));
    v.push(atom!("set.iter", "(function(){ var s = new Set($0); var r = []; s.forEach(function(v, k){ r.push([v, k]); }); return [r, [...s.keys()], [...s.entries()]]; })()", ["setinit"]));
    v.push(atom!("map.misc", "(function(){ var m = new Map(); var k = {}; m.set(k, 1).set(k, 2).set('k', 3); m.clear(); m.set(1, 'a'); return [m.size, m.get(1), m instanceof Map, typeof m, Object.prototype.toString.call(m)]; })()", []));
    v.push(atom!("map.mutateduring", "(function(){ var m = new Map([[1,1],[2,2],[3,3]]); var r = []; m.forEach(function(v, k){ r.push(k); if (k === 1) { m.delete(2); m.set(4, 4); } }); return r; })()", []));
    // JSON
    v.push(atom!("json.parse", "JSON.parse($0)", ["json"]));
    v.push(atom!("json.stringify", "JSON.stringify($0)", ["jsonval"]));
    v.push(atom!("json.stringifyIndent", "JSON.stringify($0, null, $1)", ["jsonval", "indent"]));
    v.push(atom!("json.replacerArr", "JSON.stringify($0, ['a', 'b'])", ["jsonval"]));
    v.push(atom!("json.replacerFn", "JSON.stringify($0, function(k, v){ return typeof v === 'number' ? v + 1 : v; })", ["jsonval"]));
    v.push(atom!("json.reviver", "JSON.parse($0, function(k, v){ return typeof v === 'number' ? v * 2 : v; })", ["json"]));
    v.push(atom!("json.cycle", "(function(){ var o = {}; o.self = o; return JSON.stringify(o); })()", []));
    // Date (UTC only)
    v.push(atom!("date.ms", "(function(d){ return [d.getTime(), isNaN(d) ? 'invalid' : d.toISOString()]; })(new Date($0))", ["datems"]));
    v.push(atom!("date.utcget", "(function(d){ return [d.getUTCFullYear(), d.getUTCMonth(), d.getUTCDate(), d.getUTCDay(), d.getUTCHours(), d.getUTCMinutes(), d.getUTCSeconds(), d.getUTCMilliseconds()]; })(new Date($0))", ["datems"]));
    v.push(atom!("date.parse", "[Date.parse($0), new Date($0).getTime()]", ["iso"]));
    v.push(atom!("date.UTC", "Date.UTC($0)", ["ymd"]));
    v.push(atom!("date.json", "[JSON.stringify(new Date($0)), new Date($0).valueOf(), +new Date($0), typeof Date.now()]", ["datems"]));
    v.push(atom!("date.setutc", "(function(d){ d.setUTCFullYear(2001); d.setUTCMonth(13); d.setUTCDate(0); d.setUTCHours(25); return d.getTime(); })(new Date($0))", ["datems"]));
    v
}

/// Enumerate the cells of one atom: the full cross product when small, otherwise a
/// deterministic (seed-independent) sample of `cap` combinations.
pub fn cells_of(a: &Atom, cap: usize) -> Vec<Cell> {
    let pals: Vec<&[&str]> = a.holes.iter().map(|h| palette(h)).collect();
    let total: usize = pals.iter().map(|p| p.len()).product::<usize>().max(1);
    let mut out = Vec::new();
    let push = |combo_index: usize, out: &mut Vec<Cell>| {
        let mut rem = combo_index;
        let mut expr = a.template.to_string();
        // fill from the last hole to the first so that $1 does not clobber $10 (no atom has 10 holes)
        let mut picks = Vec::new();
        for p in &pals {
            picks.push(p[rem % p.len()]);
            rem /= p.len();
        }
        for (i, pick) in picks.iter().enumerate() {
            expr = expr.replace(&format!("${}", i), pick);
        }
        out.push(Cell { id: format!("{}#{}", a.family, combo_index), family: a.family, expr });
    };
    if total <= cap {
        for i in 0..total {
            push(i, &mut out);
        }
    } else {
        let mut rng = Rng::derive("atom-sample", fnv64(a.family.as_bytes()), 0);
        let mut seen = std::collections::BTreeSet::new();
        while seen.len() < cap {
            seen.insert(rng.below(total));
        }
        for i in seen {
            push(i, &mut out);
        }
    }
    out
}

pub fn all_cells(cap: usize) -> Vec<Cell> {
    let mut v = Vec::new();
    for a in catalogue() {
        v.extend(cells_of(&a, cap));
    }
    v
}
