//! One scripted host, several ways of driving tsrun: the Rust API (eval / prepare+step /
//! step with interleaved read-only calls) and the C API (tsrun_step loop / tsrun_run).
//! The host script is the same for all of them; the resulting trace is compared (C19).
#![allow(dead_code)]

use crate::ffi;
use crate::runner;
use std::cell::RefCell;
use std::collections::BTreeMap;
use std::ffi::{c_char, c_void};
use std::rc::Rc;
use tsrun::{Interpreter, InterpreterConfig, InternalModule, JsValue, ModulePath, OrderId, OrderResponse, RuntimeValue, StepResult};

#[derive(Debug, Clone, PartialEq)]
pub enum St {
    Continue,
    Complete(String),
    NeedImports(Vec<(String, String, String)>),
    Suspended(Vec<(u64, String)>, Vec<u64>),
    Done,
    Error(String),
}

#[derive(Clone, Copy, Debug, PartialEq, Eq)]
pub enum Mode {
    PrepareStep,
    Eval,
    StepWithReads,
    CStep,
    CRun,
}

impl Mode {
    pub fn name(&self) -> &'static str {
        match self {
            Mode::PrepareStep => "prepare+step",
            Mode::Eval => "eval",
            Mode::StepWithReads => "step+reads",
            Mode::CStep => "c-api-step",
            Mode::CRun => "c-api-run",
        }
    }
}

pub fn repr_rust(v: &JsValue) -> String {
    match v {
        JsValue::Undefined => "undefined".into(),
        JsValue::Null => "null".into(),
        JsValue::Boolean(b) => format!("b:{}", b),
        JsValue::Number(n) => format!("n:{}", tsrun::value::number_to_string(*n)),
        JsValue::String(s) => format!("s:{}", s.as_str()),
        JsValue::Symbol(_) => "o:<unserialisable>".into(),
        JsValue::Object(o) => {
            if o.borrow().is_callable() {
                return "fn".into();
            }
            match tsrun::js_value_to_json(v) {
                Ok(j) => format!("o:{}", serde_json::to_string(&j).unwrap_or_default()),
                Err(_) => "o:<unserialisable>".into(),
            }
        }
    }
}

fn err_class_of_message(msg: &str) -> String {
    msg.split(':').next().unwrap_or("").trim().to_string()
}

pub trait Engine {
    fn prepare(&mut self, src: &str, path: Option<&str>) -> St;
    /// advance until the next non-Continue event (bounded by `budget` steps)
    fn advance(&mut self, budget: u64) -> St;
    fn provide(&mut self, path: &str, src: &str) -> bool;
    /// answer an order with a number / an error
    fn fulfill(&mut self, id: u64, value: Result<f64, String>);
    fn exports(&mut self) -> Vec<(String, String)>;
    fn call_export(&mut self, name: &str) -> String;
    fn log(&self) -> Vec<String>;
}

// ───────────────────────────── Rust API ─────────────────────────────

pub struct RustEngine {
    interp: Interpreter,
    log: Rc<RefCell<Vec<String>>>,
    mode: Mode,
    steps: u64,
}

impl RustEngine {
    pub fn new(mode: Mode, internal_sources: &[(String, String)]) -> Self {
        let log = Rc::new(RefCell::new(Vec::new()));
        let mut interp = if internal_sources.is_empty() {
            Interpreter::new()
        } else {
            Interpreter::with_config(InterpreterConfig {
                internal_modules: internal_sources.iter().map(|(spec, src)| InternalModule::source(spec.clone(), src.clone())).collect(),
                ..Default::default()
            })
        };
        interp.set_console(Box::new(runner::CaptureConsole(log.clone())));
        interp.set_time_provider(Box::new(runner::FixedTime));
        interp.set_random_provider(Box::new(runner::SeqRandom(42)));
        // default GC threshold: the C API offers no way to change it, and entry points must be
        // compared under the same collection schedule (schedules are C02's subject)
        RustEngine { interp, log, mode, steps: 0 }
    }

    fn conv(&mut self, r: Result<StepResult, tsrun::JsError>) -> St {
        match r {
            Ok(StepResult::Continue) => St::Continue,
            Ok(StepResult::Complete(v)) => St::Complete(repr_rust(v.value())),
            Ok(StepResult::Done) => St::Done,
            Ok(StepResult::NeedImports(reqs)) => St::NeedImports(
                reqs.into_iter()
                    .map(|r| (r.specifier, r.resolved_path.as_str().to_string(), r.importer.map(|p| p.as_str().to_string()).unwrap_or_default()))
                    .collect(),
            ),
            Ok(StepResult::Suspended { pending, cancelled }) => St::Suspended(
                pending.iter().map(|o| (o.id.0, repr_rust(o.payload.value()))).collect(),
                cancelled.iter().map(|c| c.0).collect(),
            ),
            Err(e) => St::Error(err_class_of_message(&e.to_string())),
        }
    }
}

impl Engine for RustEngine {
    fn prepare(&mut self, src: &str, path: Option<&str>) -> St {
        let p = path.map(ModulePath::new);
        let r = match self.mode {
            Mode::Eval => self.interp.eval(src, p),
            _ => self.interp.prepare(src, p),
        };
        self.conv(r)
    }

    fn advance(&mut self, budget: u64) -> St {
        let mut n = 0;
        loop {
            if self.mode == Mode::StepWithReads && self.steps % 2 == 0 {
                let _ = self.interp.gc_stats();
                let _ = self.interp.call_depth();
                let names = tsrun::api::get_export_names(&self.interp);
                for nm in names.iter().take(2) {
                    let _ = tsrun::api::get_export(&self.interp, nm);
                }
                let _ = self.interp.verif_quiescence();
            }
            self.steps += 1;
            let r = self.interp.step();
            let st = self.conv(r);
            if st != St::Continue {
                return st;
            }
            n += 1;
            if n >= budget {
                return St::Error("step-budget".into());
            }
        }
    }

    fn provide(&mut self, path: &str, src: &str) -> bool {
        self.interp.provide_module(ModulePath::new(path), src).is_ok()
    }

    fn fulfill(&mut self, id: u64, value: Result<f64, String>) {
        let result = match value {
            Ok(n) => Ok(RuntimeValue::unguarded(JsValue::from(n))),
            Err(m) => Err(tsrun::JsError::type_error(m)),
        };
        self.interp.fulfill_orders(vec![OrderResponse { id: OrderId(id), result }]);
    }

    fn exports(&mut self) -> Vec<(String, String)> {
        let mut names = tsrun::api::get_export_names(&self.interp);
        names.sort();
        names
            .into_iter()
            .map(|n| {
                let v = tsrun::api::get_export(&self.interp, &n).unwrap_or(JsValue::Undefined);
                (n, repr_rust(&v))
            })
            .collect()
    }

    fn call_export(&mut self, name: &str) -> String {
        let Some(f) = tsrun::api::get_export(&self.interp, name) else { return "<no export>".into() };
        if f.is_undefined() {
            return "<no export>".into();
        }
        let guard = tsrun::api::create_guard(&self.interp);
        match tsrun::api::call_function(&mut self.interp, &guard, &f, None, &[]) {
            Ok(v) => repr_rust(&v),
            Err(e) => format!("error:{}", err_class_of_message(&e.to_string())),
        }
    }

    fn log(&self) -> Vec<String> {
        self.log.borrow().clone()
    }
}

// ───────────────────────────── C API ─────────────────────────────

pub struct CEngine {
    ctx: *mut ffi::TsRunContext,
    log: Box<RefCell<Vec<String>>>,
    mode: Mode,
}

extern "C" fn console_cb(level: ffi::TsRunConsoleLevel, message: *const c_char, len: usize, userdata: *mut c_void) {
    let log = unsafe { &*(userdata as *const RefCell<Vec<String>>) };
    let bytes = if message.is_null() { &[][..] } else { unsafe { std::slice::from_raw_parts(message as *const u8, len) } };
    let text = String::from_utf8_lossy(bytes).to_string();
    let tag = match level {
        ffi::TsRunConsoleLevel::Log => "",
        ffi::TsRunConsoleLevel::Info => "info:",
        ffi::TsRunConsoleLevel::Debug => "debug:",
        ffi::TsRunConsoleLevel::Warn => "warn:",
        ffi::TsRunConsoleLevel::Error => "error:",
        ffi::TsRunConsoleLevel::Clear => "clear:",
    };
    log.borrow_mut().push(format!("{}{}", tag, text));
}

impl CEngine {
    /// internal source modules cannot be registered through the C API; only used for
    /// programs that do not need them
    pub fn new(mode: Mode) -> Self {
        unsafe {
            let ctx = ffi::tsrun_new();
            let log = Box::new(RefCell::new(Vec::new()));
            ffi::tsrun_set_console(ctx, Some(console_cb), &*log as *const RefCell<Vec<String>> as *mut c_void);
            CEngine { ctx, log, mode }
        }
    }

    unsafe fn conv(&mut self, r: &mut ffi::TsRunStepResult) -> St {
        unsafe {
            let st = match r.status {
                ffi::TsRunStepStatus::Continue => St::Continue,
                ffi::TsRunStepStatus::Complete => {
                    let s = ffi::repr(self.ctx, r.value);
                    if !r.value.is_null() {
                        ffi::tsrun_value_free(r.value);
                    }
                    St::Complete(s)
                }
                ffi::TsRunStepStatus::Done => St::Done,
                ffi::TsRunStepStatus::NeedImports => {
                    let mut v = Vec::new();
                    for i in 0..r.import_count {
                        let req = &*r.imports.add(i);
                        v.push((
                            ffi::read_cstr(req.specifier).ok().flatten().unwrap_or_default(),
                            ffi::read_cstr(req.resolved_path).ok().flatten().unwrap_or_default(),
                            ffi::read_cstr(req.importer).ok().flatten().unwrap_or_default(),
                        ));
                    }
                    St::NeedImports(v)
                }
                ffi::TsRunStepStatus::Suspended => {
                    let mut p = Vec::new();
                    for i in 0..r.pending_count {
                        let o = &*r.pending_orders.add(i);
                        p.push((o.id, ffi::repr(self.ctx, o.payload)));
                    }
                    let mut c = Vec::new();
                    for i in 0..r.cancelled_count {
                        c.push(*r.cancelled_orders.add(i));
                    }
                    St::Suspended(p, c)
                }
                ffi::TsRunStepStatus::Error => {
                    let msg = ffi::read_cstr(r.error).ok().flatten().unwrap_or_default();
                    St::Error(err_class_of_message(&msg))
                }
            };
            ffi::tsrun_step_result_free(r);
            st
        }
    }
}

impl Drop for CEngine {
    fn drop(&mut self) {
        unsafe { ffi::tsrun_free(self.ctx) }
    }
}

impl Engine for CEngine {
    fn prepare(&mut self, src: &str, path: Option<&str>) -> St {
        unsafe {
            let code = ffi::cstr(src);
            let p = path.map(ffi::cstr);
            let r = ffi::tsrun_prepare(self.ctx, code.as_ptr(), p.as_ref().map(|c| c.as_ptr()).unwrap_or(std::ptr::null()));
            if r.ok {
                St::Continue
            } else {
                let msg = ffi::read_cstr(r.error).ok().flatten().unwrap_or_default();
                St::Error(err_class_of_message(&msg))
            }
        }
    }

    fn advance(&mut self, budget: u64) -> St {
        unsafe {
            if self.mode == Mode::CRun {
                let mut out = std::mem::MaybeUninit::<ffi::TsRunStepResult>::uninit();
                ffi::tsrun_run(out.as_mut_ptr(), self.ctx);
                let mut r = out.assume_init();
                return self.conv(&mut r);
            }
            let mut n = 0;
            loop {
                let mut out = std::mem::MaybeUninit::<ffi::TsRunStepResult>::uninit();
                ffi::tsrun_step(out.as_mut_ptr(), self.ctx);
                let mut r = out.assume_init();
                let st = self.conv(&mut r);
                if st != St::Continue {
                    return st;
                }
                n += 1;
                if n >= budget {
                    return St::Error("step-budget".into());
                }
            }
        }
    }

    fn provide(&mut self, path: &str, src: &str) -> bool {
        unsafe {
            let p = ffi::cstr(path);
            let s = ffi::cstr(src);
            ffi::tsrun_provide_module(self.ctx, p.as_ptr(), s.as_ptr()).ok
        }
    }

    fn fulfill(&mut self, id: u64, value: Result<f64, String>) {
        unsafe {
            match value {
                Ok(n) => {
                    let v = ffi::tsrun_number(self.ctx, n);
                    let resp = ffi::TsRunOrderResponse { id, value: v, error: std::ptr::null() };
                    ffi::tsrun_fulfill_orders(self.ctx, &resp, 1);
                    ffi::tsrun_value_free(v);
                }
                Err(m) => {
                    let e = ffi::cstr(&m);
                    let resp = ffi::TsRunOrderResponse { id, value: std::ptr::null_mut(), error: e.as_ptr() };
                    ffi::tsrun_fulfill_orders(self.ctx, &resp, 1);
                }
            }
        }
    }

    fn exports(&mut self) -> Vec<(String, String)> {
        unsafe {
            let mut count: usize = 0;
            let names = ffi::tsrun_get_export_names(self.ctx, &mut count);
            let mut v = Vec::new();
            if !names.is_null() {
                for i in 0..count {
                    let n = ffi::read_cstr(*names.add(i)).ok().flatten().unwrap_or_default();
                    v.push(n);
                }
                ffi::tsrun_free_strings(names, count);
            }
            v.sort();
            v.into_iter()
                .map(|n| {
                    let cn = ffi::cstr(&n);
                    let r = ffi::tsrun_get_export(self.ctx, cn.as_ptr());
                    let s = if r.value.is_null() { "undefined".to_string() } else { ffi::repr(self.ctx, r.value) };
                    if !r.value.is_null() {
                        ffi::tsrun_value_free(r.value);
                    }
                    (n, s)
                })
                .collect()
        }
    }

    fn call_export(&mut self, name: &str) -> String {
        unsafe {
            let cn = ffi::cstr(name);
            let f = ffi::tsrun_get_export(self.ctx, cn.as_ptr());
            if f.value.is_null() {
                return "<no export>".into();
            }
            if ffi::tsrun_is_undefined(f.value) {
                ffi::tsrun_value_free(f.value);
                return "<no export>".into();
            }
            let r = ffi::tsrun_call(self.ctx, f.value, std::ptr::null_mut(), std::ptr::null_mut(), 0);
            let s = if r.value.is_null() {
                let msg = ffi::read_cstr(r.error).ok().flatten().unwrap_or_default();
                format!("error:{}", err_class_of_message(&msg))
            } else {
                let s = ffi::repr(self.ctx, r.value);
                ffi::tsrun_value_free(r.value);
                s
            };
            ffi::tsrun_value_free(f.value);
            s
        }
    }

    fn log(&self) -> Vec<String> {
        self.log.borrow().clone()
    }
}

pub fn make(mode: Mode, internal_sources: &[(String, String)]) -> Box<dyn Engine> {
    match mode {
        Mode::CStep | Mode::CRun => Box::new(CEngine::new(mode)),
        m => Box::new(RustEngine::new(m, internal_sources)),
    }
}

/// The scripted host: supplies requested modules from `modules`, answers every order
/// whose payload has a numeric `k` with k*2 (or an error if it has `err`), and records the
/// whole conversation.
pub fn drive(e: &mut dyn Engine, src: &str, path: Option<&str>, modules: &BTreeMap<String, String>, calls: &[&str]) -> String {
    let mut trace: Vec<String> = Vec::new();
    let mut st = e.prepare(src, path);
    let mut rounds = 0;
    loop {
        rounds += 1;
        if rounds > 5000 {
            trace.push("host: giving up after 5000 rounds".into());
            break;
        }
        match st.clone() {
            St::Continue => {
                st = e.advance(300_000);
            }
            St::NeedImports(reqs) => {
                trace.push(format!("need-imports {:?}", reqs));
                let mut all = true;
                for (_, resolved, _) in &reqs {
                    match modules.get(resolved) {
                        Some(m) => {
                            if !e.provide(resolved, m) {
                                trace.push(format!("provide {} failed", resolved));
                                all = false;
                            }
                        }
                        None => {
                            trace.push(format!("missing {}", resolved));
                            all = false;
                        }
                    }
                }
                if !all {
                    break;
                }
                st = e.advance(300_000);
            }
            St::Suspended(pending, cancelled) => {
                trace.push(format!("suspended pending={:?} cancelled={:?}", pending, cancelled));
                if pending.is_empty() {
                    trace.push("host: nothing to answer".into());
                    break;
                }
                for (id, payload) in &pending {
                    // payload repr: o:{"k":3} or o:{"err":"x"}
                    let json = payload.strip_prefix("o:").unwrap_or("null");
                    let v: serde_json::Value = serde_json::from_str(json).unwrap_or(serde_json::Value::Null);
                    if let Some(m) = v.get("err").and_then(|x| x.as_str()) {
                        e.fulfill(*id, Err(m.to_string()));
                    } else {
                        let k = v.get("k").and_then(|x| x.as_f64()).unwrap_or(-1.0);
                        e.fulfill(*id, Ok(k * 2.0));
                    }
                }
                st = e.advance(300_000);
            }
            St::Complete(v) => {
                trace.push(format!("complete {}", v));
                break;
            }
            St::Done => {
                trace.push("done".into());
                break;
            }
            St::Error(c) => {
                trace.push(format!("error {}", c));
                break;
            }
        }
    }
    trace.push(format!("exports {:?}", e.exports()));
    for c in calls {
        trace.push(format!("call {} -> {}", c, e.call_export(c)));
        trace.push(format!("exports-after {:?}", e.exports()));
    }
    trace.push(format!("log {:?}", e.log()));
    trace.join("\n")
}
