//---- try.finally.return
function f(){ var log=[]; function g(){ try { log.push('t'); return 'r'; } finally { log.push('f'); } } var r=g(); return [r,log]; } return f();
//---- try.finally.override
function g(){ try { return 'try'; } finally { return 'fin'; } } return g();
//---- try.catch.finally.order
var log=[]; function g(){ try { log.push(1); throw new Error('x'); } catch(e){ log.push(2); return 'c'; } finally { log.push(3); } } var r=g(); return [r,log];
//---- try.catch.return.after
var n=0; function g(){ try { throw 1; } catch(e){ n++; } finally { n+=10; } return n; } return [g(), n];
//---- try.nested.rethrow
var log=[]; try { try { throw new TypeError('a'); } catch(e){ log.push('in:'+e.name); throw new RangeError('b'); } finally { log.push('fin1'); } } catch(e2){ log.push('out:'+e2.name); } finally { log.push('fin2'); } return log;
//---- try.finally.break
var log=[]; for (var i=0;i<3;i++){ try { if(i===1) break; log.push('b'+i); } finally { log.push('f'+i); } } return log;
//---- try.finally.continue
var log=[]; for (var i=0;i<3;i++){ try { if(i===1) continue; log.push('b'+i); } finally { log.push('f'+i); } } return log;
//---- try.finally.throw.in.finally
function g(){ try { throw new Error('first'); } finally { throw new TypeError('second'); } } try { g(); } catch(e){ return e.name; }
//---- try.catch.scope
var e='outer'; try { throw 'inner'; } catch(e){ var seen=e; } return [e, seen];
//---- try.catch.nobinding
var r='no'; try { null.x; } catch { r='caught'; } return r;
//---- try.finally.normal.completion
var log=[]; function g(){ try { log.push('t'); } finally { log.push('f'); } return 'after'; } return [g(), log];
//---- try.return.in.loop.finally
function g(){ for (var i=0;i<5;i++){ try { if(i===2) return 'ret'+i; } finally { if(i===2) { } } } return 'end'; } return g();
//---- throw.nonerror
try { throw {code: 7}; } catch(e){ return e.code; }
//---- throw.across.calls
function a(){ b(); } function b(){ c(); } function c(){ throw new RangeError('deep'); } try { a(); } catch(e){ return [e.name, e.message, e instanceof RangeError, e instanceof Error]; }
//---- error.props
var e=new TypeError('msg'); return [e.name, e.message, String(e), e instanceof TypeError, e instanceof Error, Object.prototype.toString.call(e), typeof e.stack];
//---- error.custom.class
class MyErr extends Error { constructor(m){ super(m); this.name='MyErr'; this.extra=1; } } try { throw new MyErr('boom'); } catch(e){ return [e.name, e.message, e.extra, e instanceof MyErr, e instanceof Error, String(e)]; }
//---- error.builtin.kinds
function k(f){ try { f(); return 'none'; } catch(e){ return e.name; } } return [k(function(){ null.x; }), k(function(){ undefinedVar; }), k(function(){ (1)(); }), k(function(){ new Array(-1); }), k(function(){ 'x'.repeat(-1); }), k(function(){ JSON.parse('{'); }), k(function(){ new (function(){}.bind())(); }), k(function(){ ({}).x.y; }), k(function(){ var a = 1; a(); }), k(function(){ Symbol() + ''; })];
//---- hoist.function.decl
var r=f(); function f(){ return 'hoisted'; } return r;
//---- hoist.function.in.function
function outer(){ return inner(); function inner(){ return 'in'; } } return outer();
//---- hoist.var
function f(){ var r = typeof x; var x = 1; return [r, x]; } return f();
//---- hoist.function.in.block
function f(){ var r=[]; { r.push(typeof g); function g(){ return 1; } r.push(g()); } return r; } return f();
//---- tdz.let
function f(){ try { x; } catch(e){ return e.name; } let x = 1; return 'no error'; } return f();
//---- tdz.const.assign
function f(){ const c = 1; try { c = 2; } catch(e){ return [e.name, c]; } return ['no', c]; } return f();
//---- let.block.scope
let x='outer'; { let x='inner'; } return x;
//---- let.shadow.in.loop.break
let v='outer'; for (let i=0;i<3;i++){ let v='in'+i; if(i===1) break; } return v;
//---- let.shadow.in.loop.continue
let v='outer'; var r=[]; for (let i=0;i<3;i++){ let v='in'+i; if(i===1) continue; r.push(v); } r.push(v); return r;
//---- let.shadow.switch
let v='outer'; switch(1){ case 1: { let v='inner'; break; } } return v;
//---- let.shadow.try.return
let v='outer'; function f(){ let v='f'; try { let v='t'; return v; } finally { } } return [f(), v];
//---- closure.loop.let
var fs=[]; for (let i=0;i<3;i++){ fs.push(function(){ return i; }); } return fs.map(function(f){ return f(); });
//---- closure.loop.var
var fs=[]; for (var i=0;i<3;i++){ fs.push(function(){ return i; }); } return fs.map(function(f){ return f(); });
//---- closure.counter
function mk(){ var n=0; return { inc: function(){ return ++n; }, get: function(){ return n; } }; } var a=mk(), b=mk(); a.inc(); a.inc(); b.inc(); return [a.get(), b.get()];
//---- closure.forof.let
var fs=[]; for (let x of ['a','b']){ fs.push(() => x); } return fs.map(f => f());
//---- closure.forin
var fs=[]; for (let k in {p:1,q:2}){ fs.push(() => k); } return fs.map(f => f());
//---- closure.nested.mutation
function outer(){ var x=1; function mid(){ function inner(){ x++; return x; } return inner; } return [mid()(), mid()(), x]; } return outer();
//---- named.function.expression.self
var f = function fact(n){ return n<=1 ? 1 : n*fact(n-1); }; var g=f; f=null; return g(5);
//---- named.function.expression.scope
var f = function inner(){ return typeof inner; }; return [f(), typeof inner];
//---- default.param.earlier
function f(a, b = a + 1, c = a + b){ return [a,b,c]; } return [f(1), f(1,5), f(1,undefined,9)];
//---- default.param.undefined.vs.null
function f(a = 'd'){ return a; } return [f(), f(undefined), f(null), f(0), f('')];
//---- default.param.closure
function f(a, g = function(){ return a; }){ a = 'changed'; return g(); } return f('orig');
//---- rest.params
function f(a, ...r){ return [a, r, r.length, Array.isArray(r)]; } return [f(), f(1), f(1,2,3)];
//---- arguments.object
function f(a, b){ return [arguments.length, arguments[0], arguments[2], typeof arguments, Array.prototype.slice.call(arguments)]; } return f(1,2,3);
//---- function.length.name
function foo(a,b,c){} var bar = function(x){}; var arrow = (p, q) => p; class K { m(z){} } return [foo.length, foo.name, bar.name, arrow.length, arrow.name, K.name, new K().m.name, (function(){}).name];
//---- this.method.vs.detached
'use strict'; var o = { v: 1, m: function(){ return this === undefined ? 'undef' : this.v; } }; var d = o.m; return [o.m(), d(), (0, o.m)(), o['m']()];
//---- this.arrow.lexical
var o = { v: 'ov', m: function(){ var a = () => this.v; return a(); }, n: function(){ return [1].map(function(){ return this; }, 'thisArg').length; } }; return [o.m(), o.n()];
//---- call.apply.bind
function f(a,b){ return [this.t, a, b]; } var bound = f.bind({t:'b'}, 1); return [f.call({t:'c'}, 1, 2), f.apply({t:'a'}, [3,4]), bound(2), bound.call({t:'ignored'}, 9), bound.length, bound.name];
//---- bind.new
function P(x){ this.x = x; } var B = P.bind(null, 5); var o = new B(); return [o.x, o instanceof P, o instanceof B];
//---- new.return.object
function A(){ this.a=1; return {b:2}; } function B(){ this.a=1; return 5; } return [new A(), new B()];
//---- new.target
function F(){ return new.target === undefined ? 'call' : 'new'; } return [F(), new F() instanceof F];
//---- getter.setter.class
class C { constructor(){ this._x=1; } get x(){ return this._x*2; } set x(v){ this._x=v; } static get s(){ return 'st'; } } var c=new C(); c.x=5; return [c.x, C.s, Object.keys(c), 'x' in c, c.hasOwnProperty('x')];
//---- class.inheritance.super
class A { constructor(n){ this.n=n; } who(){ return 'A'+this.n; } static make(){ return new this(7); } } class B extends A { constructor(){ super(3); this.b=true; } who(){ return 'B>'+super.who(); } } var b=new B(); return [b.who(), b.n, b instanceof A, B.make().who(), Object.getPrototypeOf(B) === A, B.name];
//---- class.fields.static
class C { a = 1; b = this.a + 1; static s = 'S'; static t = C.s + 'T'; #p = 9; getP(){ return this.#p; } static #sp = 's'; static getSp(){ return C.#sp; } } var c=new C(); return [c.a, c.b, C.s, C.t, c.getP(), C.getSp(), Object.keys(c)];
//---- class.private.methods
class C { #v = 1; #inc(){ return ++this.#v; } bump(){ return this.#inc(); } static has(o){ return #v in o; } } var c=new C(); return [c.bump(), c.bump(), C.has(c), C.has({})];
//---- class.static.block
class C { static x; static { C.x = 'init'; } static y = C.x + '!'; } return [C.x, C.y];
//---- class.computed.and.generator.methods
var k='dyn'; class C { [k](){ return 'd'; } *gen(){ yield 1; yield 2; } static async am(){ return 1; } } var c=new C(); return [c.dyn(), [...c.gen()], typeof C.am];
//---- class.tostring.typeof
class C {} return [typeof C, typeof new C(), C.prototype.constructor === C, Object.getOwnPropertyNames(C.prototype)];
//---- class.call.without.new
class C {} try { C(); } catch(e){ return e.name; }
//---- class.super.property.order
var log=[]; class A { constructor(){ log.push('A'); } } class B extends A { f = log.push('Bfield'); constructor(){ log.push('B0'); super(); log.push('B1'); } } new B(); return log;
//---- class.this.before.super
class A {} class B extends A { constructor(){ try { this.x = 1; } catch(e){ super(); this.err = e.name; return; } super(); } } return new B().err;
//---- class.accessor.inherit
class A { get v(){ return 'A'; } } class B extends A { get v(){ return super.v + 'B'; } } return new B().v;
//---- instanceof.symbol.hasInstance
class Even { static [Symbol.hasInstance](n){ return n % 2 === 0; } } return [2 instanceof Even, 3 instanceof Even];
//---- proto.chain.manual
function A(){} A.prototype.hi = function(){ return 'hi'; }; function B(){} B.prototype = Object.create(A.prototype); B.prototype.constructor = B; var b = new B(); return [b.hi(), b instanceof A, 'hi' in b, b.hasOwnProperty('hi'), Object.keys(b)];
//---- switch.fallthrough
function f(x){ var r=[]; switch(x){ case 1: r.push(1); case 2: r.push(2); break; case 3: r.push(3); default: r.push('d'); case 4: r.push(4); } return r; } return [f(1), f(2), f(3), f(4), f(9)];
//---- switch.default.middle
function f(x){ switch(x){ case 'a': return 'A'; default: return 'D'; case 'b': return 'B'; } } return [f('a'), f('b'), f('c')];
//---- switch.continue.in.loop
var r=[]; for (var i=0;i<4;i++){ switch(i){ case 1: continue; case 2: break; default: r.push('d'+i); } r.push('a'+i); } return r;
//---- labeled.break.continue
var r=[]; outer: for (var i=0;i<3;i++){ for (var j=0;j<3;j++){ if(j===1) continue outer; if(i===2) break outer; r.push(i+''+j); } } return r;
//---- labeled.block
var r=[]; blk: { r.push(1); if (r.length) break blk; r.push(2); } r.push(3); return r;
//---- loops.equivalent
function a(){ var s=0; for (var i=0;i<5;i++) s+=i; return s; } function b(){ var s=0,i=0; while(i<5){ s+=i; i++; } return s; } function c(){ var s=0,i=0; do { s+=i; i++; } while(i<5); return s; } return [a(), b(), c()];
//---- dowhile.once
var n=0; do { n++; } while(false); return n;
//---- for.no.parts
var i=0; for(;;){ if(++i>3) break; } return i;
//---- for.comma
var r=[]; for (var i=0, j=10; i<j; i+=3, j-=3) r.push(i+':'+j); return r;
//---- forin.order.and.inherited
function P(){ this.own1=1; this.own2=2; } P.prototype.inh=3; var r=[]; for (var k in new P()) r.push(k); return r;
//---- forin.array.and.string
var r=[]; for (var k in ['a','b']) r.push(typeof k + k); for (var c in 'xy') r.push(c); return r;
//---- forof.break.closes.iterator
var log=[]; var it = { [Symbol.iterator](){ var i=0; return { next(){ return {value: i++, done: i>5}; }, return(){ log.push('closed'); return {}; } }; } }; for (var x of it){ if (x===2) break; } return log;
//---- forof.destructuring
var r=[]; for (var [a,{b}] of [[1,{b:2}],[3,{b:4}]]) r.push(a+b); return r;
//---- iterator.protocol.manual
var it=[1,2][Symbol.iterator](); return [it.next(), it.next(), it.next(), typeof it[Symbol.iterator]];
//---- spread.iterable.custom
var obj = { *[Symbol.iterator](){ yield 'a'; yield 'b'; } }; return [[...obj], Array.from(obj), Math.max(...[1,3,2]), new Set(obj).size];
//---- destructuring.nested.defaults
var {a, b: {c = 'dc', d} = {d: 'dd'}, ...rest} = {a: 1, x: 9, y: 8}; var [p, , q = 'dq', ...tail] = [1, 2, undefined, 4, 5]; return [a, c, d, rest, p, q, tail];
//---- destructuring.swap.and.assign
var a=1, b=2; [a, b] = [b, a]; var o={}; ({x: o.p, y: o['q']} = {x: 'X', y: 'Y'}); return [a, b, o];
//---- destructuring.params
function f({a, b = 2} = {}, [c, d] = [3, 4]){ return [a,b,c,d]; } return [f(), f({a:1}), f({a:1,b:0}, [9])];
//---- destructuring.null.throws
try { var {a} = null; } catch(e){ return e.name; }
//---- destructuring.eval.order
var log=[]; function v(n){ log.push(n); return n; } var {[v('k1')]: x = v('d1'), [v('k2')]: y = v('d2')} = {k1: 1}; return [log, x, y];
//---- spread.call.and.array
function f(a,b,c){ return [a,b,c]; } var arr=[1,2]; return [f(...arr, 3), f(...'xy'), [...arr, ...arr], [...[], 0]];
//---- object.spread.order
var a={x:1,y:2}; var b={y:3,z:4}; return [{...a, ...b}, {...b, ...a}, {...a, y: 9}, {y: 9, ...a}, {...null, ...undefined, ...'hi'}];
//---- template.literal
var n=3, s='str'; function tag(st, ...v){ return st.raw.join('|') + '#' + v.join(',') + '#' + st.length; } return [`a${n}b${s}c`, `${1+1}${''}${null}`, `line1
line2`, tag`x${n}y${s}z`, tag`\n${1}`, `A\x41`];
//---- optional.chaining
var o={a:{b:null, f:function(){ return 'F'; }}}; return [o?.a?.b?.c, o.x?.y.z, o.a.f?.(), o.a.g?.(), o?.['a']?.['f']?.(), (null)?.x, o.a?.b ?? 'dflt'];
//---- short.circuit.evaluation
var log=[]; function t(x){ log.push(x); return x; } t(0) && t(1); t(1) && t(2); t(0) || t(3); t(null) ?? t(4); t(5) ?? t(6); return log;
//---- comma.and.void
var x=(1,2,3); return [x, void 0, typeof void 0];
//---- typeof.undeclared
return [typeof notDeclared, typeof undefined, typeof null, typeof function(){}, typeof class{}, typeof Symbol(), typeof 1n === 'bigint' ? 'big' : 'nobig'];
//---- delete.semantics
var o={a:1,b:2}; var r1=delete o.a; var r2=delete o.zz; var arr=[1,2,3]; delete arr[1]; return [r1, r2, Object.keys(o), arr.length, 1 in arr];
//---- in.operator.forms
var o={a:undefined}; return ['a' in o, 'b' in o, 'toString' in o, 0 in [1], 1 in [1], 'length' in [], 'x' in Object.create({x:1})];
//---- equality.table
return [null == undefined, null == 0, '' == 0, '0' == false, [] == false, [] == ![], NaN == NaN, [1] == 1, ({}) == '[object Object]', 'a' == new String('a'), null === null, +0 === -0, 1 == true, 2 == true];
//---- number.string.addition
return [1 + '2', '3' - 1, '3' * '4', 1 + 2 + '3', '1' + 2 + 3, [] + [], [] + {}, 1 + null, 1 + undefined, '5' - - '2', +'', +' ', +'x', true + true];
//---- increment.on.strings
var s='5'; s++; var t='a'; t++; var u='5'; var r = u++; return [s, typeof s, t, r, typeof r, u];
//---- precedence
return [2 + 3 * 4, (2 + 3) * 4, 2 ** 3 ** 2, -2 ** 2 === undefined ? 0 : 1, 1 < 2 < 3, 3 > 2 > 1, 1 + 1 + '1', !1 + 1, typeof 1 + 1, 10 / 2 * 5, 10 - 2 - 3, 2 * 3 % 4, 1 || 0 && 0, (1 || 0) && 0, 1 | 2 & 3, 1 ^ 3 | 4, 1 << 2 + 1, a = b = 3, a, b];
var a, b;
//---- precedence.ternary.assignment
var a, b; a = true ? 1 : 2; b = false ? 1 : true ? 2 : 3; var c = 1 > 2 ? 'x' : 3 > 2 ? 'y' : 'z'; return [a, b, c];
//---- generator.basic
function* g(){ var x = yield 1; var y = yield x + 1; return x + y; } var it=g(); return [it.next(), it.next(10), it.next(5), it.next()];
//---- generator.return.finally
var log=[]; function* g(){ try { yield 1; yield 2; } finally { log.push('fin'); } } var it=g(); it.next(); var r=it.return('early'); return [r, it.next(), log];
//---- generator.throw.caught
function* g(){ try { yield 1; } catch(e){ yield 'caught ' + e; } return 'done'; } var it=g(); it.next(); return [it.throw('boom'), it.next(), it.next()];
//---- generator.throw.uncaught
function* g(){ yield 1; } var it=g(); it.next(); try { it.throw(new TypeError('t')); } catch(e){ return [e.name, it.next()]; }
//---- generator.delegate
function* inner(){ var x = yield 'i1'; return 'ret:' + x; } function* outer(){ var r = yield* inner(); yield r; yield* [1,2]; } var it=outer(); return [it.next(), it.next('sent'), it.next(), it.next(), it.next()];
//---- generator.spread.forof
function* g(){ yield* 'ab'; yield 3; } var r=[]; for (var x of g()) r.push(x); return [r, [...g()], Array.from(g()), Math.max(...(function*(){ yield 1; yield 5; })())];
//---- generator.lazy.infinite
function* nat(){ var i=0; while(true) yield i++; } var r=[]; for (var n of nat()){ if (n>3) break; r.push(n); } return r;
//---- generator.closure.state
function* fib(){ var a=0,b=1; for(;;){ yield a; [a,b]=[b,a+b]; } } var it=fib(); var r=[]; for (var i=0;i<8;i++) r.push(it.next().value); return r;
//---- generator.method.this
var o = { base: 10, *g(){ yield this.base + 1; yield this.base + 2; } }; return [...o.g()];
//---- generator.return.value.in.forof
function* g(){ yield 1; return 'ignored'; } return [[...g()], (function(){ var it=g(); it.next(); return it.next(); })()];
//---- generator.running.state
function* g(){ yield 1; } var it=g(); return [typeof it.next, it[Symbol.iterator]() === it, Object.prototype.toString.call(it), it.next(), it.next(), it.next()];
//---- symbol.basics
var s1=Symbol('d'), s2=Symbol('d'); var o={[s1]: 1, k: 2}; return [s1 === s2, s1.toString(), s1.description, typeof s1, Object.keys(o), o[s1], Symbol.for('x') === Symbol.for('x'), Symbol.keyFor(Symbol.for('x')), Object.getOwnPropertySymbols(o).length, JSON.stringify(o)];
//---- toprimitive.order
var log=[]; var o = { valueOf(){ log.push('v'); return 1; }, toString(){ log.push('s'); return 'str'; } }; var r=[o + 1, `${o}`, o * 2, o + '', String(o), o == 1, o < 2]; return [r, log];
//---- toprimitive.symbol
var o = { [Symbol.toPrimitive](hint){ return hint === 'number' ? 42 : hint === 'string' ? 'str' : 'dflt'; } }; return [+o, `${o}`, o + '', o * 1, o == 'dflt'];
//---- valueof.returns.object
var o = { valueOf(){ return {}; }, toString(){ return 'fallback'; } }; var p = { valueOf(){ return {}; }, toString(){ return {}; } }; var r; try { r = p + 1; } catch(e){ r = e.name; } return [o + 1, r];
//---- getter.on.prototype.and.define
var proto = { get g(){ return 'pg:' + this.v; } }; var o = Object.create(proto); o.v = 1; Object.defineProperty(o, 'h', { get(){ return 'h'; }, enumerable: true, configurable: true }); return [o.g, o.h, Object.keys(o), JSON.stringify(o), {...o}];
//---- object.freeze.strict
'use strict'; var o = Object.freeze({a: 1, n: {b: 2}}); var r=[]; try { o.a = 2; } catch(e){ r.push(e.name); } try { o.c = 3; } catch(e){ r.push(e.name); } try { delete o.a; } catch(e){ r.push(e.name); } o.n.b = 9; return [r, o];
//---- object.freeze.sloppy
var o = Object.freeze({a: 1}); o.a = 2; o.b = 3; delete o.a; return [o, Object.isFrozen(o)];
//---- array.holes.semantics
var a=[1,,3]; return [a.length, 1 in a, a[1], a.map(function(x){ return x*2; }).length, Object.keys(a), a.indexOf(undefined), a.includes(undefined)];
//---- array.length.truncate.extend
var a=[1,2,3,4]; a.length=2; var b=[1]; b[3]='x'; return [a, b.length, b];
//---- array.sort.stability.and.default
var a=[{k:1,v:'a'},{k:0,v:'b'},{k:1,v:'c'},{k:0,v:'d'}]; a.sort(function(x,y){ return x.k-y.k; }); return [a.map(function(x){ return x.v; }), [10,9,1,100,'b','a',undefined,null].sort(), [3,1,2].sort(function(a,b){ return b-a; })];
//---- array.mutation.during.iteration
var a=[1,2,3]; var r=[]; a.forEach(function(x,i){ r.push(x); if (i===0){ a.push(4); a[1]='two'; } }); return [r, a];
//---- array.reduce.empty
try { [].reduce(function(a,b){ return a+b; }); } catch(e){ return [e.name, [].reduce(function(a,b){ return a+b; }, 'init'), [5].reduce(function(a,b){ return a+b; })]; }
//---- array.callbacks.thisarg.and.args
var r=[]; [7].map(function(x,i,arr){ r.push(x, i, arr.length, this.t); }, {t:'T'}); return r;
//---- array.like.generic
var al = {length: 2, 0: 'a', 1: 'b'}; return [Array.prototype.map.call(al, function(x){ return x+x; }), Array.prototype.join.call(al, '-'), Array.from(al), Array.prototype.slice.call('xyz', 1)];
//---- string.immutability.and.index
'use strict'; var s='abc'; try { s[0]='x'; } catch(e){ return [e.name, s, s.length, s[5]]; } return ['no throw', s];
//---- string.comparison.unicode
return ['a' < 'b', 'a' < 'B', 'Z' < 'a', 'abc' < 'abd', 'ab' < 'abc', '10' < '9', 10 < 9, '10' < 9, 'é' > 'z', ['b','a','C'].sort()];
//---- json.roundtrip.misc
var v = {s: 'x', n: 1.5, b: true, z: null, a: [1, {k: 'v'}], nested: {deep: {deeper: []}}}; var t = JSON.stringify(v); return [t, JSON.parse(t), JSON.stringify(JSON.parse(t)) === t, JSON.stringify(' "\\'), JSON.stringify({a: undefined, b: function(){}, c: Symbol()}), JSON.stringify([undefined, function(){}])];
//---- json.tojson.and.order
var o = {b: 1, a: {toJSON(){ return 'TJ'; }}, 1: 'one', d: new Date(0)}; return JSON.stringify(o);
//---- map.set.object.keys
var k1={}, k2={}; var m=new Map([[k1,'a'],[k2,'b']]); var s=new Set([k1,k1,k2]); return [m.get(k1), m.get({}), s.size, m.size, [...m.values()]];
//---- map.insertion.order.after.delete
var m=new Map([['a',1],['b',2],['c',3]]); m.delete('a'); m.set('a',4); m.set('b',5); return [...m];
//---- weakmap.basic
var wm=new WeakMap(); var k={}; wm.set(k, 1); return [wm.get(k), wm.has(k), wm.has({}), wm.delete(k), wm.has(k)];
//---- date.fixed.utc
var d=new Date(Date.UTC(2020, 1, 29, 12, 0, 0)); return [d.toISOString(), d.getTime(), d.getUTCDay(), JSON.stringify({d: d}), new Date('2020-02-29T12:00:00.000Z').getTime() === d.getTime()];
//---- regexp.named.groups.and.sticky
var m = /(?<y>\d{4})-(?<m>\d{2})/.exec('on 2020-02-29'); var re=/a/y; re.lastIndex=1; return [m.groups.y, m.groups.m, m.index, m[0], re.test('ba'), re.lastIndex, 'x-y_z'.split(/[-_]/), 'aBc'.replace(/b/i, function(x){ return '[' + x + ']'; })];
//---- getter.in.class.static.inherit
class A { static get v(){ return 'A:' + this.name; } } class B extends A {} return [A.v, B.v];
//---- recursion.mutual
function even(n){ return n===0 ? true : odd(n-1); } function odd(n){ return n===0 ? false : even(n-1); } return [even(10), odd(7), even(7)];
//---- recursion.deep.200
function d(n){ return n===0 ? 0 : 1 + d(n-1); } return d(200);
//---- iife.and.strict.this
return [(function(){ return typeof this; })(), (function(){ 'use strict'; return typeof this; })(), (() => typeof this)()];
//---- label.continue.dowhile
var i=0, r=[]; l: do { i++; if (i===2) continue l; r.push(i); } while (i<4); return r;
//---- async.function.returns.promise
async function f(){ return 1; } var p=f(); return [p instanceof Promise, typeof p.then, Object.prototype.toString.call(p)];
//---- promise.then.sync.shape
var p=Promise.resolve(5); var q=p.then(function(x){ return x+1; }); return [q instanceof Promise, q !== p];
//---- reflect.basics
var o={a:1}; return [Reflect.has(o,'a'), Reflect.ownKeys({b:1,[Symbol('s')]:2}).length, Reflect.get(o,'a'), Reflect.set(o,'b',2), o.b, Reflect.getPrototypeOf(o) === Object.prototype, Reflect.apply(Math.max, null, [1,3]), Reflect.construct(Date, [0]).getTime(), Reflect.deleteProperty(o,'a'), Object.keys(o)];
//---- proxy.get.set.has
var log=[]; var p=new Proxy({x:1}, { get(t,k,r){ log.push('get:'+String(k)); return k in t ? t[k] : 'dflt'; }, set(t,k,v){ log.push('set:'+k); t[k]=v*2; return true; }, has(t,k){ log.push('has:'+k); return k==='magic' || k in t; }, deleteProperty(t,k){ log.push('del:'+k); return delete t[k]; }, ownKeys(t){ log.push('keys'); return Reflect.ownKeys(t); } }); p.y=2; var r=[p.x, p.nope, p.y, 'magic' in p, 'q' in p, delete p.x, Object.keys(p)]; return [r, log];
//---- proxy.apply.construct
var f=new Proxy(function(a){ return a; }, { apply(t,th,args){ return 'applied:' + args[0]; }, construct(t,args){ return {made: args[0]}; } }); return [f(1), new f(2), typeof f];
//---- getter.arguments.evaluation.order
var log=[]; function v(n){ log.push(n); return n; } var o={ f(a,b){ return a+b; } }; var r=(v('obj'), o)[v('key') && 'f'](v(1), v(2)); return [r, log];
//---- assignment.evaluation.order
var log=[]; var o={}; function k(n){ log.push('k'+n); return 'p'+n; } function v(n){ log.push('v'+n); return n; } o[k(1)] = v(1); o[k(2)] += v(2); return [log, o];
//---- compound.assignment.members
var o={n:1, s:'a', a:[1]}; o.n+=2; o.n*=3; o.s+='b'; o.a[0]<<=2; o['n']-=1; o.u??='set'; o.n||=100; o.z&&=5; return o;
//---- exponent.and.unary
return [(-2) ** 2, 2 ** -1, (-8) ** (1/3) !== (-8) ** (1/3), 0 ** 0, NaN ** 0, 1 ** Infinity, 2 ** 10, 2 ** 0.5 === Math.SQRT2];
//---- integer.division.modulo.signs
return [7 % 3, -7 % 3, 7 % -3, -7 % -3, 5.5 % 2, 0 % 5, 5 % 0, -0 % 5, 1/(-0 % 5), Infinity % 2, 2 % Infinity, (-1) % 1, 1/((-1) % 1)];
//---- bitwise.shifts.big
return [1 << 31, 1 << 32, 1 << 33, -1 >>> 0, -1 >>> 31, -1 >> 31, 2 ** 32 | 0, (2 ** 32 + 5) | 0, 2 ** 31 | 0, ~~3.7, ~~-3.7, 3000000000 >> 0, 3000000000 >>> 0, 5 & -1, 6 ^ 3, ~0];
//---- number.literals
return [0x1F, 0b101, 0o17, 1e3, 1E-3, .5, 5., 1_000_000, 0.1 + 0.2, 9007199254740993, 1.7976931348623157e308, 5e-324, 2e308, 0xffffffff, 1e21, 123456789012345680000];
//---- string.escapes
return ['\x41B\u{43}', 'a\
b', '\0'.length, 'tab\there', "q\"q", 'q\'q', '\\'.length, 'é'.length, '\u{1F600}'.codePointAt(0)];
//---- global.functions
return [parseInt('12px'), parseFloat('1.5e2x'), isNaN('abc'), isFinite('12'), encodeURIComponent('a b&c/é'), decodeURIComponent('%41%20b'), encodeURI('a b?x=1'), Number('12') === 12, String(12) === '12'];
//---- closures.in.class.methods
class Counter { constructor(){ this.n=0; this.inc = () => ++this.n; } } var c=new Counter(); var f=c.inc; f(); f(); return c.n;
//---- getter.setter.defineProperty.on.array
var a=[1,2,3]; Object.defineProperty(a, 'sum', { get(){ return this.reduce(function(x,y){ return x+y; }, 0); } }); return [a.sum, a.length, Object.keys(a)];
//---- nested.functions.this.and.self
var o = { name: 'o', outer(){ var self=this; function inner(){ return [typeof this === 'undefined' || this === globalThis || this === undefined, self.name]; } return inner(); } }; return o.outer();
//---- exception.in.callback.propagates
try { [1,2,3].forEach(function(x){ if (x===2) throw new RangeError('at2'); }); } catch(e){ return e.message; }
//---- exception.in.getter.and.tostring
var o={ get bad(){ throw new TypeError('g'); }, toString(){ throw new RangeError('ts'); } }; var r=[]; try { o.bad; } catch(e){ r.push(e.name); } try { '' + o; } catch(e){ r.push(e.name); } try { JSON.stringify({o: {toJSON(){ throw new SyntaxError('tj'); }}}); } catch(e){ r.push(e.name); } return r;
//---- finally.runs.once.after.caught
var n=0; function f(){ try { throw 1; } catch(e){ } finally { n++; } return 'ret'; } f(); return n;
//---- finally.with.return.in.catch.loop
var log=[]; function f(){ for (var i=0;i<2;i++){ try { throw i; } catch(e){ log.push('c'+e); if (e===1) return 'r'; } finally { log.push('f'+i); } } } return [f(), log];
//---- var.redeclare.and.function.override
var x=1; var x; function x2(){ return 'first'; } function x2(){ return 'second'; } var y=x2(); return [x, y];
//---- block.function.let.const.conflicts
var r=[]; { const c=1; let l=2; r.push(c+l); { const c=10; r.push(c+l); } } return r;
//---- stack.like.usage
var st=[]; st.push(1); st.push(2,3); var p=st.pop(); st.unshift(0); var sh=st.shift(); return [st, p, sh, st.length];
//---- matrix.loops
var m=[]; for (var i=0;i<3;i++){ m[i]=[]; for (var j=0;j<3;j++) m[i][j]=i*j; } return [m, m.map(function(r){ return r.reduce(function(a,b){ return a+b; }, 0); })];
//---- string.builder.loop
var s=''; for (var i=0;i<5;i++){ s += i % 2 ? 'o' : 'e'; } var parts=[]; for (var c of s) parts.unshift(c); return [s, parts.join('')];
//---- object.as.map.counting
var words='a b a c b a'.split(' '); var cnt={}; for (var w of words) cnt[w]=(cnt[w]||0)+1; return [cnt, Object.entries(cnt).sort(function(x,y){ return y[1]-x[1]; })];
