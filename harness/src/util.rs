//! Small shared utilities: deterministic RNG, hashing, JSON helpers.
#![allow(dead_code)]

use serde_json::{Value, json};
use std::collections::BTreeMap;

/// splitmix64 — deterministic, seedable, good enough for workload generation.
#[derive(Clone, Debug)]
pub struct Rng(pub u64);

impl Rng {
    pub fn new(seed: u64) -> Self {
        Rng(seed ^ 0x9E37_79B9_7F4A_7C15)
    }
    /// Derive an independent stream from (family, shard, index).
    pub fn derive(family: &str, shard: u64, index: u64) -> Self {
        let mut h = fnv64(family.as_bytes());
        h ^= shard.wrapping_mul(0xA24B_AED4_963E_E407);
        h = h.rotate_left(23) ^ index.wrapping_mul(0x9FB2_1C65_1E98_DF25);
        let mut r = Rng(h);
        r.next();
        r.next();
        r
    }
    pub fn next(&mut self) -> u64 {
        self.0 = self.0.wrapping_add(0x9E37_79B9_7F4A_7C15);
        let mut z = self.0;
        z = (z ^ (z >> 30)).wrapping_mul(0xBF58_476D_1CE4_E5B9);
        z = (z ^ (z >> 27)).wrapping_mul(0x94D0_49BB_1331_11EB);
        z ^ (z >> 31)
    }
    pub fn below(&mut self, n: usize) -> usize {
        if n == 0 { 0 } else { (self.next() % n as u64) as usize }
    }
    pub fn range(&mut self, lo: i64, hi: i64) -> i64 {
        lo + (self.next() % ((hi - lo + 1) as u64)) as i64
    }
    pub fn chance(&mut self, num: u64, den: u64) -> bool {
        self.next() % den < num
    }
    pub fn pick<'a, T>(&mut self, xs: &'a [T]) -> &'a T {
        &xs[self.below(xs.len())]
    }
    pub fn shuffle<T>(&mut self, xs: &mut [T]) {
        for i in (1..xs.len()).rev() {
            let j = self.below(i + 1);
            xs.swap(i, j);
        }
    }
    pub fn f64(&mut self) -> f64 {
        (self.next() >> 11) as f64 / (1u64 << 53) as f64
    }
}

pub fn fnv64(bytes: &[u8]) -> u64 {
    let mut h: u64 = 0xcbf2_9ce4_8422_2325;
    for b in bytes {
        h ^= *b as u64;
        h = h.wrapping_mul(0x0000_0100_0000_01B3);
    }
    h
}

pub fn hash_hex(s: &str) -> String {
    format!("{:016x}", fnv64(s.as_bytes()))
}

/// Result of one work unit, aggregated by the orchestrator.
#[derive(Default, Debug)]
pub struct UnitResult {
    pub evaluations: u64,
    /// distinct non-trivial cases (units partition the case space, so sums are valid)
    pub nontrivial: u64,
    pub inconclusive: u64,
    pub violations: Vec<Violation>,
    pub samples: Vec<Value>,
    /// additive counters; keys starting with "max_" are merged with max
    pub stats: BTreeMap<String, i64>,
    /// free-form notes on inconclusive cases (capped)
    pub notes: Vec<String>,
}

#[derive(Debug, Clone)]
pub struct Violation {
    /// exact signature matched against the known-findings ledger
    pub sig: String,
    pub what: String,
    /// everything needed to replay (fed back to `replay`)
    pub case: Value,
}

impl UnitResult {
    pub fn stat(&mut self, k: &str, v: i64) {
        if k.starts_with("max_") {
            let e = self.stats.entry(k.to_string()).or_insert(i64::MIN);
            if v > *e {
                *e = v;
            }
        } else if k.starts_with("min_") {
            let e = self.stats.entry(k.to_string()).or_insert(i64::MAX);
            if v < *e {
                *e = v;
            }
        } else {
            *self.stats.entry(k.to_string()).or_insert(0) += v;
        }
    }
    pub fn sample(&mut self, v: Value) {
        if self.samples.len() < 3 {
            self.samples.push(v);
        }
    }
    pub fn note(&mut self, s: String) {
        if self.notes.len() < 5 {
            self.notes.push(s);
        }
    }
    pub fn violate(&mut self, sig: impl Into<String>, what: impl Into<String>, case: Value) {
        let sig = sig.into();
        // cap per signature family (first two '|'-separated parts) so that a flood of one
        // defect cannot crowd out a different one; drops are counted, never silent
        let fam: String = sig.split('|').take(2).collect::<Vec<_>>().join("|");
        let n = self.violations.iter().filter(|v| v.sig.split('|').take(2).collect::<Vec<_>>().join("|") == fam).count();
        if n < 400 && self.violations.len() < 20000 {
            self.violations.push(Violation {
                sig,
                what: what.into(),
                case,
            });
        } else {
            self.stat("violations_dropped_over_cap", 1);
        }
    }
    pub fn merge(&mut self, o: UnitResult) {
        self.evaluations += o.evaluations;
        self.nontrivial += o.nontrivial;
        self.inconclusive += o.inconclusive;
        for v in o.violations {
            self.violate(v.sig, v.what, v.case);
        }
        for s in o.samples {
            self.sample(s);
        }
        for (k, v) in o.stats {
            self.stat(&k, v);
        }
        for n in o.notes {
            self.note(n);
        }
    }
    pub fn to_json(&self, unit: usize) -> Value {
        json!({
            "unit": unit,
            "evaluations": self.evaluations,
            "nontrivial": self.nontrivial,
            "inconclusive": self.inconclusive,
            "violations": self.violations.iter().map(|v| json!({"sig": v.sig, "what": v.what, "case": v.case})).collect::<Vec<_>>(),
            "samples": self.samples,
            "stats": self.stats,
            "notes": self.notes,
        })
    }
}

#[derive(Clone, Copy, Debug, PartialEq, Eq)]
pub enum Tier {
    Quick,
    Thorough,
}

#[derive(Clone, Debug)]
pub struct Ctx {
    pub tier: Tier,
    pub seed: u64,
    /// engine the binary was built for: "native", "asan", "miri"
    pub engine: String,
}

impl Ctx {
    pub fn thorough(&self) -> bool {
        self.tier == Tier::Thorough
    }
}

pub trait Check {
    fn units(&self, ctx: &Ctx) -> usize;
    fn run_unit(&self, ctx: &Ctx, idx: usize) -> UnitResult;
    fn replay(&self, ctx: &Ctx, case: &Value) -> UnitResult;
    /// print programs for the reference engine as JSONL (checks with goldens only)
    fn dump(&self, _ctx: &Ctx, _singles: bool) {}
}

pub fn truncate(s: &str, n: usize) -> String {
    if s.chars().count() <= n {
        s.to_string()
    } else {
        let t: String = s.chars().take(n).collect();
        format!("{}…", t)
    }
}
