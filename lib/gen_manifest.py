#!/usr/bin/env python3
"""Regenerate /verif/MANIFEST.json from lib/checks_config.py (single source of truth)."""
import json, os, sys
VERIF = os.path.dirname(os.path.dirname(os.path.abspath(__file__)))
sys.path.insert(0, os.path.join(VERIF, "lib"))
from checks_config import CHECKS, NOT_CLAIMED, HOOK_COMMITS

props = [json.loads(l)["id"] for l in open(os.path.join(VERIF, "properties.jsonl"))]
checks = []
for pid in props:
    if pid not in CHECKS:
        continue
    c = CHECKS[pid]
    checks.append({
        "property_id": pid,
        "quick_cmd": "./check %s --tier quick" % pid,
        "thorough_cmd": "./check %s --tier thorough" % pid,
        "evidence_file": "/verif/evidence/%s.json" % pid,
        "replay_cmd_template": "./check %s --replay {path}" % pid,
        "engine": "tsverif",
        "level_claimed": {"category": c.get("level", "exploration"), "text": c["level_text"],
                          "design_ref": "DESIGN.md §3 " + pid},
        "level_note": c["level_note"],
        "technique": c["technique"],
    })
na = []
for pid in props:
    if pid not in CHECKS:
        na.append({"property_id": pid, "reason": NOT_CLAIMED.get(pid, "check not built yet (work in progress; the runtime-monitoring family does apply, see DESIGN.md)")})
manifest = {
    "version": 1,
    "setup_cmd": "./check setup",
    "hooks": {
        "guard": "cargo feature tsrun_verif",
        "enable": "the harness crate /verif/harness depends on /repo with features tsrun_verif (+ c-api); every check runs `cargo build --offline` first, so it always rebuilds from /repo's current working tree",
        "baseline_off_cmd": "cd /repo && cargo test --workspace --no-fail-fast --offline",
        "source_commits": HOOK_COMMITS,
        "add_only": True,
    },
    "engines": [{
        "name": "tsverif", "path": "/verif/harness", "serves_properties": [c["property_id"] for c in checks],
        "kind_free_text": "Rust harness: workload generators, monitors and reference models, one sub-command per property (native, ASan and Miri builds); orchestrated by /verif/check (process control, watchdogs, ledger matching, evidence)",
    }],
    "checks": checks,
    "not_applicable": na,
    "notes": "All metadata is generated from lib/checks_config.py by lib/gen_manifest.py. Known findings: known_findings.txt.",
}
json.dump(manifest, open(os.path.join(VERIF, "MANIFEST.json"), "w"), indent=1)
print("MANIFEST.json: %d checks, %d not claimed" % (len(checks), len(na)))
