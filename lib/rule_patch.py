#!/usr/bin/env python3
"""Developer tool: edit the `rule` text of checks in lib/checks_config.py (the literal is split
over several source lines). usage: rule_patch.py <patches.json>  with {"C04": [[old, new], ...]}"""
import re, sys, json, textwrap, os, importlib
here = os.path.dirname(os.path.abspath(__file__))
sys.path.insert(0, here)
import checks_config as c
p = os.path.join(here, "checks_config.py")
src = open(p).read()
patches = json.load(open(sys.argv[1]))
for k, ps in patches.items():
    new = c.CHECKS[k]["rule"]
    for a, b in ps:
        if new.count(a) != 1:
            sys.exit("no unique match in %s: %s" % (k, a[:60]))
        new = new.replace(a, b)
    i = src.index('"%s": {' % k); j = src.index('"rule": ', i)
    end = re.compile(r'",\n').search(src, j).end()
    lines = textwrap.wrap(new, 110, drop_whitespace=False)
    lit = '"rule": ' + ("\n                ".join('"%s"' % l.replace("\\", "\\\\").replace('"', '\\"') for l in lines)) + ",\n"
    src = src[:j] + lit + src[end:]
open(p, "w").write(src)
