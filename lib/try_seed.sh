#!/bin/bash
# Developer tool: apply a seeded break to /repo, run the given checks, undo it.
# usage: lib/try_seed.sh <seeded/dir> [--tier T] <ID>...
set -u
dir=$1; shift
tier=quick
if [ "${1:-}" = "--tier" ]; then tier=$2; shift 2; fi
cd /repo || exit 2
if ! git diff --quiet; then echo "/repo has uncommitted changes"; exit 2; fi
if ! git apply --3way "/verif/$dir/patch.diff" 2>/tmp/apply.err && ! git apply "/verif/$dir/patch.diff" 2>>/tmp/apply.err; then
  echo "patch does not apply:"; cat /tmp/apply.err; git checkout -- . ; exit 2
fi
git status --short | head -5
cd /verif
for id in "$@"; do
  echo "=== $id ($tier) against $dir"
  ./check "$id" --tier "$tier" 2>&1 | grep -E "VIOLATION|^\[|HARNESS|INCONCLUSIVE|^   " | head -12
done
cd /repo && git reset -q --hard HEAD && git status --short | head -3
