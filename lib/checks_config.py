"""Per-check configuration for the orchestrator (engines, rules, floors, assumptions)."""

NATIVE = {"quick": ["native"], "thorough": ["native"]}

HOOK_COMMITS = ["611dceb", "dfbb501", "8c2e05d", "bdc40f2"]

# properties not claimed (yet), with the reason shown in MANIFEST.not_applicable
NOT_CLAIMED = {}

CHECKS = {
    "C18": {
        "engines": NATIVE,
        "level": "exploration",
        "rule": "pairs (specifier, importer) enumerated exhaustively over the segment alphabet "
                "{'', '.', '..', 'a', 'b', '..a', 'a.ts'} x prefixes {./, ../, /, none} x trailing slash, "
                "plus seeded random paths of up to 12 segments; a pair is non-trivial when normalisation "
                "has something to do ('.', '..' or empty segment in the specifier, or importer directly "
                "under '/'); every pair in the enumeration is distinct by construction",
        "exhaustive": "quick: specifiers <=5 segments x importers <=3 segments; thorough: <=5 x <=4",
        "floor": {"quick": 1000000, "thorough": 10000000},
        "technique": "runtime monitoring: reference-model oracle over an exhaustively executed input space",
        "level_text": "ModulePath::resolve is executed on every (specifier, importer) pair of the exhaustively enumerated "
                      "alphabet space (quick: <=5 x <=3 segments, 1.4e8 pairs; thorough: <=5 x <=4, 1e9 pairs) plus seeded random "
                      "longer paths; every result is compared with an independent reference resolver and the algebraic laws "
                      "(absolute, canonical, idempotent). Exhaustive over the bounded space, sampled beyond it.",
        "level_note": "trusts the 25-line reference resolver; '.'/'..' as whole specifiers and '..' above a non-absolute "
                      "importer are left open by the statement and not judged",
        "assumptions": [
            "reference resolver (25 lines, harness/src/checks/c18.rs) is the specification of 'join, then drop . .. and empty segments'",
            "the specifiers '.' and '..' themselves and '..' climbing above a non-absolute importer are left open by the statement and are not judged",
        ],
    },
}
