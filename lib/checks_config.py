"""Per-check configuration for the orchestrator (engines, rules, floors, assumptions)."""

NATIVE = {"quick": ["native"], "thorough": ["native"]}

HOOK_COMMITS = ["611dceb", "dfbb501", "8c2e05d", "bdc40f2"]

# properties not claimed (yet), with the reason shown in MANIFEST.not_applicable
NOT_CLAIMED = {}

CHECKS = {
    "C19": {
        "engines": NATIVE,
        "level": "exploration",
        "rule": "programs: statement snippets, composed corpus programs (as scripts and as modules), failing programs, 8 module"
                " graphs (chains, diamond with re-exports / export * / export * as, default + namespace imports, live bindings,"
                " missing / throwing / syntactically broken dependencies), 11 order programs and composed programs with dozens "
                "of orders (C07's generated family, as scripts and as modules) with a scripted host (incl. import-then-re-"
                "export of a native binding); each driven through prepare+step, eval, step with interleaved read-only host "
                "calls, C API tsrun_step loop and C API tsrun_run, comparing the full conversation trace (import requests, "
                "order ids and payloads, result, export table, exported-function calls, console), followed on the same "
                "interpreter by an observer script (typeof of every name the program imported) and by a second run of the "
                "program, whose traces are compared too. 8 module texts are compared across the roles main / provided "
                "dependency / internal source module. Every comparison is a distinct (program, entry point) or (module, role) "
                "pair",
        "floor": {"quick": 800, "thorough": 2000},
        "technique": "runtime monitoring: pairwise trace-equality oracle across entry points and module roles with one scripted host, "
                     "including the C API called through extern \"C\"",
        "level_text": "All entry points must produce the same trace as the prepare+step loop for the same program and host script; a "
                      "module must expose the same export names, values and live-binding behaviour in each role.",
        "level_note": "all engines run at the default GC threshold (the C API cannot change it); programs that exceed the step budget "
                      "under prepare+step are not handed to tsrun_run (it has no budget) and count as inconclusive",
        "assumptions": ["the scripted host (harness/src/engine.rs) behaves identically over the Rust and the C API"],
    },
    "C04": {
        "engines": NATIVE,
        "golden": "C04.tsv",
        "level": "exploration",
        "rule": "declarations printed twice from one abstract description, as TypeScript and as the JavaScript the TypeScript "
                "compiler emits: ALL valid enum shapes of up to 4 members over the member-kind alphabet {auto, numeric, "
                "negative, fractional, duplicate value, constant expression over the previous member, computed, string, quoted "
                "name}, a constant-expression matrix (11 binary operators x 16 x 16 operand values around the int32 / uint32 / "
                "2^53 boundaries, as literals and as references to earlier members, followed by an auto member, ~ and unary "
                "minus; member values only), 84 merged enums (2 and 3 declaration blocks, at top level and in a function), "
                "const enums (inlined uses), 22 namespace shapes (exported / local consts, lets, functions, classes, enums, "
                "nested, local and merged namespaces, references rewritten to N.x) and seeded random namespace trees, merging "
                "of namespaces with functions, classes and enums, dotted and `module` namespaces, enums and namespaces inside "
                "functions, classes with parameter properties (every modifier alone, all ordered pairs, longer lists with "
                "defaults referring to earlier parameters and to this, derived classes) and abstract classes; each followed by "
                "one observer (keys in order and sorted, every member forwards and backwards, in, JSON.stringify, values, "
                "calls, typeof of hidden names). Every (declaration, context) pair is distinct; all are non-trivial",
        "exhaustive": "enum shapes up to the stated length; modifier pairs of parameter properties",
        "floor": {"quick": 4000, "thorough": 7000},
        "technique": "runtime monitoring: translation-pair oracle (TypeScript form vs its specified JavaScript emit on tsrun, and vs the "
                     "emit on the reference engine through committed goldens), member-wise observers",
        "level_text": "The TypeScript form must produce exactly the observations of its JavaScript emit, on tsrun itself and on the "
                      "reference engine; deviating declarations are ledgered by exact case and observed output.",
        "level_note": "no TypeScript compiler is available offline: the emit is produced by the generator following the compiler's "
                      "documented output (enum IIFE with reverse mappings, namespace IIFE with N.x rewriting, constructor prologue "
                      "this.x = x after super(), erased abstract members); key order is compared both as is and sorted so that an "
                      "ordering difference is told apart from a missing member",
        "assumptions": ["emit_* in harness/src/checks/c04.rs follow tsc (ES2015+ target, no useDefineForClassFields interplay: classes "
                        "do not mix parameter properties with field initialisers)", "node v20 evaluates the emitted JavaScript correctly"],
    },
    "C05": {
        "engines": NATIVE,
        "level": "exploration",
        "rule": "source texts: 82 nesting/length families (brackets of every kind, unary/binary/conditional/arrow/template "
                "chains, type-annotation nesting, call/member chains, declarations, patterns, long tokens, wide literals / "
                "parameter lists / class bodies) and 135 speculation families (15 openers after which the parser must guess - "
                "parenthesis that may start arrow parameters, typed / async / generic variants, array and object patterns, "
                "template holes - x 9 ways the construct can end) at doubling depths 2..16384 (thorough: ..131072); every "
                "prefix, single-token deletion, duplication, swap and vocabulary replacement of the statement snippets, the "
                "TypeScript pair sources and composed corpus programs; token soups over a 130-token vocabulary; random UTF-8 "
                "with hostile escapes; escape forms x literal contexts. Each text is lexed, parsed and compiled in a forked "
                "child with an 8 MiB stack; every text is distinct by construction modulo vocabulary collisions",
        "floor": {"quick": 40000, "thorough": 400000},
        "unit_timeout": {"default": 1500},
        "technique": "runtime monitoring: process-exit oracle (panic / signal) in forked children plus H2 front-end work counters "
                     "(tokens lexed incl. re-lexing, parser advances) judged for growth across doubling depths",
        "level_text": "Every generated text must come back as Ok or Err from the front end: a panic, a stack overflow or an abort is a "
                      "violation. For each nesting family the counted work at depth 2d over depth d must not exceed 9 at two consecutive "
                      "doublings (cubic growth allowed, exponential not), and no short input may cost more than 200*n^2 work units. "
                      "Wall-clock never decides.",
        "level_note": "'bounded time' is decided on the H2 counters, so work not visible to them (e.g. inside the compiler after "
                      "parsing) is only seen through the ops-emitted counter; depth of nesting explored is capped",
        "assumptions": ["8 MiB is the stack a host gives the front end (the default main-thread stack)"],
    },
    "C01": {
        "engines": NATIVE,
        "golden": "C01A.tsv",
        "level": "exploration",
        "rule": "Stratum A: every atom (operator, conversion, update/compound assignment, built-in method of "
                "String/Array/Object/Number/Math/Map/Set/JSON/RegExp/Date) x every combination of its operand palettes (cross-type "
                "hostile values: NaN, -0, 2^31/2^32/2^53 boundaries, negative/fractional/out-of-range indices, explicit undefined, "
                "empty and non-ASCII strings, objects with valueOf/toString hooks, wrappers), capped per atom by a seed-independent "
                "sample, plus hand-written statement-level programs (completions, scoping, hoisting, classes, generators, "
                "destructuring, exceptions); each cell is one program evaluated by tsrun and compared with the reference engine's "
                "outcome for the same text. Stratum B: seeded composed programs (see C01B). Every cell is distinct by construction; "
                "a cell is non-trivial when the reference engine produced an outcome to compare with",
        "exhaustive": "the atom x palette matrix (all binary operators over the full 48-value palette: 2304 cells each) is the same at every seed",
        "floor": {"quick": 50000, "thorough": 50000},
        "unit_timeout": {"default": 900},
        "technique": "runtime monitoring: differential execution against reference-engine goldens over an enumerated atom matrix and "
                     "seeded composed programs, crash-isolated workers",
        "level_text": "About 85k tiny programs covering the operator x operand-type cross product and the built-in library's argument "
                      "edge cases, plus statement-level and composed programs, are executed on tsrun and compared (completion value via "
                      "an in-program canonical printer, error class) with what node produced for the identical text. Deviating cells of "
                      "the pinned tree are ledgered by exact cell id and observed output, so any change in any cell is reported.",
        "level_note": "node v20 is the reference engine (goldens committed under ref/golden, regenerated with --regold); ** / Math.pow / "
                      "hypot and the transcendental Math functions are compared with a tolerance because ECMAScript leaves them "
                      "implementation-approximated; async ordering, Date local time, locale functions are outside the compared core",
        "assumptions": ["node v20 implements ECMAScript correctly on the compared core",
                        "the in-program printer (harness/src/prelude.js) uses only features that behave identically on both engines for the printed values"],
    },
    "C02": {
        "engines": NATIVE,
        "level": "exploration",
        "rule": "programs = single atom cells (every built-in that allocates while holding inputs: callbacks, getters, proxies,"
                " iterators, JSON, Map/Set, regexp, string/array methods with freshly allocated otherwise-unreferenced "
                "arguments; the pure operator matrix is thinned) + statement-level snippets + composed programs of the shared "
                "corpus; each program is run with the collector off and under thresholds 1,2,3,5,7,100 and a forced collect() "
                "before every step, and for a subset under a single forced collect() at every individual step; plus transit "
                "programs (values referenced only from inside a built-in - its private copy, an iterator being drained, a "
                "promise's handler list - while callbacks / next() / getters / coercion hooks allocate and detach them: 7 "
                "iterable sources x 26 consumers, 29 array methods x 5 detach modes x 3 invocation indices, 37 walks incl. "
                "scratch-buffer reuse, elements written as literals) and the await / concurrency / promise-transit programs of "
                "C07 driven by the scripted order host (immediate and deferred answers) under thresholds 1,2,3,5,7 with and "
                "without collect() after every host action, compared with the same conversation with the collector off. A "
                "(program, schedule) pair is non-trivial when the H1 counters show that a collection swept at least one object "
                "during the run; pairs are distinct by construction",
        "exhaustive": "every inter-step collection point of the subset of short programs (see observed.programs_with_every_collection_point)",
        "floor": {"quick": 20000, "thorough": 100000},
        "unit_timeout": {"default": 900},
        "technique": "runtime monitoring: metamorphic oracle over GC schedules (collector off vs thresholds / host-forced collections) "
                     "plus the H1 slot-generation hook that reports every use of a reclaimed object",
        "level_text": "The same program must produce the same outcome tuple under every collection schedule, and the generation "
                      "stamps must show no borrow/guard/trace through a handle whose slot was reclaimed. Findings are attributed to "
                      "a single cell or program.",
        "level_note": "only objects the program subsequently touches or the hook sees dereferenced are checked; programs that die "
                      "even with the collector off are not judged here",
        "assumptions": ["H1 stamps are maintained by the feature-guarded hook only and do not change behaviour (2454 tests pass with the feature on)"],
    },
    "C03": {
        "engines": NATIVE,
        "level": "exploration",
        "rule": "(1) syntax matrix: 80 TypeScript type forms x 10 annotation positions, 75 further static constructs (generics, member "
                "modifiers, declarations incl. declare/overloads/abstract, assertions, call type arguments, this-parameters), and an "
                "enumerated universe of ~2300 types (31 leaves, 26 constructors applied once, and a seed-independent sample of "
                "double applications), each in a minimal program that must evaluate like its erased form; (2) 66 hand-written JS/TS "
                "pairs for ambiguous positions, also embedded in a function body, plus module-mode pairs for type-only imports/exports; "
                "(3) composed programs whose text carries typed slots: every single slot filled alone with palette forms, and random "
                "multi-slot decorations with types drawn from the certified part of the universe. Every (program, decoration) pair is "
                "distinct; a pair is non-trivial when the plain program terminates within the step budget",
        "exhaustive": "the syntax matrix and the single-slot pass are enumerated at every seed",
        "floor": {"quick": 5000, "thorough": 30000},
        "technique": "runtime monitoring: metamorphic oracle P vs D(P) (outcome tuple equality in fresh interpreters) over an enumerated "
                     "type-syntax matrix and slot-decorated generated programs",
        "level_text": "Adding static syntax must leave acceptance and the outcome tuple unchanged. Type forms tsrun's parser rejects are "
                      "ledgered by their smallest rejected sub-form; random decorations use only certified forms so that any new "
                      "rejection or behavioural difference is reported.",
        "level_note": "no TypeScript compiler is available offline: the validity of the generated type syntax rests on the grammar in "
                      "harness/src/checks/c03.rs following the TypeScript handbook; instruction-count differences between P and D(P) "
                      "are reported as a statistic only (not observable behaviour)",
        "assumptions": ["all FORMS/SYNTAX/PAIRS entries are valid TypeScript 5.x"],
    },
    "C06": {
        "engines": NATIVE,
        "level": "exploration",
        "rule": "programs: 78 call paths (plain / function-expression / arrow / closure calls, object, class, static and super "
                "methods, constructors incl. derived and Reflect.construct, field initialisers, bound functions, "
                "call/apply/Reflect.apply, getters and setters of every flavour, valueOf/toString/Symbol.toPrimitive coercions,"
                " proxy traps, every callback-taking array / string / JSON / Map / Set / Promise built-in, tagged templates, "
                "custom iterators through for-of / spread / destructuring, generators incl. yield*, default parameters, "
                "computed keys, Symbol.hasInstance, async functions) x {control, a 200000-iteration loop in the callee, "
                "unbounded recursion through the path, recursion to depth 20000 (thorough: 100000)}; 17 non-terminating "
                "programs and 128 tight loops (16 spellings of a loop that does nothing x 8 kinds of frame; besides the "
                "instruction counter a step that does not return, dispatches no instruction and consumes 20 s of the child's "
                "own CPU time counts as spinning in native code); 66 length/count-taking built-ins x 15 size arguments up to "
                "2^53, NaN, negative, fractional and infinite; 34 two-argument built-ins (slice / splice / substr / substring /"
                " copyWithin / fill / lastIndexOf / Date.UTC / Date constructor / setters ...) x 15 x 15 value pairs; 19 "
                "recursive built-ins on data nested 100..100000 (thorough: 10^6) deep. Every program runs in a forked child "
                "under a host that counts steps and reads call_depth() before every step. A case is non-trivial when the child "
                "answered or died (not cut by the wall-clock watchdog); cases are distinct by construction",
        "exhaustive": "every call path x 4 variants; every size-taking built-in x 15 sizes",
        "floor": {"quick": 1000, "thorough": 1000},
        "unit_timeout": {"default": 1500},
        "technique": "runtime monitoring: H3 per-step instruction counter and native re-entry sites read by a careful host loop, "
                     "process-exit oracle in forked children under RLIMIT_AS, in-child watchdog deciding on the instruction counter",
        "level_text": "One step() may execute at most 10000 VM instructions; the host must be able to stop every non-terminating "
                      "program through its step or depth budget; recursion through any path must either be visible to call_depth() or "
                      "end in a catchable error; no size argument or nested datum may kill the process. Paths on which tsrun re-enters "
                      "the VM natively are ledgered per (native site, path), so a path that stops being trampolined is reported.",
        "level_note": "built-ins whose own loop is long but executes no VM instruction (regex backtracking, repeat, join over 2^31 holes) "
                      "are judged on crash/abort only; children run with RLIMIT_AS = 4 GiB and the 8 MiB main-thread stack, so 'impossible "
                      "allocation' means impossible under that limit; a wall-clock cut is inconclusive",
        "assumptions": ["a host gives the interpreter an 8 MiB stack and at most 4 GiB of address space",
                        "10000 VM instructions per step() is far above any single opcode's legitimate work (observed maximum on trampolined paths: 1)"],
    },
    "C07": {
        "engines": NATIVE,
        "level": "exploration",
        "rule": "85 await-position programs (one or more `await order()` inside try / catch / finally with pending return, "
                "throw, break, continue; loops; for-of over arrays and generators; methods using this/super after the await; "
                "constructors' callees; nested async calls 2-4 deep; destructuring defaults; template literals; arguments; "
                "conditional and logical operands; compound assignment; switch; closures capturing block-scoped variables "
                "across the await; error responses; caller-frame temporaries live across a callee's suspension; arguments "
                "objects; finally blocks with pending completions at several depths; iterators, labels, private fields, getters"
                " / setters as callees) and 11 programs with several host promises outstanding, plus composed corpus programs "
                "(loops, switch, try / finally, destructuring, classes, generators, closures) turned into `async function main`"
                " with their numeric literals read from the host (`(await order({k: lit / 2}))`; three variants per program: "
                "every site, every third site, one site; quick: 48 programs of shard VERIF_SEED mod 32, thorough: 120 programs "
                "of every shard), each run under 10-36 host policies (immediate answers, answers by a promise settled later, "
                "alternating, 1-3 spurious steps, oldest/newest-first, batched and shuffled settlement, collect() after every "
                "host action, GC thresholds 0/1/3). A run is non-trivial when the interpreter suspended to the host at least "
                "once; (program, policy) pairs are distinct by construction",
        "exhaustive": "every await-position class of the catalogue x the enumerated policies",
        "floor": {"quick": 400, "thorough": 800},
        "technique": "runtime monitoring: metamorphic oracle (in-program synchronous stand-in vs real host suspension under many host "
                     "schedules) plus the H1 stale-handle hook",
        "level_text": "The program's result and log must equal those of the same program with a synchronous stand-in for order(), "
                      "for every policy; race winners are excluded from the comparison because the language makes them "
                      "schedule-dependent.",
        "level_note": "tsrun's async model is blocking by design (order() suspends the whole VM); ES microtask ordering is not asserted, "
                      "concurrent programs write to disjoint slots and sort their logs",
        "assumptions": ["the stand-in reproduces the host's responses (k*2, error string 'TypeError: msg') exactly"],
    },
    "C08": {
        "engines": NATIVE,
        "level": "exploration",
        "rule": "21 protocol programs with 1..6 orders (sequential and dependent awaits, Promise.all/race/any/allSettled over "
                "host promises, races whose inputs are tagged in the payload and mixed with unrelated never-settling promises -"
                " the ledger then demands that the order whose promise the host settled first is never reported cancelled and "
                "every other race input is -, error responses, fire-and-forget, nested async functions, the same promise "
                "awaited twice) under ALL combinations of: which of the first three orders are answered by a promise settled "
                "later (8 masks) x settlement order (oldest/newest first, shuffles) x one-at-a-time vs batched settlement x 0/2"
                " spurious steps x host misuse (none / answer to an unknown id / late duplicate answer / answer ahead of "
                "issue), at GC thresholds 1 and default, with collect() after host actions; plus the 96 await/concurrency "
                "programs of C07 and composed programs with dozens of orders per run (C07's generated family; quick 24, "
                "thorough 32 x 40) under a reduced policy set. A run is non-trivial when at least one suspension was observed; "
                "(program, policy) pairs are distinct by construction",
        "exhaustive": "the policy product above for every program with <= 3 deferrable orders",
        "floor": {"quick": 4000, "thorough": 7000},
        "technique": "runtime monitoring: online ledger automaton over the boundary history (StepResult lists, fulfil/settle calls, "
                     "H4 quiescence at Complete), bounded-progress counters instead of wall-clock",
        "level_text": "Exactly-once, fresh ids, intact payloads, cancellations of issued orders only and once, no Suspended with "
                      "nothing left for the host to do, progress within 300000 steps after the host answered, Complete only when "
                      "nothing is outstanding; host misuse must leave the result unchanged.",
        "level_note": "liveness is restated as bounded progress on step counters; answers to ids the program never issued are host "
                      "misuse and only required to be harmless",
        "assumptions": ["unique payload ids make the history unambiguous"],
    },
    "C09": {
        "engines": NATIVE,
        "level": "exploration",
        "rule": "acyclic module graphs: ALL DAGs of 1..4 modules in which every module is reachable from the entry (import styles "
                "named/default/namespace/re-export/export-* as and path spellings ./a, ./x/../a, ././a, /abs/a assigned by rotation, "
                "modules placed in /app, /app/lib, /app/lib/deep, /other and the root) plus seeded random DAGs of 5..8 modules; each "
                "loaded under 24 enumerated host strategies (request order / reversed / rotated x all-at-once / one-per-round x no "
                "extras / early supply of everything / duplicate supplies / re-supply of modules that already ran) plus random "
                "permutations for the larger graphs. A (graph, strategy) run is non-trivial when at least one NeedImports round "
                "happened; runs are distinct by construction",
        "exhaustive": "all reachable DAGs up to 4 modules x the 24 enumerated supply strategies",
        "floor": {"quick": 3000, "thorough": 10000},
        "technique": "runtime monitoring: online monitor of the NeedImports protocol (no repeats, nothing already supplied, canonical "
                     "path vs independent resolver, importer), load-log checker (exactly once, dependencies first), closed-form "
                     "values and cross-schedule equality of result and exports",
        "level_text": "Every run is checked against the monitor and the closed-form expectation, and all strategies of one graph must "
                      "agree on result (which includes the order in which module bodies ran), export table and live-binding reads.",
        "level_note": "cyclic graphs are outside the property; the load order is observed through a log the module bodies write",
        "assumptions": ["reference path resolver as in C18"],
    },
    "C10": {
        "engines": NATIVE,
        "level": "exploration",
        "rule": "self-checking members of 78 construct families (array/object literals incl. spreads, holes, computed keys, methods, "
                "getters; argument lists of calls, methods, new, optional calls; parameter lists incl. defaults, rest, destructured; "
                "template and tagged-template literals; switch cases; sequences of statements, calls, declarations, closures, classes, "
                "distinct constants and property names; loop / if / try / function bodies whose length is the jump distance; nested "
                "blocks and functions; binary, logical, comma, conditional, member, index and call chains; patterns; class members; "
                "generator yields; enum members; string and array lengths) at sizes 0..40 dense, 2^k and 2^k+-1,+-2 for k=6..17, "
                "250..260, 509..514, 65530..65540 and 70000, each evaluated sandwiched between live temporaries and variables at the "
                "script top level and inside function, method and generator bodies. Every (family, context, n) triple is a distinct "
                "program; it is non-trivial when the front end returned (accepted or refused) rather than the watchdog firing",
        "exhaustive": "sizes 0..40 and every width boundary listed, for every family x context",
        "floor": {"quick": 15000, "thorough": 30000},
        "unit_timeout": {"default": 1500},
        "technique": "runtime monitoring: closed-form oracle on self-checking generated programs across size sweeps, process-exit "
                     "oracle in forked children, debug overflow checks as a sanitizer for narrowing casts, logical step budgets",
        "level_text": "Every member must either produce the closed-form value the generator computed (with its live neighbours "
                      "intact) or be refused by prepare() before running with a message naming a limit; a refusal of a sequence whose "
                      "parts are each accepted alone, a wrong value, an error raised while running, a panic, a signal or an exhausted "
                      "logical step budget is a violation.",
        "level_note": "sizes are sampled (dense at the 8-bit and 16-bit widths), not all n; the harness profile enables "
                      "overflow-checks and debug assertions, which a release build of tsrun does not have",
        "assumptions": ["the helper functions H/HS/cnt (rolling hash, rest parameters, charCodeAt) behave correctly at the sizes used; "
                        "they are themselves checked by the small members of every family"],
    },
    "C11": {
        "engines": NATIVE,
        "level": "exploration",
        "rule": "histories on one interpreter: a dead run (26 nesting kinds x 3 fault kinds, at script top level, inside a "
                "function and as a module body, plus runs that issued orders through native built-ins without suspending on "
                "them; 7 stalled runs - unanswered order, never-settling promise, imports never supplied, syntax error, "
                "unhandled rejections -; and runs abandoned by the host after s steps, for EVERY s of each of 26 programs in "
                "the thorough tier / in both tiers) composed programs with dozens of orders (C07's generated family, as scripts"
                " and as modules) where the host answers the first k orders and walks away, for every k; or a random sequence "
                "of 2-3 such runs, followed by 11 observer programs (probing every name a dead run declared, importing the dead"
                " module again from a script and from a module, reading the host-side export table, re-declaration, completions"
                " through finally, labelled loops, generators, async functions, modules, awaits, a host order). A history is "
                "non-trivial when the dead run really ended the way the history says; histories are distinct by construction",
        "exhaustive": "every abandonment step of the 26 nesting programs",
        "floor": {"quick": 300, "thorough": 1000},
        "technique": "runtime monitoring: metamorphic oracle (observer on reused vs fresh interpreter) plus H4 quiescence summary after "
                     "every observer, over enumerated crash points",
        "level_text": "After every dead history each observer must yield exactly the outcome, initial call depth and quiescence "
                      "summary (env is global, no env guards, empty call stack, no VM, no orders, no waiters, no pending program) that it "
                      "yields on a fresh interpreter.",
        "level_note": "dead runs use block/function-scoped declarations under unique names so that any visible difference is a leak; "
                      "deliberate global effects (top-level var/function, globalThis writes) are not generated",
        "assumptions": ["observers cover the state a later program can see; residue that no observer reads and H4 does not report is out of reach"],
    },
    "C12": {
        "engines": NATIVE,
        "level": "exploration",
        "rule": "programs that expose iteration orders and identity-keyed containers (objects with 0..40 keys incl. delete/re-"
                "add, for-in, JSON.stringify, Map/Set keyed by objects and functions, Symbol.for registry, sort stability, "
                "walks of 50..2000 fresh objects through JSON.stringify / join incl. a repaired cycle, promises, injected "
                "time/random providers, console) + statement snippets + holder programs + composed corpus; for each the solo "
                "trace (terminal step result, value, log, step count) is compared with a repetition in the same process, runs "
                "in two freshly exec'd processes, step-wise interleavings with 1-3 other interpreters in one thread (round-"
                "robin, random bursts, instances created/failed/dropped in between) runs on 4 concurrent threads, and runs "
                "after other interpreters lived and died on the same thread (3 rounds of 16 hostile predecessors that leave "
                "built-ins through failure and early-exit paths - cyclic JSON caught / uncaught / host-side, throwing getters, "
                "toJSON, replacers, revivers, comparators, callbacks, proxy traps, coercion hooks, deep recursion, abandoned "
                "generators and promises - some kept alive, most dropped; once on the worker's thread and once on a fresh "
                "thread where the predecessors run first). Every comparison counts as non-trivial; (program, variant) pairs are"
                " distinct by construction",
        "floor": {"quick": 3000, "thorough": 20000},
        "technique": "runtime monitoring: trace-equality oracle across repetitions, process restarts, step interleavings and threads",
        "level_text": "Identical source + identical injected providers must give identical step-by-step traces regardless of process, "
                      "of what other interpreter instances in the process do, and of the thread it runs on.",
        "level_note": "no data-race detector is used (every instance is !Send and confined to its thread; the threaded variant checks "
                      "isolation of results, not absence of races); a ThreadSanitizer build was not attempted",
        "assumptions": ["address-space layout differs between exec'd processes (ASLR on), so pointer-keyed hash orders would differ"],
    },
    "C13": {
        "engines": {"quick": ["native", "asan", "miri"], "thorough": ["native", "asan", "miri"]},
        "optional_engines": ["asan", "miri"],
        "crash_is_violation": True,
        "level": "exploration",
        "rule": "histories over the public Heap/Guard/Gc API in canonical form (guards and objects named in creation order, an "
                "operation offered only when its operands exist), enumerated exhaustively per family up to the stated depth and"
                " executed on the real heap in lock-step with a reference model; plus seeded random histories (<=250 named "
                "objects, <=8000 ops) churn runs with thousands of objects across chunk (256) and guard-pool (16) boundaries, "
                "and a guard-pool family (20-40 guards created, filled with roots of different counts, dropped in several "
                "orders and re-created around collections, so that recycled guard buffers are observed). A history counts as "
                "non-trivial when at least one collection in it reclaimed at least one object (H1 sweep counter); every "
                "enumerated history is distinct by construction",
        "exhaustive": "native quick: full alphabet <=3 guards/<=4 objects/<=7 ops (the property's bound), core alphabet <=9 ops at thresholds 0 and 1; "
                      "thorough: 8 / 10 / 10; Miri and ASan: smaller depths (see observed.*family_*_depth)",
        "floor": {"quick": 10000, "thorough": 100000},
        "unit_timeout": {"default": 600, "miri": 1500},
        "technique": "runtime monitoring: lock-step executable reference model over exhaustively enumerated and random API histories, "
                     "H1 stale-handle log, Miri (Tree Borrows) and AddressSanitizer as memory-safety oracles",
        "level_text": "Every history of the bounded space is executed on the real collector and compared after the final operation "
                      "(payloads and links of model-reachable objects, stats().live_objects after collect, reclaimed-ness of unreachable "
                      "objects, slot reuse accounting); the same driver runs under Miri and ASan so that any freed/out-of-bounds access on "
                      "those histories is reported. Exhaustive to the stated depth, sampled beyond.",
        "level_note": "trusts the reference model (harness/src/checks/c13.rs, ~150 lines) and the H1 generation stamps; Miri runs with Tree "
                      "Borrows (the Stacked-Borrows-only retag in alloc_internal is an aliasing-model matter, not freed/out-of-bounds memory); "
                      "histories in which a stale handle was dropped onto a reused slot are attributed to the recorded finding",
        "assumptions": [
            "reference model of guard reachability and of the collect-before-allocate counter is correct (a disagreement about *when* a collection runs is reported as inconclusive, not as a violation)",
            "Miri: Tree Borrows; ASan: detect_leaks=0 (the arena is freed with the heap)",
        ],
    },
    "C14": {
        "engines": NATIVE,
        "level": "exploration",
        "rule": "self-contained programs (one construct per program: statement snippets, holder programs for every container "
                "kind, failing programs that end in an uncaught error at 21 nesting kinds inside a function and at the script "
                "top level, top-level control flow leaving block scopes, a slice of the atom matrix, and the composed corpus) "
                "are each run 8 times on ONE interpreter; after every run the host calls collect() and reads "
                "gc_stats().live_objects. Promise-adoption shapes (a promise resolved with a pending promise through the "
                "executor, a then-callback or an async function) are among the repeated programs. A program is non-trivial when"
                " all 8 runs terminated within the step budget; programs are distinct by construction",
        "floor": {"quick": 2000, "thorough": 10000},
        "unit_timeout": {"default": 900},
        "technique": "runtime monitoring: conservation oracle on the live-object count after collect() over repeated runs on one "
                     "interpreter, with the H4 quiescence summary naming what grew",
        "level_text": "For every program the series of live-object counts after collection must be constant from the third "
                      "repetition on; a growing series is a leak attributed to that program (and, through H4, to env_guards / "
                      "call_stack / wait graph / module table growth).",
        "level_note": "the first two repetitions may legitimately intern strings or instantiate internal modules; programs that "
                      "exceed the step budget are inconclusive",
        "assumptions": ["gc_stats().live_objects after an explicit collect() counts exactly the reachable objects (established by C13)"],
    },
    "C15": {
        "engines": NATIVE,
        "level": "exploration",
        "rule": "doubles from seed-independent structured families (every power of 2 and of 10 with +-3 ulp neighbours, every binary "
                "exponent x {0, max, alternating, single-bit} mantissas, integers around 2^31/2^32/2^53/1e21, half-way cases per digit "
                "count, notation switch regions) plus seeded uniform random bit patterns, each pushed through number_to_string and "
                "string_to_number natively; sampled values additionally through the in-program paths (String, template, concat, toString, "
                "JSON.stringify, literals, Number, unary +, parseFloat, JSON.parse, | & ^ ~ << >> >>>, toFixed/toPrecision/toExponential "
                "for digits 0..100, toString/parseInt for radix 2..36). A case is non-trivial unless it is an exact small integer; "
                "cases are distinct double bit patterns / (operation, operand) pairs",
        "exhaustive": "the structured families are enumerated completely at every seed; random bit patterns are sampled per shard",
        "floor": {"quick": 100000, "thorough": 1000000},
        "technique": "runtime monitoring: independent reference oracles (shortest-round-trip digits checked by read-back and minimality, "
                     "exact decimal arithmetic with round-half-up, modular ToInt32) over enumerated and random inputs, native and in-program",
        "level_text": "Every finite double of the structured families and millions of random bit patterns are converted by tsrun and judged "
                      "by oracles that do not share code with it: the output must be in Number::toString layout, read back to the same "
                      "double, be minimal in digits and equal the independent shortest formatter; numeric strings must read as the "
                      "correctly rounded double; integer conversions, the fixed/precision/exponential formatters and radix conversion are "
                      "compared in-program against exact arithmetic.",
        "level_note": "trusts Rust's float parsing/printing (std) as the exact-decimal and correctly-rounded reference; fractional radix "
                      "output is implementation-approximated in ECMAScript and only required to denote the value",
        "assumptions": ["Rust std float formatting ({:e} shortest, {:.N} exact) and parsing are correct",
                        "ties in toFixed/toPrecision/toExponential round to the larger magnitude, as the specification's 'pick the larger n' prescribes"],
    },
    "C16": {
        "engines": NATIVE,
        "level": "exploration",
        "rule": "documents: 58 member-name classes (index-like, __proto__ and other Object.prototype names, empty, escapes, control and "
                "astral characters, 300 chars) alone / with siblings / nested, all ordered pairs of 11 colliding names, ~900 strings (every "
                "code point below U+0300, the BMP / astral boundaries, escapes, 100 kB) as values, elements, keys and top level, 23 escape "
                "spellings x 6 contexts, 61 number spellings, whitespace / duplicate-key / empty-container texts, arrays to 65536 elements, "
                "objects to 20000 members, nesting 8..20000, JS value graphs with every script-only leaf (undefined, function, symbol, NaN, "
                "+-Infinity, -0) in every container position, shared acyclic substructure, 6 cyclic values, plus seeded random trees "
                "(depth <= 6) shrunk on failure; each pushed through up to 15 paths (JSON.parse read back member by member in-script, "
                "JSON.stringify compact / indented, api::create_from_json -> js_value_to_json, host value as a global -> stringify / "
                "in-script read / returned, JS literal -> host / stringify, module export -> api::get_export, C API parse -> stringify). "
                "A case is non-trivial when at least one path produced a result to compare; cases are distinct by construction",
        "exhaustive": "the enumerated families are the same at every seed; random trees are sampled per shard",
        "floor": {"quick": 2500, "thorough": 5000},
        "unit_timeout": {"default": 900},
        "technique": "runtime monitoring: round-trip oracle (serde_json::Value equality, well-formedness of emitted text) over every "
                     "boundary path, an in-script member-by-member reader, crash-isolated children, failing random documents shrunk",
        "level_text": "Every path must reproduce the document (numbers as doubles, member order free, -0 may print as 0), emitted text "
                      "must be well-formed JSON, script-only leaves follow the statement's omission rules, shared substructure must not be "
                      "mistaken for a cycle, cyclic values must be refused with a catchable TypeError, and no document may kill the process.",
        "level_note": "serde_json is both tsrun's and the oracle's text parser (the oracle checks the tree<->value mapping and the text "
                      "tsrun emits, not serde_json itself); documents nested deeper than serde_json's own limit are compared textually; lone "
                      "surrogate escapes are outside the statement (not scalar values); object literals with a __proto__ member are not "
                      "used as a path (that is object-literal semantics, C01)",
        "assumptions": ["serde_json parses and prints JSON correctly", "the in-script reader (ser/qs) uses only typeof, Array.isArray, Object.keys, indexing, charAt/charCodeAt"],
    },
    "C17": {
        "engines": {"quick": ["native", "asan", "miri"], "thorough": ["native", "asan", "miri"]},
        "optional_engines": ["miri"],
        "crash_is_violation": True,
        "miri_ignore_leaks": True,
        "level": "exploration",
        "rule": "call sequences of 200 C API calls (Miri: 12-16, no script execution) drawn by a driver from a shadow model of "
                "handle ownership: creation of every value kind, objects / arrays / JSON documents, script-made values the C "
                "API must treat as opaque (symbol-keyed and accessor members, proxies, sparse arrays, frozen / null-prototype "
                "objects, class instances, functions, typed errors), set / get / has / delete / keys, array push / get / len, "
                "dup and free in any order, globals, spot checks of every live handle through the inspectors and "
                "tsrun_json_stringify, forced collections (hundreds of short-lived handles, allocation-heavy scripts), scripts "
                "that read host-provided globals back, native callbacks that re-enter the API (create values, parse JSON, call "
                "script functions, throw; native -> script -> native three levels deep with growing argument lists, every level"
                " reading its own arguments after the nested call), tsrun_call with host values, order round trips whose object"
                " responses are released right after tsrun_fulfill_orders and followed by allocation, module runs with import "
                "requests and export tables, and contexts freed before their values; plus one unit that passes NULL in every "
                "pointer position of every exported function. A sequence is non-trivial when a collection reclaimed at least "
                "one object while it ran (H1 sweep counter; Miri: every sequence); sequences are distinct by construction",
        "exhaustive": "NULL in each pointer parameter of each exported function, one at a time",
        "floor": {"quick": 600, "thorough": 3000},
        "unit_timeout": {"default": 900, "miri": 2400},
        "technique": "runtime monitoring: AddressSanitizer and Miri on a Rust driver that calls the exported C functions through "
                     "extern \"C\", a shadow model of handle ownership and contents as the behavioural oracle, the H1 stale-handle hook",
        "level_text": "No sanitizer report, no crash, every returned string NUL-terminated UTF-8, every live handle keeps the content "
                      "the host gave it across steps, collections and callbacks, scripts read host values unchanged, and NULL arguments "
                      "come back as error results.",
        "level_note": "C-caller undefined behaviour outside the header's contract (double free of a handle, use of a freed context) is "
                      "not generated; the shadow model keeps containers alias-free by freezing handles that have been stored elsewhere; "
                      "Miri runs Tree Borrows on short sequences without script execution (an interpreter start alone costs ~16 s there)",
        "assumptions": ["the extern \"C\" declarations in harness/src/ffi.rs match src/ffi (they are checked by the compiler only through the shared struct types)",
                        "ASan: detect_leaks=0 (the arena is freed with the heap)"],
    },
    "C18": {
        "engines": NATIVE,
        "level": "exploration",
        "rule": "pairs (specifier, importer) enumerated exhaustively over the segment alphabet "
                "{'', '.', '..', 'a', 'b', '..a', 'a.ts'} x prefixes {./, ../, /, none} x trailing slash, "
                "plus seeded random paths of up to 12 segments; a pair is non-trivial when normalisation "
                "has something to do ('.', '..' or empty segment in the specifier, or importer directly "
                "under '/'); every pair in the enumeration is distinct by construction",
        "exhaustive": "quick: specifiers <=5 segments x importers <=3 segments; thorough: <=5 x <=4",
        "floor": {"quick": 1000000, "thorough": 10000000},
        "technique": "runtime monitoring: reference-model oracle over an exhaustively executed input space",
        "level_text": "ModulePath::resolve is executed on every (specifier, importer) pair of the exhaustively enumerated "
                      "alphabet space (quick: <=5 x <=3 segments, 1.4e8 pairs; thorough: <=5 x <=4, 1e9 pairs) plus seeded random "
                      "longer paths; every result is compared with an independent reference resolver and the algebraic laws "
                      "(absolute, canonical, idempotent). Exhaustive over the bounded space, sampled beyond it.",
        "level_note": "trusts the 25-line reference resolver; '.'/'..' as whole specifiers and '..' above a non-absolute "
                      "importer are left open by the statement and not judged",
        "assumptions": [
            "reference resolver (25 lines, harness/src/checks/c18.rs) is the specification of 'join, then drop . .. and empty segments'",
            "the specifiers '.' and '..' themselves and '..' climbing above a non-absolute importer are left open by the statement and are not judged",
        ],
    },
    "C20": {
        "engines": {"quick": ["native"], "thorough": ["native"]},
        "level": "exploration",
        "rule": "programs with a planted fault at a generator-known position: 32 runtime fault kinds (property of undefined/null, call "
                "of a non-function, undeclared identifier, TDZ, assignment to const, new of a non-constructor, bad in/instanceof operand, "
                "non-iterable in for-of / destructuring, native Range/Type/Syntax errors, faults inside templates, arguments, literals, "
                "conditions, loops, try/finally, switch, return) and 20 syntax faults (an impossible token in expressions, parameter lists, "
                "class bodies, object literals, template substitutions, type annotations, imports); the runtime fault sits at the top level "
                "or at the end of a call chain of depth 1..12 built from 11 trampolined link kinds (declarations, function expressions, "
                "named function expressions, arrows with block and expression bodies, object / class / static methods, constructors, "
                "closures, bound functions) and 6 native-mediated ones, spread over 1..3 modules; each program is rendered under 15 layouts "
                "(one line, one token per line, random breaks, block and line comments, blank lines, tabs, CRLF, CR-only, LS/PS, wide "
                "characters in comments and in strings on the fault's line, a multi-line template before the fault, a leading comment "
                "block). A case is non-trivial when the run failed with an error that carries a location; cases are distinct by construction",
        "exhaustive": "fault kind x layout x {script, module} x depth {0,1,3}; all ordered pairs of trampolined link kinds x layout x {1,2} modules; syntax fault x layout x {entry, imported module}",
        "floor": {"quick": 4000, "thorough": 7000},
        "technique": "runtime monitoring: generator-known source map (marks carried through a layout engine) as the oracle for reported "
                     "positions, frame lists, function names and files of failing runs",
        "level_text": "Every reported (file, line, column) must lie inside the marked offending expression of its frame (the planted "
                      "fault for the innermost frame, the active call expression for every caller, the bad token for syntax errors), the "
                      "frame list must be exactly the active calls innermost first ending with the top-level frame, and every frame must "
                      "carry the name of its function — under every layout.",
        "level_note": "columns are compared in characters (tsrun's unit); errors that carry no location (values thrown by the program) are "
                      "not judged; the layouts do not reflow inside tokens",
        "assumptions": ["the mark positions computed by the layout engine follow ECMAScript line terminators (LF, CR, CRLF, LS, PS) and 1-based character columns"],
    },
}
