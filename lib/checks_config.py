"""Per-check configuration for the orchestrator (engines, rules, floors, assumptions)."""

NATIVE = {"quick": ["native"], "thorough": ["native"]}

CHECKS = {
    "C18": {
        "engines": NATIVE,
        "level": "exploration",
        "rule": "pairs (specifier, importer) enumerated exhaustively over the segment alphabet "
                "{'', '.', '..', 'a', 'b', '..a', 'a.ts'} x prefixes {./, ../, /, none} x trailing slash, "
                "plus seeded random paths of up to 12 segments; a pair is non-trivial when normalisation "
                "has something to do ('.', '..' or empty segment in the specifier, or importer directly "
                "under '/'); every pair in the enumeration is distinct by construction",
        "exhaustive": "quick: specifiers <=5 segments x importers <=3 segments; thorough: <=5 x <=4",
        "floor": {"quick": 1000000, "thorough": 10000000},
        "assumptions": [
            "reference resolver (25 lines, harness/src/checks/c18.rs) is the specification of 'join, then drop . .. and empty segments'",
            "the specifiers '.' and '..' themselves and '..' climbing above a non-absolute importer are left open by the statement and are not judged",
        ],
    },
}
